(* Characters and strings of the models; wire encoding used by the correspondence harness.
   No proofs here: model files must keep evaluating when a proof breaks. *)
From Coq Require Import NArith List String Ascii Bool.
Import ListNotations.

Definition ch := N.                 (* Unicode code point *)
Definition str := list ch.

Definition c_nl : ch := 10%N.
Definition c_sp : ch := 32%N.
Definition c_tab : ch := 9%N.
Definition c_ff : ch := 12%N.
Definition c_cr : ch := 13%N.
Definition c_hash : ch := 35%N.
Definition c_bslash : ch := 92%N.
Definition c_dot : ch := 46%N.
Definition c_comma : ch := 44%N.
Definition c_lpar : ch := 40%N.
Definition c_rpar : ch := 41%N.
Definition c_star : ch := 42%N.
Definition c_semi : ch := 59%N.
Definition c_us : ch := 95%N.
Definition c_eq : ch := 61%N.
Definition c_dash : ch := 45%N.

Definition is_digit (c : ch) : bool := (48 <=? c)%N && (c <=? 57)%N.
Definition is_upper (c : ch) : bool := (65 <=? c)%N && (c <=? 90)%N.
Definition is_lower (c : ch) : bool := (97 <=? c)%N && (c <=? 122)%N.
Definition is_alpha (c : ch) : bool := is_upper c || is_lower c.
(* ASCII identifier characters; the models that need Unicode word characters take
   the predicate as a parameter. *)
Definition is_ident_start (c : ch) : bool := is_alpha c || (c =? c_us)%N.
Definition is_ident_char (c : ch) : bool := is_ident_start c || is_digit c.

Fixpoint str_eqb (a b : str) : bool :=
  match a, b with
  | [], [] => true
  | x :: a', y :: b' => (x =? y)%N && str_eqb a' b'
  | _, _ => false
  end.

(* ---------- wire encoding: printable ASCII literally; everything else, and dollar, double quote, backslash, as dollar-hex-semicolon ---------- *)

Definition hexdigit (n : N) : ascii :=
  ascii_of_N (if (n <? 10)%N then 48 + n else 87 + n)%N.

Fixpoint hex_pos (fuel : nat) (n : N) (acc : string) : string :=
  match fuel with
  | O => acc
  | S f => let acc' := String (hexdigit (N.modulo n 16)) acc in
           if (n <? 16)%N then acc' else hex_pos f (N.div n 16) acc'
  end.
Definition hex_of_N (n : N) : string := hex_pos 32 n EmptyString.

Definition plain (c : ch) : bool :=
  (32 <=? c)%N && (c <=? 126)%N && negb (c =? 36)%N && negb (c =? 34)%N && negb (c =? 92)%N.

Fixpoint enc (s : str) : string :=
  match s with
  | [] => EmptyString
  | c :: r => if plain c then String (ascii_of_N c) (enc r)
              else String "$"%char (append (hex_of_N c) (String ";"%char (enc r)))
  end.

Definition hexval (a : ascii) : option N :=
  let n := N_of_ascii a in
  if (48 <=? n)%N && (n <=? 57)%N then Some (n - 48)%N
  else if (97 <=? n)%N && (n <=? 102)%N then Some (n - 87)%N
  else None.

(* dec_go s esc : esc = Some v while inside an escape *)
Fixpoint dec_go (s : string) (esc : option N) : str :=
  match s with
  | EmptyString => []
  | String a r =>
      match esc with
      | None => if Ascii.eqb a "$"%char then dec_go r (Some 0%N) else N_of_ascii a :: dec_go r None
      | Some v => if Ascii.eqb a ";"%char then v :: dec_go r None
                  else match hexval a with
                       | Some d => dec_go r (Some (v * 16 + d)%N)
                       | None => dec_go r None
                       end
      end
  end.
Definition dec (s : string) : str := dec_go s None.

"""Child process of the C12 harness: one fresh interpreter per history.

    python -m harness.c12_child   < job.json   > "RESULT" + json

job = {"mode": "cached" | "fresh", "devmap": {abs path: st_dev}, "etc": [abs paths] | None,
       "module_file": abs path | None, "files": [abs paths to parse (fresh mode only)],
       "lookups": [{"cwd", "home", "target", "env": [p, k, m]}]}

cached: the lookups run in sequence in this one process (ImportDB._default_cache as the code leaves it).
fresh : every lookup in its own forked copy of the interpreter (nothing survives from another lookup);
        also the parse oracle of every file (in the parent, through _from_code on the text only).
st_dev is injected by wrapping os.stat; _find_etc_dirs is replaced by the job's list (oracle argument)
unless the job asks for the real function on a faked module location ("module_file").
"""
import json
import os
import sys


class _StatProxy(object):
    def __init__(self, st, dev):
        self._st = st
        self.st_dev = dev

    def __getattr__(self, name):
        return getattr(self._st, name)


def install_stat(devmap):
    real = os.stat

    def stat(path, *a, **kw):
        st = real(path, *a, **kw)
        try:
            p = os.path.realpath(os.fspath(path))
        except TypeError:
            return st
        if isinstance(p, bytes):
            p = p.decode()
        d = devmap.get(p)
        return st if d is None else _StatProxy(st, d)
    os.stat = stat


def imps(s):
    return sorted([i.fullname, i.import_as] for i in s)


def show_db(db):
    return {"known": imps(db.known_imports.imports),
            "mand": imps(db.mandatory_imports.imports),
            "canon": sorted([k, v] for k, v in db.canonical_imports.items()),
            "forget": imps(db.forget_imports.imports),
            "index": sorted([k, [[i.fullname, i.import_as] for i in v]] for k, v in db.by_fullname_or_import_as.items())}


def show_key(k):
    if k[0] == 1:
        return ["1", str(k[1])] + list(k[2:])
    return ["2"] + [str(f) for f in k[1]] + (["MANDATORY"] + [str(f) for f in k[2]] if k[2] else [])


def parse_file(ImportDB, Filename, path):
    """What _from_code extracts from one file, before _from_data."""
    got = {}
    orig = ImportDB._from_data.__func__

    def cap(cls, known, mand, canon, forget):
        got["known"] = [[i.fullname, i.import_as] for i in known]
        got["mand"] = [[i.fullname, i.import_as] for s in mand for i in s.imports]
        got["canon"] = [[k, v] for m in canon for k, v in m.items()]
        got["forget"] = [[i.fullname, i.import_as] for s in forget for i in s.imports]
        return orig(cls, known, mand, canon, forget)
    ImportDB._from_data = classmethod(cap)
    try:
        with open(path) as f:
            text = f.read()
        ImportDB._from_code([text] if text.strip() else [])
        return got
    except Exception as e:
        return {"err": type(e).__name__}
    finally:
        ImportDB._from_data = classmethod(orig)


def main():
    job = json.loads(sys.stdin.read())
    install_stat(job["devmap"])
    from pyflyby import _importdb
    from pyflyby._file import Filename
    from pyflyby._importdb import ImportDB
    out = {}
    if job.get("module_file"):
        _importdb.__file__ = job["module_file"]
        f = _importdb._find_etc_dirs
        f.cache_clear() if hasattr(f, 'cache_clear') else f.cache.clear()
        out["etc"] = [str(f) for f in _importdb._find_etc_dirs()]
    elif job.get("etc") is not None:
        etc = [Filename(p) for p in job["etc"]]
        _importdb._find_etc_dirs = lambda: etc
    loaded = []
    orig = ImportDB._from_filenames.__func__

    def cap(cls, filenames, mand=[]):
        loaded.append([str(f) for f in filenames])
        return orig(cls, filenames, mand)
    ImportDB._from_filenames = classmethod(cap)
    def one(lk):
        os.chdir(lk["cwd"])
        os.environ["HOME"] = lk["home"]
        for var, val in zip(("PYFLYBY_PATH", "PYFLYBY_KNOWN_IMPORTS_PATH", "PYFLYBY_MANDATORY_IMPORTS_PATH"), lk["env"]):
            if val is None:
                os.environ.pop(var, None)
            else:
                os.environ[var] = val
        del loaded[:]
        try:
            db = ImportDB.get_default(lk["target"])
            r = show_db(db)
            if loaded:
                r["kind"] = "loaded"
                r["files"] = loaded[-1]
            else:
                r["kind"] = "hit"
        except Exception as e:
            r = {"kind": "err", "err": type(e).__name__, "msg": str(e)[:200]}
        r["keys"] = sorted((show_key(k) for k in ImportDB._default_cache), key=json.dumps)
        return r

    res = []
    for lk in job["lookups"]:
        if job["mode"] == "fresh":
            # a really fresh load: a forked copy of this (so far untouched) interpreter per lookup, so that
            # no process-level state whatsoever (not only _default_cache) survives from another lookup
            rd, wr = os.pipe()
            pid = os.fork()
            if pid == 0:
                try:
                    os.close(rd)
                    with os.fdopen(wr, "w") as f:
                        f.write(json.dumps(one(lk)))
                finally:
                    os._exit(0)
            os.close(wr)
            with os.fdopen(rd) as f:
                data = f.read()
            os.waitpid(pid, 0)
            res.append(json.loads(data))
        else:
            res.append(one(lk))
    out["lookups"] = res
    if job["mode"] == "fresh":
        out["parsed"] = {p: parse_file(ImportDB, Filename, p) for p in job["files"]}
    sys.stdout.write("RESULT" + json.dumps(out))


if __name__ == "__main__":
    main()

"""Child process of the C14 / C13 harnesses: one real TerminalIPythonApp, driven in-process.

    python -m harness.c14_shell      stdin: one case (JSON)      stdout: a line RESULT<json>

case = {"ops": [...], "jedi": bool, "with_pyflyby": bool, "bad_exc": "ValueError", "pre_imports": {idx: [stmt]}}
op   = {"op": "Enable"|"EnableAgain"|"Disable"|"LoadExt"|"UnloadExt"|"ReloadExt"|"LoadFn"|"UnloadFn"}
     | {"op": "cell", "act": "run"|"inspect"|"cglobal"|"cattr"|"runfile"|"prun"|"debugstmt", "text": str,
        "faults": [[site, exc_class_name], ...]}

Everything is observed from outside pyflyby (identities of the objects in the patched slots and hook
lists); faults are injected by replacing the named pyflyby function by a stub that raises while armed.
"""
import builtins
import contextlib
import io
import json
import os
import sys
import tempfile
import shutil

DB_TEXT = """\
from base64 import b64decode
import zzmod_ok
from zzmod_bad import badname
"""

DB_BROKEN = "from base64 import b64decode\nfrom zzmod_ok import\n"      # unparsable database file

EXC = {n: getattr(builtins, n) for n in
       ["ValueError", "OSError", "KeyError", "AssertionError", "AttributeError", "ImportError", "RuntimeError",
        "TypeError", "ZeroDivisionError", "SyntaxError", "KeyboardInterrupt", "SystemExit", "GeneratorExit",
        "MemoryError", "RecursionError", "NameError"]}


class CustomError(Exception):
    pass


class CustomBase(BaseException):
    pass


EXC["CustomError"] = CustomError
EXC["CustomBase"] = CustomBase


class StrFailure(Exception):
    """what the unprintable exceptions below raise from __str__ / __repr__"""


class StrRaises(Exception):
    def __str__(self):
        raise StrFailure("str() of the injected exception raises")


class ReprRaises(Exception):
    def __str__(self):
        raise StrFailure("str() of the injected exception raises")

    def __repr__(self):
        raise StrFailure("repr() of the injected exception raises")


class _Unprintable(object):
    def __str__(self):
        raise StrFailure("str() of the exception's argument raises")
    __repr__ = __str__


class UnprintableArgs(Exception):
    pass


class NeedsArgs(Exception):
    def __init__(self, code, detail):
        Exception.__init__(self, code, detail)
        self.code, self.detail = code, detail


for _c in (StrFailure, StrRaises, ReprRaises, UnprintableArgs, NeedsArgs):
    EXC[_c.__name__] = _c
EXC["OSErrorErrno"] = OSError
EXC["UnicodeDecodeError"] = UnicodeDecodeError
EXC["IsADirectoryError"] = IsADirectoryError
EXC["FileNotFoundError"] = FileNotFoundError


def make_exc(name, site):
    """the exception object a stub raises"""
    if name == "UnprintableArgs":
        return UnprintableArgs(_Unprintable())
    if name == "NeedsArgs":
        return NeedsArgs(7, "injected at %s" % site)
    if name == "OSErrorErrno":
        import errno
        return OSError(errno.EACCES, "Permission denied (injected at %s)" % site, "/nonexistent/db.py")
    if name == "UnicodeDecodeError":
        return UnicodeDecodeError("utf-8", b"\xe9 injected", 0, 1, "invalid continuation byte")
    return EXC[name]("injected at %s" % site)


def safe_str(e, n=160):
    try:
        return str(e)[:n]
    except BaseException as e2:
        return "<str() raised %s>" % type(e2).__name__


class _Tee(object):
    """a user's write-only capture of a standard stream: write() works, flush() may raise"""
    def __init__(self, buf, flush_raises):
        self._buf, self._flush_raises = buf, flush_raises

    def write(self, text):
        self._buf.write(text)
        return len(text)

    def flush(self):
        if self._flush_raises:
            raise OSError(32, "Broken pipe (flush of the user's stream object)")

    def isatty(self):
        return False


@contextlib.contextmanager
def stdio_variant(buf, kind):
    """the cell runs with sys.stdout captured in [buf]; [kind] replaces stdout or stderr by an awkward object:
    'out:flush' / 'err:flush' (flush() raises), 'out:closed' / 'err:closed' (a closed file), 'out:none' / 'err:none'"""
    which, _, how = (kind or "out:plain").partition(":")
    def make(capture):
        if how == "flush":
            return _Tee(capture, True)
        if how == "closed":
            f = io.StringIO()
            f.close()
            return f
        if how == "none":
            return None
        return capture
    old_out, old_err = sys.stdout, sys.stderr
    try:
        sys.stdout = make(buf) if which == "out" else buf
        if which == "err":
            sys.stderr = make(io.StringIO())
        yield
    finally:
        sys.stdout, sys.stderr = old_out, old_err


SCRIPTS = {
    # a valid script in latin-1 with a coding cookie: CPython runs it, pyflyby reads it as UTF-8
    "latin1": b"# -*- coding: latin-1 -*-\nzz_r = '\xe9'\nzz_s = len(zz_r)\n",
    # UTF-8 BOM: CPython runs it
    "bom": b"\xef\xbb\xbfzz_r = 1\n",
    # invalid UTF-8 without a cookie: CPython refuses it too
    "badutf8": b"zz_r = '\xe9'\n",
    "syntaxerr": b"zz_r = = 1\n",
}

JP_ORDER = ["input_splitter.reset", "_ofind", "run_ast_nodes", "compile", "magic.time", "magic.timeit",
            "_run_with_profiler", "magic.prun", "matchers", "global_matches", "attr_matches", "safe_execfile",
            "debugger", "_run_with_debugger"]


def main():
    case = json.loads(sys.stdin.read())
    real_out = os.dup(1)
    scratch = tempfile.mkdtemp(prefix="verif-c14-")
    try:
        log = os.open(os.path.join(scratch, "fd.log"), os.O_WRONLY | os.O_CREAT)
        os.dup2(log, 1)
        os.dup2(log, 2)
        res = drive(case, scratch)
    except BaseException as e:        # harness failure, reported as such
        import traceback
        res = {"__child_error__": "%s: %s" % (type(e).__name__, e), "tb": traceback.format_exc()[-2000:]}
    finally:
        shutil.rmtree(scratch, ignore_errors=True)
    os.write(real_out, ("RESULT" + json.dumps(res) + "\n").encode())


def drive(case, scratch):
    moddir = os.path.join(scratch, "mods")
    os.makedirs(moddir)
    with open(os.path.join(moddir, "zzmod_ok.py"), "w") as f:
        f.write("attr_a = 1\nattr_b = 2\nother = 3\n")
    with open(os.path.join(moddir, "zzmod_bad.py"), "w") as f:
        be = case.get("bad_exc", "ValueError")
        if be in ("CustomError", "CustomBase"):
            f.write("class %s(%s):\n    pass\n" % (be, "Exception" if be == "CustomError" else "BaseException"))
        f.write("raise %s('boom')\nbadname = 1\n" % be)
    with open(os.path.join(scratch, "db.py"), "w") as f:
        f.write(DB_BROKEN if case.get("db_broken_at_start") else DB_TEXT)
    with open(os.path.join(scratch, "runme.py"), "w") as f:
        f.write(case.get("runfile_text", "zz_r = b64decode('aGk=')\n"))
    sys.path.insert(0, moddir)
    cwd = os.path.join(scratch, "cwd")
    os.makedirs(cwd)
    with open(os.path.join(cwd, "zzcwd_mod.py"), "w") as f:
        f.write("val = 5\n")
    os.chdir(cwd)
    if case.get("bad_finder"):
        # a natural fault source for completion: a sys.path entry whose finder cannot enumerate its modules
        class ZzBadFinder(object):
            def __init__(self, path):
                if path != "zz-bad-finder://entry":
                    raise ImportError(path)

            def find_spec(self, name, target=None):
                return None

            def invalidate_caches(self):
                pass

            def iter_modules(self, prefix=""):
                raise OSError(5, "Input/output error (enumerating zz-bad-finder://entry)")
        sys.path_hooks.insert(0, ZzBadFinder)
        sys.path.append("zz-bad-finder://entry")
    os.environ["PYFLYBY_PATH"] = os.path.join(scratch, "db.py")
    with_pf = case.get("with_pyflyby", True)

    import signal
    sig = case.get("signals")
    if sig == "sigterm_handler":
        signal.signal(signal.SIGTERM, lambda signum, frame: None)      # an application's own handler
    elif sig == "sigterm_ign":
        signal.signal(signal.SIGTERM, signal.SIG_IGN)
    elif sig == "sigint_handler":
        signal.signal(signal.SIGINT, lambda signum, frame: None)
    elif sig == "sigquit_ign":
        signal.signal(signal.SIGQUIT, signal.SIG_IGN)
    elif sig == "faulthandler":
        import faulthandler
        faulthandler.enable()
    from IPython.terminal.ipapp import TerminalIPythonApp
    app = TerminalIPythonApp.instance()
    argv = ['--no-banner', '--quick', '--simple-prompt', '--colors=NoColor', '--no-confirm-exit',
            '--Completer.use_jedi=%s' % bool(case.get("jedi", False))]

    class H(object):        # the shell and its parts, once it exists
        ip = execmgr = completer = iptb = splitter = None
        line_magics = {}

    def bind_shell():
        H.ip = app.shell
        H.execmgr = H.ip.magics_manager.magics['line']['prun'].__self__ if hasattr(H.ip, "magics_manager") else None
        H.line_magics = H.ip.magics_manager.magics['line'] if hasattr(H.ip, "magics_manager") else {}
        H.completer = getattr(H.ip, "Completer", None)
        H.iptb = getattr(H.ip, "InteractiveTB", None)
        H.splitter = getattr(H.ip, "input_splitter", None)

    preshell = bool(case.get("preshell"))
    if not preshell:
        app.initialize(argv=argv)
        bind_shell()
    out = {"trace": []}

    # ------------------------------------------------------------------ identities
    seen = []            # keeps every observed object alive, so that id() is never recycled

    def tok(o):
        for i, x in enumerate(seen):
            if x is o:
                return i
        seen.append(o)
        return len(seen) - 1

    UNSET = object()

    def containers():
        ipd = getattr(H.ip, "__dict__", {})
        return [
            (getattr(H.splitter, "__dict__", {}), "reset"), (ipd, "_ofind"), (ipd, "run_ast_nodes"),
            (ipd, "compile"), (H.line_magics, "time"), (H.line_magics, "timeit"),
            (getattr(H.execmgr, "__dict__", {}), "_run_with_profiler"), (H.line_magics, "prun"),
            (type(H.completer).__dict__ if H.completer is not None else {}, "matchers"),
            (getattr(H.completer, "__dict__", {}), "global_matches"),
            (getattr(H.completer, "__dict__", {}), "attr_matches"), (ipd, "safe_execfile"),
            (getattr(H.iptb, "__dict__", {}), "debugger"), (getattr(H.execmgr, "__dict__", {}), "_run_with_debugger"),
            (app.__dict__, "init_shell"), (app.__dict__, "initialize_subcommand")]

    def val(v):
        if v is UNSET:
            return "U"
        return ("A%d" if getattr(v, "__aspect__", None) else "P%d") % tok(v)

    def effective():
        """what attribute access resolves to (identity of the underlying function)"""
        objs = [(H.ip, "_ofind"), (H.ip, "safe_execfile"), (H.completer, "global_matches"), (H.completer, "attr_matches"),
                (H.iptb, "debugger"), (H.execmgr, "_run_with_profiler"), (H.execmgr, "_run_with_debugger")]
        r = []
        for o, n in objs:
            v = getattr(o, n, UNSET) if o is not None else UNSET
            if not getattr(v, "__aspect__", None):
                v = getattr(v, "__func__", v)
            r.append(val(v))
        return r

    ai_box = [None]
    user_asts = []        # AST transformers the harness registered on the user's behalf

    def snapshot():
        ai = ai_box[0]
        slots = [val(c.get(n, UNSET)) for c, n in containers()]
        def own(x):      # created by pyflyby
            return (getattr(x, "__module__", "") or "").startswith("pyflyby") or type(x).__module__.startswith("pyflyby")
        asts = list(H.ip.ast_transformers) if H.ip is not None else []
        cls_ = list(H.ip.input_transformers_cleanup) if H.ip is not None else []
        d = {"slots": slots, "eff": effective(), "has_shell": H.ip is not None,
             "ast": [tok(x) for x in asts], "cleanup": [tok(x) for x in cls_],
             "ast_own": [own(x) for x in asts], "cleanup_own": [own(x) for x in cls_],
             "ast_user": [any(x is u for u in user_asts) for x in asts],
             "line": [],
             "loaded": H.ip is not None and "pyflyby" in H.ip.extension_manager.loaded,
             "attr": hasattr(H.ip, "_auto_importer"),
             "dynimp_finder": sum(1 for f in sys.meta_path if (getattr(f, "__module__", None) or type(f).__module__ or "").startswith("pyflyby"))}
        if ai is not None:
            dis = []
            for f in ai._disablers[::-1]:
                asp = getattr(f, "__self__", None)
                if asp is not None and type(asp).__name__ == "Aspect":
                    from pyflyby._util import _UNSET as PF_UNSET
                    names = [n for _, n in containers()]
                    j = names.index(asp._name) if asp._name in names else None
                    dis.append(["unadvise", j, val(asp._wrapped if asp._wrapped is not None else UNSET),
                                val(UNSET if asp._previous is PF_UNSET else asp._previous)])
                else:
                    name = getattr(f, "__name__", "?")
                    cells = [c.cell_contents for c in (f.__closure__ or ())]
                    if name == "unregister_ast_transformer":
                        t = [c for c in cells if type(c).__name__ == "_AutoImporter_ast_transformer"]
                        dis.append(["remove", "ast", tok(t[0]) if t else -1])
                    elif name == "unregister_reset_hook":
                        t = [c for c in cells if callable(c) and getattr(c, "__name__", "") == "reset_auto_importer_state"]
                        dis.append(["remove", "cleanup", tok(t[0]) if t else -1])
                    else:
                        dis.append(["other", name, -1])
            from pyflyby._log import logger as _lg
            h = [x for x in _lg.handlers if type(x).__name__ == "_PyflybyHandler"]
            d.update(st=str(ai._state), errored=bool(ai._errored), disablers=dis,
                     ast_tr=(None if ai._ast_transformer is None else tok(ai._ast_transformer)),
                     attempted=sorted([str(k), bool(v)] for k, v in ai._autoimported_this_cell.items()),
                     registered=(sorted(str(i.import_as) for i in ai.db.known_imports.imports) if getattr(ai, "db", None) is not None else []),
                     log_pre=bool(h and h[0]._pre_log_function is not None),
                     log_dirty=bool(h and h[0]._logged_anything_during_context))
        return d

    # ------------------------------------------------------------------ environment probe
    def probe():
        e = {}
        e["reset"] = ("RPost" if hasattr(H.ip, "input_transformers_post") else
                      "RManager" if hasattr(H.ip, "input_transformer_manager") else
                      "RSplitter" if hasattr(H.ip, "input_splitter") else "RNone")
        e["ofind"] = hasattr(H.ip, "_ofind")
        e["ast"] = ("AstTransformers" if hasattr(H.ip, "ast_transformers") else
                    "AstRunNodes" if hasattr(H.ip, "run_ast_nodes") else
                    "AstCompile" if hasattr(H.ip, "compile") else "AstNone")
        e["magics"] = hasattr(H.ip, "magics_manager")
        e["profiler"] = hasattr(H.execmgr, "_run_with_profiler")
        e["compl"] = ("ComplGlobal" if hasattr(H.completer, "global_matches") else
                      "ComplZMQ" if hasattr(H.completer, "complete_request") else "ComplNone")
        e["jedi"] = bool(getattr(H.completer, "use_jedi", False))
        if not hasattr(H.completer, "python_matches"):
            e["pm"] = "PmMissing"
        else:
            e["pm"] = "PmListed" if H.completer.python_matches in H.completer.matchers else "PmUnlisted"
        e["execfile"] = hasattr(H.ip, "safe_execfile")
        e["tb_debugger"] = hasattr(H.iptb, "debugger")
        e["rwd"] = hasattr(H.execmgr, "_run_with_debugger")
        # the assumptions of the model about the application (initialised terminal app)
        e["app_ok"] = (app.shell is not None and getattr(app, "kernel_manager", None) is None
                       and getattr(app, "kernel_manager_class", None) is None
                       and not hasattr(H.ip, "post_config_initialization") and getattr(app, "subapp", None) is None)
        e["init_subcmd"] = hasattr(app, "initialize_subcommand")
        e["stdout_proxy"] = None
        e["prompts_class"] = hasattr(H.ip, "prompts_class")
        e["pt_cli"] = hasattr(H.ip, "pt_cli")
        e["readline"] = hasattr(H.ip, "readline")
        return e

    out["env"] = probe() if not preshell else {}
    n_plain = len(seen)

    auto_imported = []
    env_pf = {}
    if with_pf:
        import pyflyby
        import pyflyby._modules as M
        import pyflyby._interactive as I
        import pyflyby._autoimp as A
        import pyflyby._importdb as D
        import pyflyby._parse as P
        from pyflyby._log import logger
        env_pf["level"] = {"DEBUG": 10, "INFO": 20, "WARNING": 30, "ERROR": 40}.get(
            os.environ.get("PYFLYBY_LOG_LEVEL", "INFO").upper(), 20)
        try:
            I._get_IPdb_class()
            env_pf["ipdb"] = True
        except Exception:
            env_pf["ipdb"] = False
        out["env"].update(env_pf)
        pfdir = os.path.dirname(os.path.abspath(pyflyby.__file__))
        ai_box[0] = I.AutoImporter(app)

        # -------------------------------------------------------------- fault stubs
        armed = {}
        hits = {}

        calls = {}           # calls of each stubbed function during the interaction
        fired_in = {}        # where the stub was when it first raised

        def bomb(site, orig):
            def stub(*a, **k):
                if site in armed:
                    calls[site] = calls.get(site, 0) + 1
                    if calls[site] >= armed_k.get(site, 1):
                        hits[site] = hits.get(site, 0) + 1
                        if site not in fired_in:
                            f, names = sys._getframe(1), []
                            while f is not None and len(names) < 60:
                                names.append(f.f_code.co_name)
                                f = f.f_back
                            fired_in[site] = ("analysis" if "find_missing_imports" in names
                                              else "symbol" if "auto_import_symbol" in names else "other")
                        raise make_exc(armed[site], site)
                return orig(*a, **k)
            stub.__name__ = getattr(orig, "__name__", "stub")
            return stub

        I.get_global_namespaces = bomb("SNamespaces", I.get_global_namespaces)
        A.ScopeStack.__init__ = bomb("SScopeStack", A.ScopeStack.__init__)
        _real_fmi = A.find_missing_imports

        def find_missing_imports(*a, **k):      # keeps its name: the k-th-call stub looks for it on the stack
            return _real_fmi(*a, **k)
        A.find_missing_imports = bomb("SAnalysis", find_missing_imports)
        A.symbol_needs_import = bomb("SNeedsImport", A.symbol_needs_import)
        _orig_ast_node = P.PythonBlock.__dict__["ast_node"]

        class _AstNodeProxy(object):
            def __get__(self, obj, cls):
                if obj is not None and "SParse" in armed:
                    hits["SParse"] = hits.get("SParse", 0) + 1
                    raise make_exc(armed["SParse"], "SParse")
                return _orig_ast_node.__get__(obj, cls)
        P.PythonBlock.ast_node = _AstNodeProxy()
        D.ImportDB.get_default = classmethod(bomb("SDbLoad", D.ImportDB.get_default.__func__))
        _stub_try = bomb("STryImport", A._try_import)

        def _recording_try_import(imp, namespace):
            ok = _stub_try(imp, namespace)
            if ok:
                auto_imported.append(str(imp).strip())
            return ok
        A._try_import = _recording_try_import
        I.complete_symbol = bomb("SCompletion", I.complete_symbol)
    else:
        pfdir = None
        armed, hits, calls, fired_in = {}, {}, {}, {}
    armed_k = {}

    out["n_plain"] = n_plain
    out["trace"].append({"snap": snapshot()})

    # ------------------------------------------------------------------ operations
    def do_op(name):
        if name == "Enable":
            pyflyby.enable_auto_importer()
        elif name == "EnableAgain":
            pyflyby.enable_auto_importer()
            pyflyby.enable_auto_importer()
        elif name == "Disable":
            pyflyby.disable_auto_importer()
        elif name == "LoadExt":
            H.ip.extension_manager.load_extension("pyflyby")
        elif name == "UnloadExt":
            H.ip.extension_manager.unload_extension("pyflyby")
        elif name == "ReloadExt":
            H.ip.extension_manager.reload_extension("pyflyby")
        elif name == "LoadFn":
            pyflyby.load_ipython_extension(H.ip)
        elif name == "UnloadFn":
            pyflyby.unload_ipython_extension(H.ip)
        elif name == "AddImport":
            from pyflyby._dynimp import add_import
            add_import("zz_reg", "zz_reg = 41")
        else:
            raise ValueError(name)

    def ns_names():
        return sorted(k for k in H.ip.user_ns if not k.startswith("_") and k not in
                      ("In", "Out", "get_ipython", "exit", "quit", "open"))

    pf_calls = [0]
    dyn_calls = [0]
    pf_names = []

    def prof(frame, event, arg):
        # the sys.meta_path finder that load_ipython_extension installs (inject_dynamic_import) stays after
        # unload; it is not one of the IPython hooks of the property and is counted separately
        if event == "call" and pfdir and frame.f_code.co_filename.startswith(pfdir):
            if frame.f_code.co_filename.endswith("_dynimp.py"):
                dyn_calls[0] += 1
                return
            pf_calls[0] += 1
            if len(pf_names) < 6:
                pf_names.append("%s:%s" % (os.path.basename(frame.f_code.co_filename), frame.f_code.co_name))

    def gsnap():
        """process-global state an interaction must leave as a pyflyby-free shell leaves it"""
        import logging
        return {"sys.path": [p.replace(scratch, "<SCRATCH>") for p in sys.path],
                "sys.meta_path": [type(f).__name__ if not isinstance(f, type) else f.__name__ for f in sys.meta_path],
                "sys.path_hooks": len(sys.path_hooks),
                "cwd": os.getcwd().replace(scratch, "<SCRATCH>"),
                "environ": sorted("%s=%s" % kv for kv in os.environ.items()),
                "builtins": sorted(k for k in vars(builtins) if k != "_"),
                "logging": [type(h).__name__ for h in logging.getLogger().handlers]
                           + ["pyflyby:" + type(h).__name__ for h in logging.getLogger("pyflyby").handlers]}

    def gdelta(a, b):
        d = {}
        for k in a:
            if a[k] != b[k]:
                if isinstance(a[k], list):
                    d[k] = {"removed": [x for x in a[k] if x not in b[k]], "added": [x for x in b[k] if x not in a[k]],
                            "reordered": sorted(a[k]) == sorted(b[k])}
                else:
                    d[k] = [a[k], b[k]]
        return d

    def do_cell(op):
        act, text = op["act"], op["text"]
        r = {"act": act}
        if act == "runfile":
            # natural triggers: the script itself makes pyflyby's own read / parse of it fail
            script = op.get("script", "default")
            runpath = os.path.join(scratch, "runme.py")
            if script == "dir":
                runpath = os.path.join(scratch, "adir.py")
                os.makedirs(runpath, exist_ok=True)
            elif script != "default":
                runpath = os.path.join(scratch, "run_%s.py" % script)
                with open(runpath, "wb") as f:
                    f.write(SCRIPTS[script])
            if with_pf:
                # what pyflyby's own read / parse of this script does (unarmed): an oracle argument of the model
                stage = "construct"
                try:
                    blk = P.PythonBlock(P.Filename(runpath))
                    stage = "ast_node"
                    blk.ast_node
                    r["natural_parse"] = None
                except BaseException as e:
                    r["natural_parse"] = [type(e).__name__, stage]
        before = set(ns_names())
        g_before = gsnap()
        buf = io.StringIO()
        pf_calls[0] = 0
        del auto_imported[:]
        dyn_calls[0] = 0
        del pf_names[:]
        armed.clear()
        if with_pf:
            # what loading the import database does right now (unarmed): an oracle argument of the model - a
            # broken database file (operation BreakDb) raises here unless an earlier load is still cached; a
            # successful probe also warms the cache, so that a cold load (which parses the database files with
            # PythonBlock) does not put the SParse stub on the database-load path
            try:
                D.ImportDB.get_default(".")
                r["natural_db"] = None
            except BaseException as e:
                r["natural_db"] = type(e).__name__
        armed.update({f[0]: f[1] for f in op.get("faults", [])})
        armed_k.clear()
        armed_k.update({f[0]: f[2] for f in op.get("faults", []) if len(f) > 2})
        hits.clear()
        calls.clear()
        fired_in.clear()
        sys.setprofile(prof)
        try:
            with stdio_variant(buf, case.get("stdio")):
                if out["env"]["stdout_proxy"] is None:
                    out["env"]["stdout_proxy"] = type(sys.stdout).__module__.startswith("prompt_toolkit.")
                if act in ("run", "runfile", "prun", "debugstmt"):
                    if act == "runfile":
                        text = "%run -i " + runpath
                    res = H.ip.run_cell(text, store_history=False)
                    err = res.error_in_exec or res.error_before_exec
                    r["result"] = repr(res.result)
                    r["error"] = type(err).__name__ if err is not None else None
                    r["error_injected"] = err is not None and "injected at " in safe_str(err)
                elif act == "inspect":
                    info = H.ip._ofind(text)
                    r["result"] = bool(info.found if hasattr(info, "found") else info["found"])
                    g = (lambda k: getattr(info, k, None)) if hasattr(info, "found") else info.get
                    obj = g("obj")
                    r["inspect"] = {"namespace": g("namespace"), "ismagic": bool(g("ismagic")), "isalias": bool(g("isalias")),
                                    "type": type(obj).__name__,
                                    "repr": (repr(obj)[:80] if isinstance(obj, (int, str, float, tuple, type(None))) or
                                             type(obj).__name__ in ("builtin_function_or_method", "module", "type") else type(obj).__name__),
                                    "is_builtin": obj is getattr(builtins, text, UNSET)}
                elif act == "cglobal":
                    r["matches"] = sorted(H.ip.Completer.global_matches(text))
                elif act == "cattr":
                    r["matches"] = sorted(H.ip.Completer.attr_matches(text))
                else:
                    raise ValueError(act)
        except BaseException as e:
            r["escaped"] = type(e).__name__
            r["escaped_msg"] = safe_str(e, 120)
        finally:
            sys.setprofile(None)
            armed.clear()
        r["pf_calls"] = pf_calls[0]
        r["dynimp_calls"] = dyn_calls[0]
        r["pf_first"] = list(pf_names)
        r["hits"] = dict(hits)
        r["fired_in"] = dict(fired_in)
        r["globals_delta"] = gdelta(g_before, gsnap())
        r["stdout"] = buf.getvalue().replace(scratch, "<SCRATCH>")
        r["auto_imported"] = list(auto_imported)
        r["ns_added"] = sorted(set(ns_names()) - before)
        r["ns_removed"] = sorted(before - set(ns_names()))
        return r

    ref_modules = {}
    for idx, op in enumerate(case["ops"]):
        ent = {}
        if op["op"] == "cell":
            if not with_pf and ref_modules:
                sys.modules.update(ref_modules)
            for stmt in case.get("pre_imports", {}).get(str(idx), []):
                exec(stmt, H.ip.user_ns)
            ent["cell"] = do_cell(op)
        elif op["op"] == "UserAst":
            # the user registers an AST transformer of their own (IPython's public ip.ast_transformers): placed before
            # or after pyflyby's according to where the operation stands in the sequence
            import ast as _ast

            class ZzUserTransformer(_ast.NodeTransformer):
                def __init__(self, how):
                    self.how = how

                def visit_Constant(self, node):
                    if type(node.value) is int:
                        return _ast.copy_location(_ast.Constant(-node.value if self.how == "negate" else node.value + 100), node)
                    return node
            t = ZzUserTransformer(op.get("how", "negate"))
            user_asts.append(t)
            H.ip.ast_transformers.append(t)
        elif op["op"] in ("BreakDb", "RepairDb"):
            # the user's database file becomes unparsable / is repaired; pyflyby keeps a loaded database cached
            # until %load_ext / %reload_ext clear the cache
            with open(os.path.join(scratch, "db.py"), "w") as f:
                f.write(DB_BROKEN if op["op"] == "BreakDb" else DB_TEXT)
        elif op["op"] == "Initialize":
            # [IPython] app.initialize() -> init_shell(): the shell comes to exist (ipython_config.py / `py` order)
            try:
                if H.ip is None:
                    app.initialize(argv=argv)
                    bind_shell()
                    out["env"] = probe()
                    out["env"].update(env_pf)
            except BaseException as e:
                ent["escaped"] = type(e).__name__
                ent["escaped_msg"] = safe_str(e, 200)
        elif with_pf:
            try:
                do_op(op["op"])
            except BaseException as e:
                ent["escaped"] = type(e).__name__
                ent["escaped_msg"] = safe_str(e, 200)
        elif op["op"] == "AddImport":
            # the pyflyby-free shell gets the registered module as an ordinary one
            import types
            m = types.ModuleType("pyflyby_autoimport_zz_reg")
            m.zz_reg = 41
            ref_modules["pyflyby_autoimport_zz_reg"] = m
        ent["snap"] = snapshot()
        out["trace"].append(ent)
    try:
        with open(os.path.join(scratch, "fd.log")) as f:
            out["fdlog_tail"] = f.read()[-1500:]
    except Exception:
        pass
    return out


if __name__ == "__main__":
    main()

"""C17 generators: programs that raise for real (call stacks with recursion, repeated files and
functions, methods, closures, chained exceptions), frame selectors (as an AST + its rendering),
include / exclude filters, unpicklable subsets, umasks, reader queries."""
from . import common as cm

NAMES = ["a", "b", "c", "secret", "_u", "__dd", "é", "x1", "data"]
# names at the edges of "valid identifier": soft keywords (valid names), private / dunder-shaped names,
# non-ASCII identifiers (combining marks; a ligature that the compiler NFKC-normalises to 'fi'), digits
EDGE_NAMES = ["type", "match", "case", "_", "_private", "__dunder__", "\u0928\u093e\u092e", "\ufb01", "fi", "a2b", "\u00e9t\u00e9", "x\u0301"]
# not valid variable names: hard keywords, non-identifiers, the empty string, blanks
INVALID_NAMES = ["1bad", "class", "a b", "", "a-b", " a", "b ", "9", "for", "None", "True", "lambda", "await", "a.b", "\u00b2", "x!"]
PICKLABLE_KINDS = ["int", "str", "list", "dict", "tuple", "box", "none", "float", "bytes", "nested"]
UNPICKLABLE_KINDS = ["lambda", "gen", "lock", "badreduce", "badreduce_t", "localcls"]
# size extremes: large values (pickle framing flushes every 64 KiB), deep nesting, values with shared sub-objects
# (memo references), large unpicklable values whose failure comes late (after several flushed frames)
BIG_PICKLABLE_KINDS = ["biglist", "bigstr", "bigbytes", "deep", "shared", "shared", "bigdict"]
BIG_UNPICKLABLE_KINDS = ["bigunp", "bigunp_dict", "bigunp_str", "toodeep"]
MODULES = [("m0", "m0.py"), ("m1", "m1.py"), ("pkg.m0", "pkg/m0.py"), ("pkg.m1", "pkg/m1.py"),
           ("pkg.sub.m0", "pkg/sub/m0.py"), ("pkg.sub.util", "pkg/sub/util.py")]
UMASKS = [0o022, 0o077, 0o000, 0o027, 0o177, 0o777, 0o002]
PRE_MODES = [0o600, 0o666, 0o640, 0o755, 0o444, 0o604]
EXC_CLASSES = ["ValueError", "KeyError", "RuntimeError", "ZeroDivisionError", "LookupError"]
FRAME_FIELDS = ["frame_index", "filename", "lineno", "function_name", "function_qualname",
                "module_name", "code", "frame_identifier"]
EXC_FIELDS = ["exception_string", "exception_full_string", "exception_class_name", "exception_class_qualname"]
OPAQUE_FIELDS = ["function_object", "exception_object", "traceback"]


class Prog:
    """Emits the source files of one generated program and remembers what it emitted
    (function names, qualified names, lines of call / raise sites) for the selector generator."""

    def __init__(self, r, unp_rate):
        self.r = r
        self.unp_rate = unp_rate
        self.src = {}          # module name -> list of lines
        self.values = []       # value specs; index = position in V
        self.funcs = []        # (module, func name, qualname)
        self.lines = []        # (module, line number) of call and raise sites
        self.nstep = 0
        self.used = []

    # -- values and locals
    def value(self, force_kind=None):
        r = self.r
        if force_kind:
            k = force_kind
        elif r.random() < .03:
            k = r.choice(BIG_PICKLABLE_KINDS + BIG_UNPICKLABLE_KINDS)
        elif r.random() < self.unp_rate:
            k = r.choice(UNPICKLABLE_KINDS)
        else:
            k = r.choice(PICKLABLE_KINDS)
        self.values.append(k)
        return len(self.values) - 1

    def locals_block(self, lo=0, hi=4):
        r = self.r
        names = r.sample(NAMES, r.randint(lo, hi))
        if hi and r.random() < .35:
            names += r.sample(EDGE_NAMES, r.randint(1, 2))
        block = [(n, self.value()) for n in names]
        k = r.random()
        if hi and k < .05:
            # a large unpicklable value, then (in f_locals order) values with shared sub-objects / a value shared
            # with another variable of the same frame
            u = self.value(r.choice(BIG_UNPICKLABLE_KINDS))
            sh = self.value("shared")
            block += [("big_u", u), ("after_u", sh), ("after_v", self.value(r.choice(["dict", "shared", "str", "biglist"]))), ("alias_u", sh)]
            if r.random() < .5:
                block.append(("big_w", self.value(r.choice(BIG_UNPICKLABLE_KINDS))))
                block.append(("after_w", self.value("shared")))
        elif hi and k < .07:
            # hundreds of locals in one frame, a few values shared by all of them
            pool = [self.value() for _ in range(r.randint(2, 6))] + [self.value("shared")]
            block += [("q%d" % j, r.choice(pool)) for j in range(r.randint(120, 320))]
        elif block and k < .17:
            # the same object bound to two names
            block.append(("alias", r.choice(block)[1]))
        return block

    # -- source emission
    def mod(self, name):
        if name not in self.src:
            self.src[name] = ["V = None"]
            self.used.append(name)
        return self.src[name]

    def emit(self, m, line):
        L = self.mod(m)
        L.append(line)
        return len(L)          # 1-based line number of the emitted line

    def call_expr(self, frm, target):
        """expression calling `target` = (module, callable expression) from module frm"""
        tm, expr = target
        if tm == frm:
            return expr
        L = self.mod(frm)
        imp = "import " + tm
        if imp not in L:
            L.insert(1, imp)
            # lines already recorded for this module move down by one
            self.lines = [(mm, ln + 1 if mm == frm and ln >= 2 else ln) for mm, ln in self.lines]
        return tm + "." + expr

    def assigns(self, m, ind, block):
        for n, v in block:
            self.emit(m, "%s%s = V[%d]" % (ind, n, v))

    def build_chain(self, depth, chain_budget):
        """returns (module, call expression) of the first step of a chain of about `depth` frames
        ending in a raise; steps are emitted last-first so that a step can name its successor"""
        r = self.r
        kinds = []
        left = depth
        while left > 0:
            k = r.choice(["func", "func", "method", "closure", "rec", "tramp", "func"])
            cost = {"closure": 2, "rec": 2, "tramp": 2}.get(k, 1)
            if cost > left:
                k, cost = "func", 1
            kinds.append(k)
            left -= cost
        nxt = None           # (module, expr) of the successor, None for the terminal
        for pos in range(len(kinds) - 1, -1, -1):
            kind = kinds[pos]
            m = r.choice(MODULES)[0] if r.random() < .6 or not self.used else r.choice(self.used)
            sid = self.nstep
            self.nstep += 1
            catch = None
            if chain_budget[0] > 0 and nxt is not None and r.random() < .35:
                chain_budget[0] -= 1
                catch = r.choice(["from", "plain", "fromnone", "handler", "from", "fromfresh"])
            nxt = self.step(m, kind, sid, nxt, catch, chain_budget)
        return nxt

    def terminal(self, m, ind):
        r = self.r
        cls = r.choice(EXC_CLASSES)
        ln = self.emit(m, "%sraise %s(%r)" % (ind, cls, "boom%d" % r.randint(0, 99)))
        self.lines.append((m, ln))

    def body(self, m, ind, sid, nxt, catch, chain_budget):
        """the part of a step after its locals: call the successor (or raise), maybe inside try/except"""
        r = self.r
        if nxt is None:
            self.terminal(m, ind)
            return
        if catch is None:
            ln = self.emit(m, "%sreturn %s" % (ind, self.call_expr(m, nxt) + "()"))
            self.lines.append((m, ln))
            return
        self.emit(m, ind + "try:")
        ln = self.emit(m, "%s    return %s" % (ind, self.call_expr(m, nxt) + "()"))
        self.lines.append((m, ln))
        self.emit(m, ind + "except Exception as e:")
        self.assigns(m, ind + "    ", self.locals_block(0, 2))
        cls = r.choice(EXC_CLASSES)
        if catch == "from":
            ln = self.emit(m, "%s    raise %s('chained%d') from e" % (ind, cls, sid))
        elif catch == "plain":
            ln = self.emit(m, "%s    raise %s('context%d')" % (ind, cls, sid))
        elif catch == "fromfresh":
            # __cause__ (an exception that was never raised: no frames) differs from __context__
            ln = self.emit(m, "%s    raise %s('fromfresh%d') from ValueError('fresh')" % (ind, cls, sid))
        elif catch == "fromnone":
            ln = self.emit(m, "%s    raise %s('suppressed%d') from None" % (ind, cls, sid))
        else:
            # the handler calls another chain that raises (implicit __context__)
            ln = self.emit(m, "%s    return HANDLER_%d()" % (ind, sid))
            self.pending_handler = (m, sid, ln)
        self.lines.append((m, ln))

    def step(self, m, kind, sid, nxt, catch, chain_budget):
        r = self.r
        name = "s%d" % sid
        self.pending_handler = None
        if kind == "func":
            self.emit(m, "def %s():" % name)
            self.assigns(m, "    ", self.locals_block())
            self.body(m, "    ", sid, nxt, catch, chain_budget)
            self.funcs.append((m, name, name))
            res = (m, name)
        elif kind == "method":
            cls = "K%d" % sid
            meth = r.choice(["run", "run", name])
            self.emit(m, "class %s:" % cls)
            self.emit(m, "    def __eq__(self, other): return type(other) is type(self)")
            self.emit(m, "    def %s(self):" % meth)
            self.assigns(m, "        ", self.locals_block())
            self.body(m, "        ", sid, nxt, catch, chain_budget)
            self.funcs.append((m, meth, cls + "." + meth))
            res = (m, "%s().%s" % (cls, meth))
        elif kind == "closure":
            self.emit(m, "def %s():" % name)
            self.assigns(m, "    ", self.locals_block(0, 2))
            self.emit(m, "    def inner():")
            self.assigns(m, "        ", self.locals_block(0, 3))
            self.body(m, "        ", sid, nxt, catch, chain_budget)
            ln = self.emit(m, "    return inner()")
            self.lines.append((m, ln))
            self.funcs.append((m, name, name))
            self.funcs.append((m, "inner", name + ".<locals>.inner"))
            res = (m, name)
        elif kind == "rec":
            n = r.randint(1, 3)
            self.emit(m, "def %s(n=%d):" % (name, n))
            self.assigns(m, "    ", self.locals_block(0, 3))
            self.emit(m, "    if n > 0:")
            ln = self.emit(m, "        return %s(n - 1)" % name)
            self.lines.append((m, ln))
            self.body(m, "    ", sid, nxt, catch, chain_budget)
            self.funcs.append((m, name, name))
            res = (m, name)
        else:   # tramp: a shared trampoline function in pkg.sub.util, same function and line every time
            u = "pkg.sub.util"
            if "def tramp(k):" not in self.mod(u):
                self.emit(u, "def tramp(k):")
                self.emit(u, "    t = V[%d]" % self.value("int"))
                ln = self.emit(u, "    return k()")
                self.lines.append((u, ln))
                self.funcs.append((u, "tramp", "tramp"))
            self.emit(m, "def %s_k():" % name)
            self.assigns(m, "    ", self.locals_block(0, 2))
            self.body(m, "    ", sid, nxt, catch, chain_budget)
            self.emit(m, "def %s():" % name)
            self.assigns(m, "    ", self.locals_block(0, 3))
            ln = self.emit(m, "    return %s(%s_k)" % (self.call_expr(m, (u, "tramp")), name))
            self.lines.append((m, ln))
            self.funcs += [(m, name, name), (m, name + "_k", name + "_k")]
            res = (m, name)
        if self.pending_handler:
            hm, hsid, _ = self.pending_handler
            self.pending_handler = None
            sub = self.build_chain(r.randint(1, 3), chain_budget)
            L = self.mod(hm)
            expr = self.call_expr(hm, sub)
            for i, line in enumerate(L):
                if "HANDLER_%d()" % hsid in line:
                    L[i] = line.replace("HANDLER_%d" % hsid, expr)
        return res


def gen_program(r, depth=None, chains=None, unp_rate=.25):
    depth = depth or r.choice([1, 2, 2, 3, 3, 4, 4, 5, 6, 7, 8])
    chains = r.choice([0, 0, 0, 1, 1, 2, 3]) if chains is None else chains
    p = Prog(r, unp_rate)
    first = p.build_chain(depth, [chains])
    files = {}
    for m, lines in p.src.items():
        files[dict(MODULES)[m]] = "\n".join(lines) + "\n"
    for rel in list(files):
        parts = rel.split("/")[:-1]
        for k in range(1, len(parts) + 1):
            files.setdefault("/".join(parts[:k]) + "/__init__.py", "")
    entry = {"kind": "call", "module": first[0], "expr": first[1]}
    if r.random() < .3:
        # a script executed at top level (a <module> frame whose locals are the script's globals)
        body = ["import %s" % first[0], "V = %s.V" % first[0], "g1 = V[%d]" % p.value(), "__hidden = V[%d]" % p.value("int"),
                "def helper():", "    return 1", "%s.%s()" % first]
        files["script.py"] = "\n".join(body) + "\n"
        p.lines.append(("script", len(body)))
        p.funcs.append(("script", "<module>", "<module>"))
        entry = {"kind": "exec", "path": "script.py"}
    modules = [m for m in p.used]
    hints = {"funcs": [[dict(MODULES).get(m, "script.py"), f, q] for m, f, q in p.funcs],
             "lines": [[dict(MODULES).get(m, "script.py"), ln] for m, ln in p.lines]}
    return {"files": files, "modules": modules, "values": p.values, "entry": entry}, hints


# ---------------------------------------------------------------------------------------------
# selectors

def gen_pat(r, hints):
    """pattern AST {re, line, func}; the file regex never contains ':' ',' '..' or outer blanks"""
    f = r.choice(hints["funcs"]) if hints["funcs"] else ["m0.py", "s0", "s0"]
    rel = f[0]
    base = rel.split("/")[-1]
    k = r.random()
    if k < .3:
        rx = base
    elif k < .45:
        rx = rel.replace(".", r"\.")
    elif k < .55:
        rx = "{TMP}/" + rel
    elif k < .65:
        rx = r.choice([".*", "pkg", "sub/", r"m[01]\.py$", "^/", "m0", r"pkg/(m0|m1)\.py", "script", "c17_impl", "zz_nothing"])
    elif k < .8:
        rx = r.choice(["m0.py", "m1.py", "util.py", "pkg/m0.py", "sub/m0.py", "c17_impl.py"])
    else:
        rx = base.replace(".py", "")
    line = None
    k = r.random()
    if k < .25 and hints["lines"]:
        cands = [ln for rl, ln in hints["lines"] if rl == rel] or [ln for _, ln in hints["lines"]]
        line = r.choice(cands)
    elif k < .3:
        line = r.randint(1, 12)
    func = ""
    k = r.random()
    if k < .3:
        func = r.choice([f[1], f[2]])
    elif k < .4 and hints["funcs"]:
        g = r.choice(hints["funcs"])
        func = r.choice([g[1], g[2]])
    elif k < .45:
        func = r.choice(["run", "inner", "tramp", "<module>", "nope", "_invoke"])
    return {"re": rx, "line": line, "func": func}


def render_pat(p):
    return "%s:%s:%s" % (p["re"], "" if p["line"] is None else p["line"], p["func"])


def gen_selector(r, hints, script=False):
    """returns (ast, argument); in script mode the argument is always a str"""
    k = r.random()
    if k < .1:
        return {"kind": "none"}, None
    if k < .25:
        n = r.choice([1, 1, 2, 3, 4, 5, 8, 20, 50])
        return {"kind": "num", "n": n}, ((r.choice(["", "", " "]) + str(n) + r.choice(["", "", " "])) if script or r.random() < .3 else n)
    if k < .45:
        p = gen_pat(r, hints)
        arg = render_pat(p)
        if r.random() < (.4 if script else .1):
            arg = r.choice([" ", "  "]) + arg + r.choice([" ", ""])
        if not script and r.random() < .3:
            arg = [arg] if r.random() < .5 else {"tuple": [arg]}
        return {"kind": "list", "ps": [p]}, arg
    def pad(x):
        # blanks around a whole frame / around the separators are not part of it
        if r.random() < (.4 if script else .12):
            x = r.choice([" ", "  ", ""]) + x + r.choice([" ", "", "  "])
        return x
    if k < .62:
        ps = [gen_pat(r, hints) for _ in range(r.randint(2, 4))]
        args = [render_pat(p) for p in ps]
        if script:
            out = args[0]
            for a in args[1:]:
                out += r.choice([",", ",", ", ", " ,", " , "]) + a
            return {"kind": "list", "ps": ps}, pad(out)
        return {"kind": "list", "ps": ps}, args
    if k < .87:
        p, q = gen_pat(r, hints), gen_pat(r, hints)
        dd = r.choice(["..", "..", " .. ", ".. ", " .."]) if r.random() < (.4 if script else .12) else ".."
        arg = pad(render_pat(p) + dd + render_pat(q))
        if not script and r.random() < .15:
            arg = [arg]
        return {"kind": "range", "p": p, "q": q}, arg
    p = gen_pat(r, hints)
    return {"kind": "open", "p": p}, pad(render_pat(p) + r.choice(["..", "..", " .."]))


MALFORMED_SELECTORS = [
    "a.py", "a.py:1", ":1:f", "::", "m0.py::,m1.py::", "m0.py::..m1.py::..pkg::", "..m0.py::", "m0.py:x:", "m0.py:1.5:",
    "m0.py:0:", "m0.py:-3:", "m0.py: 7 :", " m0.py:: ", "m0.py :: s0", "m0.py::s0 ", "(::", "[a::", "*::", "m0.py::..", "m0.py::.. ",
    "m0.py::...", "m0.py::. .m1.py::", "m.\\.py::", "0", "-1", "-5", " 3 ", "1_0", "+2", "3.0", "", " ", ",", "..", "m0.py::..(::",
    "(::..m0.py::", "m0.py:1_0:", "m0.py:+3:", "m0.py::s0:", "pkg..m0::", ".*::", ".*::..", ".*::...*::", "m0.py:007:",
]


def gen_malformed_selector(r, hints, script=False):
    k = r.random()
    if k < .5:
        s = r.choice(MALFORMED_SELECTORS)
        if r.random() < .3:
            s = s.replace("m0.py", r.choice(["m1.py", "util.py", ".*", "pkg"]))
        return s
    if k < .6:
        return r.choice([0, -1, -3, 100, 2])
    if k < .75:
        l = [r.choice(MALFORMED_SELECTORS + [render_pat(gen_pat(r, hints))]) for _ in range(r.randint(0, 3))]
        return ",".join(l) if script else l
    # mutate a well-formed rendering
    _, arg = gen_selector(r, hints, script=True)
    s = arg if isinstance(arg, str) else "m0.py::"
    for _ in range(r.randint(1, 2)):
        pos = r.randint(0, len(s))
        op = r.random()
        ins = r.choice([":", ",", "..", ".", " ", "0", "(", "\t", "_"])
        if op < .6:
            s = s[:pos] + ins + s[pos:]
        elif s:
            pos = min(pos, len(s) - 1)
            s = s[:pos] + s[pos + 1:]
    return s


# ---------------------------------------------------------------------------------------------
# include / exclude filters

def gen_names(r, allow_invalid=True):
    n = r.choice([1, 1, 2, 2, 3, 4])
    out = []
    for _ in range(n):
        if allow_invalid and r.random() < .15:
            out.append(r.choice(INVALID_NAMES))
        elif r.random() < .3:
            out.append(r.choice(EDGE_NAMES))
        else:
            out.append(r.choice(NAMES + ["self", "n", "inner", "e", "V", "fn", "zz"]))
    return out


def gen_filter_arg(r, script):
    k = r.random()
    if k < .08:
        names = [r.choice(INVALID_NAMES) for _ in range(r.randint(1, 2))]     # only invalid names (F15)
    elif k < .11:
        names = []
    else:
        names = gen_names(r)
    if script:
        # the spellings a command line sees: blanks around commas and at the ends, repeated / trailing commas,
        # literal quote characters
        if not names:
            return r.choice(["", " ", ",", " , "])
        if r.random() < .1:
            names = names + [r.choice(['"a"', "'b'", '"secret'])]
        out = names[0]
        for n in names[1:]:
            out += r.choice([",", ",", ", ", " ,", " , ", ",  ", ",,", ", ,"]) + n
        if r.random() < .3:
            out = r.choice([" ", "  ", "\t"]) + out
        if r.random() < .3:
            out += r.choice([" ", ",", ", ", " ,"])
        return out
    if len(names) == 1 and r.random() < .5:
        return names[0]
    if r.random() < .08:
        return ",".join(names)                 # comma string through the function: ValueError
    if not names and r.random() < .5:
        return ""
    return names if r.random() < .8 else {"tuple": names}


def gen_filters(r, script=False):
    k = r.random()
    if k < .35:
        return None, None
    if k < .65:
        return gen_filter_arg(r, script), None
    if k < .93:
        return None, gen_filter_arg(r, script)
    return gen_filter_arg(r, script), gen_filter_arg(r, script)


# ---------------------------------------------------------------------------------------------
# reader queries

def gen_queries(r, nframes_hint):
    qs = [["variables"]]
    for _ in range(r.randint(3, 7)):
        k = r.random()
        idx = None if r.random() < .45 else r.choice([0, 1, 1, 2, 3, nframes_hint, nframes_hint + 1, -1, 5])
        if k < .3:
            qs.append(["vars", r.choice(NAMES + EDGE_NAMES + ["self", "n", "zz", "inner"]), idx])
        elif k < .6:
            names = [r.choice(NAMES + EDGE_NAMES + ["self", "n", "zz"]) for _ in range(r.randint(0, 3))]
            qs.append(["vars", names, idx])
        elif k < .9:
            qs.append(["meta", r.choice(FRAME_FIELDS + EXC_FIELDS + ["bogus"]), idx])
        else:
            qs.append(["meta", r.choice(OPAQUE_FIELDS), idx if idx in (None, 1) else None])
    return qs


# ---------------------------------------------------------------------------------------------

def gen_case(seed, i, stream=None):
    r = cm.rng(seed, "c17", i)
    if stream is None:
        k = i % 20
        stream = "malformed" if k in (3, 9, 15) else ("script" if k in (7, 13, 18) else ("debugger" if k == 12 else "main"))
    script = stream == "script"
    prog, hints = gen_program(r)
    c = {"i": i, "stream": stream, "prog": prog, "script": script, "hints": hints}
    if stream == "malformed":
        c["sel"] = {"ast": None, "arg": gen_malformed_selector(r, hints)}
    elif stream == "debugger":
        c["sel"] = {"ast": {"kind": "debugger"}, "arg": None}
        c["curframe"] = r.randint(0, 9)         # position (mod number of frames) of the debugger's current frame
    else:
        ast, arg = gen_selector(r, hints, script)
        c["sel"] = {"ast": ast, "arg": arg}
    c["variables"], c["exclude"] = gen_filters(r, script)
    c["umask"] = r.choice(UMASKS)
    c["pre"] = r.choice(PRE_MODES) if r.random() < .4 else None
    # what the pre-existing file holds: a short text, a long one, or a real earlier (larger) dump of every frame
    # without filters written by a first save to the same path (the second save must replace it completely)
    c["pre_kind"] = r.choice(["old", "junk_big", "prior_dump", "prior_dump"]) if c["pre"] is not None else None
    if script and c["pre_kind"] == "prior_dump":
        c["pre_kind"] = "junk_big"                 # the program runs inside bin/saveframe: no exception beforehand
    c["exc_unpicklable"] = r.random() < .02       # the exception object itself cannot be pickled (known finding N1)
    c["root"] = "src"
    if stream == "debugger" and r.random() < .35:
        # a directory name with regex metacharacters (known finding N2: the debugger default uses the path as a regex)
        c["root"] = r.choice(["s+rc", "s(r)c", "s[rc", "s*c", "src++"])
    c["queries"] = gen_queries(r, 3)
    if script:
        # '--opt=value' or '--opt value' per option
        c["argv_style"] = [r.choice(["eq", "eq", "sep"]) for _ in range(3)]
        # the exclude filter is the privacy-relevant one: make it as frequent as the include filter on the CLI
        if c["variables"] is not None and c["exclude"] is None and r.random() < .5:
            c["variables"], c["exclude"] = None, c["variables"]
    return c

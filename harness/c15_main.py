"""C15, front end: pyflyby._py._PyMain(argv).run() in-process with recording callees, against
PyArgs/Main.v (through Wire.run_main), and the end-to-end string-identity oracle."""
import atexit
import os
import re
import shutil
import sys
import tempfile

from . import common as cm

MODES = ["string", "eval", "auto"]

REC_MOD = '''import builtins, sys
def _rec(name, a, k):
    builtins._C15REC.append([name, list(a), list(k.items())])
def show(*a, **k):
    _rec("show", a, k)
def two(foo, foobar=("default", "foobar"), *rest, key=("default", "key")):
    _rec("two", (foo, foobar) + rest, {"key": key})
def kw(**k):
    _rec("kw", (), k)
def argv():
    builtins._C15REC.append(["argv", list(sys.argv), []])
VALUE = 42
'''
# objects for which `==` is useless: equal to anything / a comparison result without a truth value
EQ_MOD = '''class _NoTruth:
    def __bool__(self):
        raise ValueError("The truth value of this object is ambiguous")
    def __repr__(self):
        return "<notruth>"
class ArrayLike:
    """numpy-array style: == gives an object that has no truth value"""
    def __init__(self, n):
        self.n = n
    def __eq__(self, other):
        return _NoTruth()
    def __ne__(self, other):
        return _NoTruth()
    __hash__ = None
    def __repr__(self):
        return "arraylike(%d)" % self.n
def arange(n):
    return ArrayLike(n)
class _Anything:
    def __eq__(self, other):
        return True
    def __ne__(self, other):
        return False
    def __repr__(self):
        return "<anything>"
ANYTHING = _Anything()
W = ArrayLike(3)
'''
MAIN_MOD = '''import builtins, sys
builtins._C15REC.append(["argv", list(sys.argv), []])
'''

# ---------------------------------------------------------------------------------------------
# generator

FUNCS = ["c15rec.show", "c15rec.show", "c15rec.show", "c15rec.two", "c15rec.kw", "print", "c15rec.VALUE",
         "c15rec.nosuch", "zzzq", "len", "str.upper", "c15rec . show", "(c15rec.show)"]
GLOBALS = [[], [], [], ["--safe"], ["--safe"], ["--args=string"], ["--args", "string"], ["--args=auto"], ["--args=eval"],
           ["--args= Str "], ["-args=s"], ["--arg_mode=literal"], ["--safe", "-q"], ["-q", "--args=string"], ["--output=silent"],
           ["--repr", "--safe"], ["--args=auto", "--safe"], ["--safe", "--args=auto"], ["--args=bogus"], ["--args"],
           ["--np", "--safe"], ["--postmortem=no"], ["--safe=1"], ["--arguments=strings"]]
ARGS = ["unittest.mock.ANY", "c15eq.W", "c15eq.arange(3)", "c15eq.ANYTHING", "(1+2)", "[1,2]", "(1,2)", "1", "+", "2", "'x'", "abc", "a b", "", " ", "-x", "--k=v", "--key=1", "--", ".upper()",
        "if", "1/0", "sys", "(", ")", "== 1", "é", "v_=1", "[0]", "()", "(3)", ", 4", "-", "-5", "- 5", "?", "--foo", "1+2",
        "os.sep", "{'a': 1}", "and 1", "is None", "('a b')", "--key", "-k", "x"]


JOINABLE = ["(1+2)", "[1,2]", "(1,2)", "()", "(3)", "[0]", ".upper()", "('a b')", "+", "1", "== 1", "(", ")", ", 4", "is None",
            "(1/0)", "('x', 'y')", "abc", "(sys)", ".__name__", "(key=1)", "(*[1, 2])", "--", "--", "-1", "- 1", "-x"]


def gen_main_case(r, i):
    g = list(r.choice(GLOBALS))
    fn = r.choice(FUNCS)
    args = [r.choice(ARGS) for _ in range(r.choice([0, 1, 1, 1, 2, 2, 3]))]
    k = r.random()
    stdin = ""
    if r.random() < .35:
        # the forms the join heuristic is about: a recording function and arguments that, joined after
        # the function name, may form one expression
        g = list(r.choice([[], [], ["--safe"], ["--args=string"], ["--args", "string"], ["--args=auto"], ["-q"]]))
        fn = r.choice(["c15rec.show", "c15rec.show", "print", "c15rec.two", "c15rec.VALUE", "c15rec"])
        args = [r.choice(JOINABLE) for _ in range(r.choice([1, 1, 2, 3]))]
        if r.random() < .25:
            args = args[:1] + ["--"] + [r.choice(["1", "(1+2)", "[0]", "1+2", "abc", "-x"]) for _ in range(r.choice([1, 2]))]
        k = r.random() * .5
    if k < .45:
        body = [fn] + args
    elif k < .60:
        body = r.choice([["--apply", fn], ["--apply=" + fn], ["-call", fn], ["apply", fn], ["%apply", fn], ["--call=" + fn]]) + args
    elif k < .66:
        body = r.choice([["--map", fn], ["-map=" + fn], ["--map", fn, "--"], ["--map", "c15rec.show", "--"]]) + args
    elif k < .76:
        body = r.choice([["-c", "c15rec.argv()"], ["--eval=c15rec.argv()"], ["-e", "c15rec.argv()"], ["eval", "c15rec.argv()"], ["-c"]]) + args
    elif k < .83:
        body = r.choice([["--file", "@SCRIPT@"], ["@SCRIPT@"], ["-f=@SCRIPT@"], ["--run", "@SCRIPT@"]]) + args
    elif k < .91:
        body = r.choice([["-m", "c15main"], ["-mc15main"], ["c15main"], ["--module=c15main"], ["-m"]]) + args
    elif k < .95:
        body = r.choice([["-"], []]) + (args if r.random() < .5 else [])
        if body and body[0] != "-":
            body = ["-"] + body
        stdin = "c15rec.argv()\n"
    else:
        body = r.choice([["?"], ["--help"], ["c15rec.show?"], ["??c15rec.show"], ["--version"], ["--xargs"], ["--bogus"], [" "], ["7"],
                         ["-source", "c15rec.show"]]) + args
    if r.random() < .006:
        # size extremes at the front end: one long flat expression as the only argument
        long_ = r.choice(["[" + ",".join(["0"] * 2500) + "]", "'" + "a" * 6000 + "'", "(" + "1, " * 1500 + ")"])
        g = list(r.choice([[], ["--safe"], ["--args=auto"], ["--args=string"]]))
        body = r.choice([["c15rec.show", long_], ["--apply", "c15rec.show", long_], ["len", long_], ["c15rec.show", "--key=" + long_]])
    return {"kind": "main", "i": i, "argv": g + body, "stdin": stdin}


# ---------------------------------------------------------------------------------------------
# implementation side

_ENV = {}


def _setup():
    if "dir" not in _ENV:
        d = tempfile.mkdtemp(prefix="verif-c15m-")
        atexit.register(shutil.rmtree, d, True)
        for name, text in (("c15rec.py", REC_MOD), ("c15main.py", MAIN_MOD), ("c15script.py", MAIN_MOD), ("c15eq.py", EQ_MOD)):
            with open(os.path.join(d, name), "w") as f:
                f.write(text)
        sys.path.insert(0, d)
        _ENV["dir"] = d
    return _ENV["dir"]


class _Out:
    def __init__(self):
        self.buf = []

    def write(self, s):
        self.buf.append(s)
        return len(s)

    def flush(self):
        pass

    def isatty(self):
        return False


def canon_main(v):
    from .c15 import canon
    return canon(v)


def run_front_end(argv, stdin):
    """_PyMain(argv).run() with the non-argument machinery stubbed out; returns the observation."""
    import builtins
    import io
    import pyflyby._py as P
    from pyflyby._log import logger
    d = _setup()
    argv = [a.replace("@SCRIPT@", os.path.join(d, "c15script.py")) for a in argv]
    builtins._C15REC = []
    trace = []
    saved = {}

    def patch(obj, name, new):
        saved[(obj, name)] = getattr(obj, name)
        setattr(obj, name, new)

    def other(tag):
        def f(*a, **k):
            trace.append(["other", tag])
            return ""
        return f
    M = P._PyMain
    patch(M, "_enable_debug_tools", lambda self, **k: None)
    patch(M, "_pre_exit", lambda self: None)
    for name in ("start_ipython", "print_help", "print_version", "create_ipython_app"):
        patch(M, name, other(name))
    for name in ("run_ipython_line_magic", "attach_debugger", "remote_print_stack", "start_ipython_with_autoimporter",
                 "debugger", "print_version_and_exit", "_get_help"):
        if hasattr(P, name):
            patch(P, name, other(name))
    real_apply = P.auto_apply

    def rec_apply(function, commandline_args, namespace, arg_mode=None, debug=False):
        trace.append(["apply", list(commandline_args), arg_mode])
        return real_apply(function, commandline_args, namespace, arg_mode, debug=debug)
    patch(P, "auto_apply", rec_apply)
    real_parse = P._parse_auto_apply_args

    def rec_parse(argspec, commandline_args, namespace, arg_mode="auto"):
        from .c15 import classify_parse_error
        try:
            a, k = real_parse(argspec, commandline_args, namespace, arg_mode=arg_mode)
        except P.ParseError as e:
            trace.append(["parsed", {"err": "parse", "kind": classify_parse_error(str(e))}])
            raise
        except P._ParseInterruptedWantHelp:
            trace.append(["parsed", {"err": "help"}])
            raise
        except P._ParseInterruptedWantSource:
            trace.append(["parsed", {"err": "source"}])
            raise
        except SystemExit as e:
            trace.append(["parsed", {"err": "exit", "code": str(e.code)}])
            raise
        trace.append(["parsed", {"pos": [canon_main(x) for x in a], "kw": [[n, canon_main(v)] for n, v in k.items()]}])
        return a, k
    patch(P, "_parse_auto_apply_args", rec_parse)
    real_ctx = P.SysArgvCtx

    def rec_ctx(*a):
        trace.append(["sysargv", [canon_main(x) for x in a]])
        return real_ctx(*a)
    patch(P, "SysArgvCtx", rec_ctx)
    for name in ("eval", "execfile", "exec_stdin", "run_module", "heuristic_cmd"):
        real = getattr(M, name)

        def mk(name, real):
            def f(self, *a, **k):
                trace.append([name, [str(x) if not isinstance(x, list) else list(x) for x in a]])
                return real(self, *a, **k)
            return f
        patch(M, name, mk(name, real))
    patch(os, "isatty", lambda fd: False)
    main = M(list(argv))
    real_eval = main.namespace.auto_eval

    def rec_eval(block, *a, **k):
        if k.get("auto_import") is False:
            trace.append(["joined", str(block)])
        return real_eval(block, *a, **k)
    main.namespace.auto_eval = rec_eval
    old = sys.stdin, sys.stdout, sys.stderr, list(sys.argv), dict(os.environ), os.getcwd()
    out, err = _Out(), _Out()
    sys.stdin, sys.stdout, sys.stderr = io.StringIO(stdin), out, err
    exit_ = None
    try:
        try:
            main.run()
        except SystemExit as e:
            exit_ = "exit:%s" % (e.code,)
        except BaseException as e:
            exit_ = "exc:" + type(e).__name__
    finally:
        sys.stdin, sys.stdout, sys.stderr = old[0], old[1], old[2]
        sys.argv = old[3]
        os.environ.clear()
        os.environ.update(old[4])
        for (obj, name), v in saved.items():
            setattr(obj, name, v)
        try:
            logger.set_level("ERROR")
        except Exception:
            pass
        P._enable_postmortem_debugger = None
        while d in sys.path[1:]:
            sys.path.remove(d)
        if sys.path[0] != d:
            sys.path.insert(0, d)
    recs = [[n, [canon_main(x) for x in a], [[kk, canon_main(vv)] for kk, vv in k]] for n, a, k in builtins._C15REC]
    return {"argv": argv, "trace": trace, "recs": recs, "exit": exit_, "stdout": "".join(out.buf)[-2000:]}


def classify(obs):
    """the observation in the shape of the model's outcome"""
    trace, recs, exit_ = obs["trace"], obs["recs"], obs["exit"]
    kinds = [t[0] for t in trace]
    if "joined" in kinds:
        return {"kind": "joined", "text": [t[1] for t in trace if t[0] == "joined"][0].rstrip("\n")}
    if "apply" in kinds:
        applies = [t for t in trace if t[0] == "apply"]
        parsed = [t[1] for t in trace if t[0] == "parsed"]
        if len(parsed) < len(applies):
            # the function expression itself failed (not callable, unimportable name, raises)
            return {"kind": "error"}
        return {"kind": "calls", "calls": [{"argv": t[1], "res": r} for t, r in zip(applies, parsed)], "exit": exit_}
    for name, pk in (("eval", "eval"), ("execfile", "file"), ("exec_stdin", "stdin")):
        if name in kinds:
            j = kinds.index(name)
            a = [t[1] for t in trace[j:] if t[0] == "sysargv"]
            return {"kind": "program", "pk": pk, "argv": (a[0] if a else None), "exit": exit_}
    if "run_module" in kinds:
        if exit_ == "exc:NotImplementedError":
            return {"kind": "error"}
        t = [t for t in trace if t[0] == "run_module"][0]
        a = [x for x in recs if x[0] == "argv"]
        return {"kind": "module", "m": t[1][0], "args": t[1][1], "seen": (a[0][1] if a else None)}
    if "other" in kinds:
        return {"kind": "other"}
    if "heuristic_cmd" in kinds and exit_ is None:
        return {"kind": "notcallable"}
    if not [k for k in kinds if k != "sysargv"] and exit_ is None:
        return {"kind": "calls", "calls": []}          # --map without arguments: nothing happens
    return {"kind": "error"}


def head_entry(expr):
    import pyflyby._py as P
    from pyflyby._parse import PythonBlock
    from .c15 import spec_of, _Sink
    ns = P._Namespace()
    old = sys.stdout, sys.stderr
    sys.stdout = sys.stderr = _Sink()
    try:
        try:
            if not expr.strip():
                raise ValueError
            v = ns.auto_eval(PythonBlock(expr, flags=P.FLAGS, auto_flags=True))
        except BaseException:
            return [2, None]
        if callable(v):
            return [0, spec_of(P._get_argspec(v))]
        return [1, None]
    finally:
        sys.stdout, sys.stderr = old


def env_entries(argv):
    """the oracle arguments of the model for this command line, from the real environment"""
    import pyflyby._py as P
    from pyflyby._parse import PythonBlock
    from .c15 import _Sink
    cands = list(dict.fromkeys(argv + [a.split("=", 1)[1] for a in argv if a.startswith("-") and "=" in a]))
    joins = list(dict.fromkeys(" ".join(argv[i:]) for i in range(len(argv))))
    old = sys.stdout, sys.stderr
    sys.stdout = sys.stderr = _Sink()
    try:
        out = {"filename": [], "joinok": [], "parsable": [], "modules": [], "digits": [], "heads": []}
        for s in cands:
            try:
                if P._as_filename_if_seems_like_filename(s) is not None:
                    out["filename"].append(s)
            except Exception:
                pass
            try:
                if PythonBlock(s, flags=P.FLAGS, auto_flags=True).parsable:
                    out["parsable"].append(s)
            except Exception:
                pass
            try:
                if P._PyMain([])._seems_like_runnable_module(s):
                    out["modules"].append(s)
            except Exception:
                pass
            if s.isdigit():
                out["digits"].append(s)
            out["heads"].append([s] + head_entry(s))
        for t in joins:
            try:
                cmd = PythonBlock(t, flags=P.FLAGS, auto_flags=True)
                if cmd.parsable and P._Namespace().auto_import(cmd):
                    out["joinok"].append(t)
            except Exception:
                pass
        return out
    finally:
        sys.stdout, sys.stderr = old


def impl_main(c):
    from .c15 import oracle_entry, candidate_strings, indep_eval
    obs = run_front_end(c["argv"], c["stdin"])
    argv = obs["argv"]
    chars = sorted({ch for a in argv for ch in a if ord(ch) > 127})
    return {"obs": obs, "cls": classify(obs), "env": env_entries(argv),
            "table": [[s] + oracle_entry(s) for s in candidate_strings(argv + [""])],
            "indep": [[s] + indep_eval(s) for s in candidate_strings(argv + [""])],
            "xs": [ch for ch in chars if ch.isidentifier()], "xc": [ch for ch in chars if ("a" + ch).isidentifier()]}


# ---------------------------------------------------------------------------------------------
# model side

def main_expr(c, im):
    from .c15 import c_spec
    e = im["env"]
    sl = lambda l: cm.clist([cm.cstr(s) for s in l])
    dummy = {"args": [], "ndefaults": 0, "varargs": False, "kwonly": [], "kwdefaults": [], "varkw": False}
    heads = cm.clist([cm.cpair(cm.cstr(s), "(%s, %s, %s)" % (cm.cN(tag), cm.cN(0), c_spec(sp or dummy))) for s, tag, sp in e["heads"]])
    t = cm.clist([cm.cpair(cm.cstr(s), "(%s, %s, %s)" % (cm.cN(a), cm.cN(b), cm.cstr(p))) for s, a, b, p in im["table"]])
    return "run_main %s %s false %s %s %s %s %s %s %s %s %s" % (
        cm.clist([cm.cN(ord(x)) for x in im["xs"]]), cm.clist([cm.cN(ord(x)) for x in im["xc"]]),
        sl(e["filename"]), sl(e["joinok"]), sl(e["parsable"]), sl(e["modules"]), sl(e["digits"]), heads,
        cm.cstr(c["stdin"]), t, sl(im["obs"]["argv"]))


def model_view(m):
    """model outcome -> the shape classify() produces"""
    from .c15 import model_res, model_val
    k = m["kind"]
    if k == "calls":
        calls = []
        for cl in m["calls"]:
            calls.append({"argv": cl["argv"], "res": model_res(cl["res"])})
        return {"kind": "calls", "calls": calls}
    if k == "program":
        a = m["argv"]
        return {"kind": "program", "pk": m["pk"], "argv": ([model_val(v) for v in a["ok"]] if "ok" in a else None)}
    if k == "joined":
        return {"kind": "joined", "text": m["text"]}
    if k == "module":
        return {"kind": "module", "m": m["m"], "args": m["args"]}
    return {"kind": k}


def same(mv, cls):
    if mv["kind"] != cls["kind"]:
        return False
    k = mv["kind"]
    if k == "calls":
        if len(mv["calls"]) != len(cls["calls"]):
            # the called function itself raised (traceback, exit): the remaining calls of --map are not made
            if not (cls["calls"] and len(cls["calls"]) < len(mv["calls"]) and "pos" in cls["calls"][-1]["res"]
                    and cls.get("exit") is not None):
                return False
        for a, b in zip(mv["calls"], cls["calls"]):
            if a["argv"] != b["argv"]:
                return False
            if a["res"] != b["res"]:
                return False
        return True
    if k == "program":
        if mv["pk"] != cls["pk"]:
            return False
        if mv["argv"] is None:
            return cls["argv"] is None
        if cls["argv"] is None:
            return False
        seen = cls["argv"] if mv["pk"] == "stdin" else cls["argv"][1:]
        return seen == mv["argv"]
    if k == "joined":
        return mv["text"] == cls["text"]
    if k == "module":
        if cls.get("seen") is not None and cls["seen"][1:] != ["str:" + a for a in mv["args"]]:
            return False         # what the module saw as sys.argv[1:]
        return mv["m"] == cls["m"] and mv["args"] == cls["args"]
    return True


# ---------------------------------------------------------------------------------------------
# oracle: string identity end to end (no model, no pyflyby logic)

def read_globals(argv):
    """the arg mode an explicit --safe / --args=... selects, read from the documented options only;
    returns (mode or None, rest) or None when the oracle does not know the option"""
    mode, i = None, 0
    names = ("arguments", "argument", "args", "arg", "arg_mode", "arg-mode", "argmode")
    table = {"string": "string", "strings": "string", "str": "string", "strs": "string", "literal": "string", "literals": "string",
             "s": "string", "auto": "auto", "automatic": "auto", "a": "auto", "eval": "eval", "evaluate": "eval", "e": "eval",
             "expr": "eval", "exprs": "eval", "expression": "eval", "expressions": "eval"}
    while i < len(argv):
        a = argv[i]
        if not a.startswith("-"):
            break
        n, eq, v = (a[2:] if a.startswith("--") else a[1:]).partition("=")
        if n == "safe" and not eq:
            mode = "string"
            i += 1
        elif n in names:
            if not eq:
                if i + 1 >= len(argv):
                    return None
                v = argv[i + 1]
                i += 1
            if v.strip().lower() not in table:
                return None
            mode = table[v.strip().lower()]
            i += 1
        elif n in ("q", "quiet", "repr", "print", "pprint", "silent", "np", "no-postmortem") and not eq:
            i += 1
        elif n in ("output", "postmortem") and eq:
            i += 1
        else:
            break
    return mode, argv[i:]


def oracle_main(c, im):
    """[(clause, message)]"""
    out = []
    obs = im["obs"]
    argv = obs["argv"]
    rg = read_globals(argv)
    if rg is None:
        return out
    mode, rest = rg
    # after a `--` separator the arguments arrive verbatim, in every mode (plain call forms of c15rec.show)
    if rest and "--" in rest[1:]:
        head = rest[:rest.index("--", 1)]
        tail = rest[rest.index("--", 1) + 1:]
        plain = (head[0] == "c15rec.show" and not any(a.startswith("-") or a in ("?", "??") for a in head[1:])) or \
                (head[0] in ("--apply", "--call", "-apply", "-call") and head[1:2] == ["c15rec.show"]
                 and not any(a.startswith("-") or a in ("?", "??") for a in head[2:]))
        indep = {row[0]: row[1:] for row in im["indep"]}
        hargs = head[1:] if head[0] == "c15rec.show" else head[2:]
        if mode != "string" and any(indep.get(a, ["abstain"])[0] in ("raises", "abstain") for a in hargs):
            plain = False        # an argument before `--` terminates the command when evaluated (F22): no call
        if mode == "eval" and any(indep.get(a, ["abstain"])[0] != "value" for a in hargs):
            plain = False        # eval mode: an argument that cannot be evaluated is a ParseError
        if plain and tail:
            want = ["str:" + a for a in tail]
            got = [r_[1][-len(want):] for r_ in obs["recs"] if r_[0] == "show"]
            if got != [want]:
                out.append(("main_after_dashdash", "py %s: the arguments after `--` must reach c15rec.show verbatim %r; recorded %r (exit %r)"
                            % (" ".join(map(repr, argv)), tail, obs["recs"], obs["exit"])))
    if mode != "string" or not rest:
        return out
    originals = set(argv) | {a.split("=", 1)[1] for a in argv if a.startswith("-") and "=" in a} | {c["stdin"], ""}
    # (1) whatever a user function / program received under an explicit string mode is an original string
    for name, a, k in obs["recs"]:
        vals = (a[1:] if name == "argv" else a) + [v for _, v in k]
        for v in vals:
            if v.startswith("default:"):
                continue
            if not v.startswith("str:") or v[4:] not in originals:
                out.append(("main_string_mode_identity",
                            "under an explicit string mode %s received %r, which is not an original argument string of %r" % (name, v, argv)))
    # (2) the plain call forms: `py --safe f a b`, `py --safe --apply f a b` with f = c15rec.show and no
    #     option-like argument: the callee must receive exactly the argument strings, in order
    fn, args = None, None
    if rest[0] in ("--apply", "-apply", "--call", "-call") and len(rest) >= 2:
        fn, args = rest[1], rest[2:]
    elif not rest[0].startswith("-") and not rest[0].startswith("%") and rest[0] not in ("apply", "call", "eval", "map"):
        fn, args = rest[0], rest[1:]
    if fn == "c15rec.show" and args is not None and not any(a.startswith("-") or a in ("?", "??") for a in args):
        exp = ["show", ["str:" + a for a in args], []]
        if obs["recs"] != [exp] or obs["exit"] is not None:
            out.append(("main_string_mode_identity",
                        "py %s: c15rec.show must be called once with exactly %r; recorded %r (exit %r)" % (" ".join(map(repr, argv)), args, obs["recs"], obs["exit"])))
    if fn == "print" and args is not None and not any(a.startswith("-") or a in ("?", "??") for a in args):
        if obs["exit"] is None and not obs["stdout"].startswith(" ".join(args) + "\n"):
            out.append(("main_string_mode_identity", "py %s printed %r" % (" ".join(map(repr, argv)), obs["stdout"])))
    return out


def oracle_main_auto(c, im):
    """explicit --args=auto: each value c15rec.show received is an original string or its plain CPython value"""
    out = []
    obs = im["obs"]
    rg = read_globals(obs["argv"])
    if rg is None or rg[0] != "auto":
        return out
    indep = {row[0]: row[1:] for row in im["indep"]}
    allowed, abst = {"str:" + c["stdin"], "str:"}, False
    for s, ev in indep.items():
        allowed.add("str:" + s)
        if ev[0] == "value":
            allowed.add(ev[1])
        if ev[0] == "abstain":
            abst = True
    if abst:
        return out
    for name, a, k in obs["recs"]:
        if name == "argv":
            continue
        for v in a + [v for _, v in k]:
            if not v.startswith("default:") and v not in allowed:
                out.append(("main_auto_mode", "under --args=auto %s received %r: neither an original string nor its value" % (name, v)))
    return out

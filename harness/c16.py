"""C16 - xreload updates live references and is atomic when the new code fails.

Correspondence (open mode): at the moment `_xreload_module` calls `livepatch(module, new_mod, ...)` the
real object graph reachable from the old module and from the scratch module is snapshotted into the
abstract heap of Livepatch/Heap.v (addresses = ids, renumbered); the model patches that heap
(Livepatch/Patch.v, Xreload.v) and the result is compared object by object with a second snapshot
taken after the real patch.  A failure is injected at every statement index of the new source and
the graph must be unchanged.  Oracle: identity / behaviour through references captured before the
reload, and the namespace, against a fresh import of the new source in another interpreter."""
import ast
import json
import os
import shutil
import subprocess
import sys
import tempfile
import types

from . import common as cm

REQ = ["Livepatch.Heap", "Livepatch.Patch", "Livepatch.Xreload", "Livepatch.Wire"]

ANCHORS = ["pyflyby._livepatch:livepatch", "pyflyby._livepatch:_livepatch__module", "pyflyby._livepatch:_livepatch__dict",
           "pyflyby._livepatch:_livepatch__function", "pyflyby._livepatch:_livepatch__method",
           "pyflyby._livepatch:_livepatch__setattr", "pyflyby._livepatch:_livepatch__class",
           "pyflyby._livepatch:_livepatch__object", "pyflyby._livepatch:_get_definition_module",
           "pyflyby._livepatch:_xreload_module"]

DUNDERS = ["__path__", "__package__", "__loader__", "__spec__", "__cached__"]

# ---------------------------------------------------------------------------------------------
# generator: (old, new) versions of one module, with a descriptor per module-level name

NAMES = ["f", "g", "h", "A", "B", "S", "i1", "i2", "s1", "d1", "l1", "dd", "w"]
# values that compare equal (==) but differ in type or representation
EQUAL_CLASSES = [["30", "30.0"], ["0", "False", "0.0"], ["1", "True", "1.0"], ["(1, 2)", "(1.0, 2)", "(True, 2)"],
                 ["Decimal('1.5')", "Decimal('1.50')"], ["'a'", "'a'"], ["frozenset({1})", "frozenset({True})"]]
PRE = ["def mk(v):", "    def inner(): return ('inner', v)", "    return inner",
       "def mk2(fn):", "    def inner(): return ('inner2', fn())", "    return inner",
       "def deco(fn):", "    def wrapper(): return ('wrapped', fn())", "    return wrapper",
       "from decimal import Decimal"]


def gen_version(r, ver, rich):
    """returns (source, descriptor); descriptor: name -> spec (what the generator meant)"""
    desc = {}
    lines = list(PRE)
    # fixed position, body independent of the version: the code objects of both versions are equal, only the
    # positional defaults / keyword-only defaults / annotation / separately assigned docstring may differ
    pick = lambda a, b: r.choice([a, a, b])
    lines += ["def dflt(a=%d, b=%r): return ('dflt', a, b)" % (pick(7, 100 + ver), pick("x", "y%d" % ver)),
              "def kwd(*, k=%d): return ('kwd', k)" % pick(7, 100 + ver),
              "def ann(a: %s = 0): return ('ann', a)" % pick("int", ["str", "float"][ver - 1]),
              "def docf(): return 'docf'",
              "docf.__doc__ = %r" % pick("doc", "doc v%d" % ver),
              "class Dm:",
              "    def m(self, a=%d): return ('Dm.m', a)" % pick(7, 100 + ver),
              "    @staticmethod",
              "    def s(a=%d, *, k=%d): return ('Dm.s', a, k)" % (pick(7, 100 + ver), pick(7, 100 + ver)),
              "    @classmethod",
              "    def c(cls, a=%d): return ('Dm.c', a)" % pick(7, 100 + ver)]
    # defaults replaced by a DISTINCT object that compares EQUAL (1 -> True -> 1.0, 0.0 -> -0.0), and a default that IS
    # a module-level object which the reload re-creates
    eqd_ = r.choice([["1", "True", "1.0"], ["0.0", "-0.0", "0"], ["0", "False"], ["(1, 2)", "(1.0, 2)"]])
    lines += ["SEEN = []",
              "def remember(x='b', acc=SEEN): return ('remember', x, acc is SEEN, len(acc))",
              "def eqdef(a=%s, *, k=%s): return ('eqdef', a, k)" % (r.choice(eqd_), r.choice(eqd_)),
              "class Rm:",
              "    def m(self, acc=SEEN, a=%s): return ('Rm.m', acc is SEEN, a)" % r.choice(eqd_)]
    desc["SEEN"] = ("list",)
    desc["Rm"] = ("class", None, {"m": "method"}, None)
    for n in ("dflt", "kwd", "ann", "docf", "remember", "eqdef"):
        desc[n] = ("func", n, None)
    desc["Dm"] = ("class", None, {"m": "method", "s": "static", "c": "clsm"}, None)
    desc["Decimal"] = ("data",)
    # plain data that changes to an EQUAL value of another type / representation: module level, function
    # attribute, class attribute, dict entry, instance attribute
    eqc = r.choice(EQUAL_CLASSES)
    ev = lambda: r.choice(eqc)
    lines += ["eq1 = %s" % ev(), "eq2 = %s" % r.choice(r.choice(EQUAL_CLASSES)),
              "docf.eqtag = %s" % ev(),
              "class Eq:", "    ev = %s" % ev(),
              "eqd = {'e': %s, 'k': %s}" % (ev(), ev()),
              "eqi = Eq()", "eqi.val = %s" % ev()]
    # multi-base classes with same-module bases: the base list is re-ordered, gains and loses bases
    lines += ["class Engine:", "    def power(self): return ('Engine.power', %d)" % ver,
              "class Wheels:", "    def roll(self): return ('Wheels.roll', %d)" % ver,
              "class Cargo:", "    def load(self): return ('Cargo.load', %d)" % ver]
    for n in ("Engine", "Wheels", "Cargo"):
        desc[n] = ("class", None, {}, None)
    for n in ("Car", "Truck"):
        bl = r.sample(["Engine", "Wheels", "Cargo"], r.choice([1, 2, 2, 3]))
        lines += ["class %s(%s):" % (n, ", ".join(bl)), "    def name(self): return ('%s', %d)" % (n, ver)]
        desc[n] = ("class", tuple(bl), {"name": "method"}, None)
    lines += ["car1 = Car()", "truck1 = Truck()"]
    desc["car1"] = ("inst", "Car")
    desc["truck1"] = ("inst", "Truck")
    for n in ("eq1", "eq2"):
        desc[n] = ("data",)
    desc["Eq"] = ("class", None, {"ev": "data"}, None)
    desc["eqd"] = ("dict",)
    desc["eqi"] = ("inst", "Eq")
    classes = []
    # module-level dunder names of the SOURCE (not of the import system): they appear, change and disappear
    tail = []
    if r.random() < .4:
        tail.append("__version__ = '1.%d'" % pick(0, ver))
        desc["__version__"] = ("data",)
    if r.random() < .35:
        tail += ["def __getattr__(name):",
                 "    if name.startswith('lazy_'): return ('lazy', name, %d)" % ver,
                 "    raise AttributeError(name)"]
        desc["__getattr__"] = ("func", "__getattr__", None)
    if r.random() < .25:
        tail.append("def __dir__(): return ['dflt', 'kwd', 'v%d']" % ver)
        desc["__dir__"] = ("func", "__dir__", None)
    if r.random() < .3:
        tail.append("__x__ = %d" % (8000 + ver))
        desc["__x__"] = ("data",)
    if r.random() < .4:
        tail.append("__all__ = %r" % (r.sample(["dflt", "kwd", "ann", "docf", "Dm", "mk"], r.randint(1, 4)),))
        desc["__all__"] = ("list",)
    for n in NAMES:
        if r.random() < .22:
            continue
        k = r.random()
        if n in ("A", "B"):
            base = None
            if n == "B" and "A" in desc and desc["A"][0] == "class" and r.random() < (.6 if rich else .0):
                base = "A"
            mem, body = {}, []
            if r.random() < .3:
                body.append('    """doc of %s v%d"""' % (n, ver))
            if r.random() < .3:
                body.append("    def __repr__(self): return '%s<%d>'" % (n, ver))
            if r.random() < .25:
                body.append("    def __len__(self): return %d" % (10 + ver))
            if r.random() < .25:
                body.append("    __tag__ = %d" % (900 + ver))
            for m in ["m1", "m2", "s", "c", "p", "x"]:
                if r.random() < .35:
                    continue
                if m in ("m1", "m2"):
                    mem[m] = "method"
                    body.append("    def %s(self): return ('%s.%s', %d)" % (m, n, m, ver))
                elif m == "s":
                    mem[m] = "static"
                    body += ["    @staticmethod", "    def s(): return ('%s.s', %d)" % (n, ver)]
                elif m == "c":
                    mem[m] = "clsm"
                    body += ["    @classmethod", "    def c(cls): return ('%s.c', %d)" % (n, ver)]
                elif m == "p":
                    mem[m] = "prop"
                    body += ["    @property", "    def p(self): return %d" % ver]
                else:
                    mem[m] = "data"
                    body.append("    x = %d" % (1000 + ver + r.randint(0, 1)))
            lines.append("class %s%s:" % (n, "(%s)" % base if base else ""))
            lines += body or ["    pass"]
            desc[n] = ("class", base, mem, None)
            classes.append(n)
        elif n == "S":
            slots = r.choice([("a", "b"), ("a", "b"), ("a", "b", "c"), ("a",)])
            lines.append("class S:")
            lines.append("    __slots__ = %r" % (slots,))
            lines.append("    def m1(self): return ('S.m1', %d)" % ver)
            desc[n] = ("class", None, {"m1": "method"}, slots)
        elif n in ("i1", "i2"):
            if classes and k < .7:
                c = r.choice(classes)
                lines.append("%s = %s()" % (n, c))
                lines.append("%s.attr = %d" % (n, 2000 + ver))
                desc[n] = ("inst", c)
            else:
                lines.append("%s = %d" % (n, 3000 + ver))
                desc[n] = ("data",)
        elif n == "s1":
            if "S" in desc and rich:
                setslots = [s for s in desc["S"][3] if r.random() < .6]
                lines.append("s1 = S()")
                for s in setslots:
                    lines.append("s1.%s = %d" % (s, 7000 + ver))
                desc[n] = ("sinst", "S", tuple(setslots))
        elif n == "d1":
            lines.append("d1 = %d" % (4000 + r.randint(0, 1)))
            desc[n] = ("data",)
        elif n == "l1":
            lines.append("l1 = [1, %d]" % ver)
            desc[n] = ("list",)
        elif n == "dd":
            funcs = [x for x, d in desc.items() if d[0] == "func" and d[2] is None and not x.startswith("__")]
            ent = ["'v': %d" % ver]
            if funcs:
                ent.append("'fn': %s" % r.choice(funcs))
            if r.random() < .5:
                ent.append("'k%d': 1" % r.randint(0, 1))
            lines.append("dd = {%s}" % ", ".join(ent))
            desc[n] = ("dict",)
        elif n == "w":
            if r.random() < .6:
                lines += ["@deco", "def w(): return ('w', %d)" % ver]
                desc[n] = ("func", "wrapper", ("func", None, "deco"))
            else:
                lines.append("def w(): return ('w', %d)" % ver)
                desc[n] = ("func", "w", None)
        else:
            if k < .45:
                doc = '"""doc %d"""; ' % ver if r.random() < .3 else ""
                lines.append("def %s(a=%d): %sreturn ('%s', %d, a)" % (n, ver, doc, n, ver))
                if r.random() < .2:
                    lines.append("%s.tag = %d" % (n, ver))
                desc[n] = ("func", n, None)
            elif k < .6:
                cv = 5000 + r.randint(0, 1)
                lines.append("%s = mk(%d)" % (n, cv))
                desc[n] = ("func", "inner", ("int", cv, "mk"))
            elif k < .75:
                funcs = [x for x, d in desc.items() if d[0] == "func" and d[2] is None and not x.startswith("__")]
                if funcs:
                    t = r.choice(funcs)
                    lines.append("%s = mk2(%s)" % (n, t))
                    desc[n] = ("func", "inner", ("func", t, "mk2"))
                else:
                    lines.append("def %s(): return ('%s', %d)" % (n, n, ver))
                    desc[n] = ("func", n, None)
            elif k < .85:
                other = r.choice(["f", "g", "h"])
                lines.append("def %s_impl(): return ('%s_impl', %d)" % (other, other, ver))
                lines.append("%s = %s_impl" % (n, other))
                desc[other + "_impl"] = ("func", other + "_impl", None)
                desc[n] = ("alias", other + "_impl")
            else:
                lines.append("%s = %d" % (n, 6000 + ver))
                desc[n] = ("data",)
    for n in ("mk", "mk2", "deco"):
        desc[n] = ("func", n, None)
    lines += tail
    return "\n".join(lines) + "\n", desc


def resolve(desc, n):
    d = desc[n]
    while d[0] == "alias":
        d = desc[d[1]]
    return d


def func_kept(o, n, literal=False):
    """identity-keeping rule of the property for functions: name and closure shape unchanged
    (literal=True: exactly as the property words it; False: additionally equal plain cell values)"""
    if o[1] != n[1]:
        return False
    if (o[2] is None) != (n[2] is None):
        return False
    if o[2] is None:
        return True
    if o[2][2] != n[2][2]:
        return False
    if o[2][0] == "int":
        return True if literal else o[2][1] == n[2][1]
    return True


def expected_identity(od, nd):
    """name -> 'kept' | 'replaced' | 'added' | 'deleted' | 'any' | 'f20'   (the property, from the descriptors)"""
    names = {}
    for n in set(od) | set(nd):
        if n not in nd:
            names[n] = "deleted"
            continue
        if n not in od:
            names[n] = "added"
            continue
        o, w = resolve(od, n), resolve(nd, n)
        if o[0] != w[0]:
            names[n] = "any"
        elif o[0] == "func":
            if func_kept(o, w):
                names[n] = "kept"
            elif func_kept(o, w, literal=True):
                names[n] = "f20"
            else:
                names[n] = "any"
        elif o[0] == "class":
            names[n] = "kept" if (o[1] == w[1] and o[3] == w[3]) else "any"
        else:
            names[n] = "any"
    return names


def gen_cases(ctx, n):
    cases = []
    for i in range(n):
        r = cm.rng(ctx.seed, "c16", i)
        rich = (i % 3 != 0)
        osrc, od = gen_version(r, 1, rich)
        nsrc, nd = gen_version(r, 2, rich)
        mode = "reload"
        if i % 20 == 11:
            mode = r.choice(["older", "same_text"])
        if i % 20 == 3:
            nsrc, nd = gen_version(r, 2, rich)      # one more draw: keeps streams independent
        if i % 15 == 7:
            # F20 witness stream: only the plain cell value differs
            osrc = "\n".join(PRE) + "\ng = mk(1)\n"
            nsrc = "\n".join(PRE) + "\ng = mk(2)\n"
            od = {"g": ("func", "inner", ("int", 1, "mk"))}
            nd = {"g": ("func", "inner", ("int", 2, "mk"))}
            for d in (od, nd):
                for k in ("mk", "mk2", "deco"):
                    d[k] = ("func", k, None)
        if i % 12 == 5:
            # everything deleted (or nothing there before): empty, whitespace-only, comment-only, docstring-only
            blank = r.choice(["", "   \n\n", "# only a comment\n", '"""only a docstring"""\n', "\n"])
            if r.random() < .7:
                nsrc, nd = blank, {}
            else:
                osrc, od = blank, {}
        split = []
        if i % 15 == 9:
            # order stream: one old object bound to two names is paired with two different new functions;
            # the common names are patched in sorted order, the last one wins
            pre = "def mkA():\n    def inner(): return 'A'\n    return inner\ndef mkB():\n    def inner(): return 'B'\n    return inner\n"
            a, b = r.sample(["f", "g", "h", "k"], 2)
            osrc = pre + "%s = %s = mkA()\n" % (a, b)
            nsrc = pre + "%s = mkA()\n%s = mkB()\n" % (a, b)
            od = {a: ("shared",), b: ("shared",), "mkA": ("func", "mkA", None), "mkB": ("func", "mkB", None)}
            nd = {a: ("func", "inner", None), b: ("func", "inner", None), "mkA": ("func", "mkA", None), "mkB": ("func", "mkB", None)}
            split = [a, b]
        # interpreter flags and log level are environment, the observables must not depend on them
        env = {1: "O", 4: "OO", 6: "debug"}.get(i % 8, "")
        set_level = {3: "DEBUG", 7: "WARNING"}.get(i % 8)
        cases.append({"kind": "pair", "i": i, "tag": "%d_%d" % (ctx.seed % 100000, i), "old": osrc, "new": nsrc,
                      "od": od, "nd": nd, "pkg": i % 4 == 1, "mode": mode, "split": split, "env": env,
                      "set_level": set_level})
    return cases


# ---------------------------------------------------------------------------------------------
# snapshot of the real object graph into the abstract heap

class Unsupported(Exception):
    pass


class Snap(object):
    def __init__(self, modname, roots_modules):
        self.modname = modname
        self.modules = roots_modules        # module objects that are modelled as OModule
        self.ids = {}
        self.keep = []
        self.tyids = {}
        self.reps = {}                      # tyid -> list of (representative, eqc)
        self.neq = 0

    def addr(self, o):
        k = id(o)
        if k not in self.ids:
            self.ids[k] = len(self.keep) + 1
            self.keep.append(o)
        return self.ids[k]

    def tyid(self, t):
        k = id(t)
        if k not in self.tyids:
            self.tyids[k] = len(self.tyids) + 1
            self.keep.append(t)
        return self.tyids[k]

    def eqc(self, o, t):
        lst = self.reps.setdefault(t, [])
        for rep, c in lst:
            try:
                if rep is o or rep == o:
                    return c
            except Exception:
                pass
        self.neq += 1
        lst.append((o, self.neq))
        return self.neq

    def snapshot(self, roots):
        """records for everything reachable from roots: addr -> record (JSON)"""
        import builtins
        recs = {}
        todo = list(roots)
        def ref(o):
            a = self.addr(o)
            if a not in recs:
                todo.append(o)
            return a
        while todo:
            o = todo.pop()
            a = self.addr(o)
            if a in recs:
                continue
            recs[a] = None
            t = type(o)
            if t is types.FunctionType:
                cl = [ref(c) for c in (o.__closure__ or ())]
                md = o.__module__ if isinstance(getattr(o, "__module__", None), str) else None
                recs[a] = ["func", o.__name__, md, ref(o.__code__), ref(o.__defaults__), ref(o.__kwdefaults__),
                           ref(o.__doc__), ref(o.__annotations__), ref(o.__dict__), cl, list(o.__code__.co_freevars)]
            elif isinstance(o, type):
                md = o.__dict__.get("__module__") if isinstance(o.__dict__.get("__module__"), str) else getattr(o, "__module__", None)
                if md == self.modname:
                    if t is not type:
                        raise Unsupported("custom metaclass")
                    if "__livepatch__" in o.__dict__ or "__reload_update__" in o.__dict__ or "__eq__" in o.__dict__:
                        raise Unsupported("hook / __eq__")
                    sl = o.__dict__.get("__slots__")
                    if sl is not None and not (isinstance(sl, (tuple, list)) and all(isinstance(x, str) for x in sl)):
                        raise Unsupported("odd __slots__")
                    recs[a] = ["class", o.__name__, md, [[k, ref(v)] for k, v in o.__dict__.items()],
                               [ref(b) for b in o.__bases__], list(sl) if sl is not None else None]
                else:
                    recs[a] = ["class", o.__name__, md if isinstance(md, str) else None, [], [], None]
            elif t is dict:
                if o is builtins.__dict__:
                    recs[a] = ["prim", self.tyid(t), self.eqc(o, self.tyid(t))]
                else:
                    if not all(isinstance(k, str) for k in o):
                        raise Unsupported("non-str dict key")
                    recs[a] = ["dict", [[k, ref(v)] for k, v in o.items()]]
            elif t is types.MethodType:
                recs[a] = ["method", ref(o.__func__), ref(o.__self__)]
            elif t is types.CellType:
                try:
                    recs[a] = ["cell", ref(o.cell_contents)]
                except ValueError:
                    raise Unsupported("empty cell")
            elif t is types.ModuleType and any(o is m for m in self.modules):
                recs[a] = ["module", ref(o.__dict__)]
            elif t is staticmethod:
                recs[a] = ["static", ref(o.__func__)]
            elif t is classmethod:
                recs[a] = ["classm", ref(o.__func__)]
            elif getattr(t, "__module__", None) == self.modname and type(t) is type:
                if dict in t.__mro__:
                    raise Unsupported("dict subclass instance")
                d = getattr(o, "__dict__", None)
                sl = None
                sv = []
                if hasattr(t, "__slots__"):
                    sl = list(o.__slots__)
                    for k in sl:
                        if hasattr(o, k):
                            sv.append([k, ref(getattr(o, k))])
                recs[a] = ["inst", ref(t), ref(d) if type(d) is dict else None, sl, sv]
            else:
                ti = self.tyid(t)
                recs[a] = ["prim", ti, self.eqc(o, ti)]
        return recs


def bases_assignable(oldc, newc, oldmod=None):
    """Would CPython accept the __bases__ assignment of _livepatch__class?  Tried on a clone of the old class, with
    the new bases and with the new bases mapped to their old counterparts (same module and name); None when the
    two answers differ (the case is then outside the oracle's reach)."""
    def attempt(bases):
        try:
            ns = {}
            if "__slots__" in oldc.__dict__:
                ns["__slots__"] = oldc.__dict__["__slots__"]
            clone = type(oldc.__name__, oldc.__bases__, ns)
            clone.__bases__ = bases
            return True
        except TypeError:
            return False
    by_name = {(b.__module__, b.__name__): b for b in oldc.__bases__}
    mapped = tuple(by_name.get((b.__module__, b.__name__), b) for b in newc.__bases__)
    r1, r2 = attempt(newc.__bases__), attempt(mapped)
    if oldmod is not None:
        def gained(b):
            cand = vars(oldmod).get(b.__name__)
            ok = isinstance(cand, type) and cand.__module__ == b.__module__ and cand.__name__ == b.__name__
            return cand if ok and b.__module__ == oldmod.__name__ else b
        mapped2 = tuple(by_name.get((b.__module__, b.__name__)) or gained(b) for b in newc.__bases__)
        if attempt(mapped2) != r2:
            return None
    return r1 if r1 == r2 else None


# ---------------------------------------------------------------------------------------------
# observation of a module namespace (used on the reloaded module and on a fresh import)

OBSERVE = r'''
import types
def _call(f, *a):
    try:
        r = f(*a)
        return '<function %s>' % r.__qualname__ if isinstance(r, types.FunctionType) else repr(r)
    except Exception as e: return 'EXC ' + type(e).__name__
_STD_CLASS_DUNDERS = {'__module__', '__dict__', '__weakref__', '__doc__', '__qualname__', '__slots__', '__annotations__',
                      '__firstlineno__', '__static_attributes__'}
def _members(c, inst):
    out = {}
    names = set()
    for k in c.__mro__:
        if k is not object: names |= set(vars(k))
    for k in sorted(names):
        if k in _STD_CLASS_DUNDERS: continue
        if k.startswith('__'):
            # a user-defined special member (class-level dunder): presence + what it gives
            v = getattr(inst if inst is not None else c, k, 'MISSING')
            out[k] = (_call(v) if callable(v) and k not in ('__init__', '__new__') else repr(v)) if not isinstance(v, type) else 'class'
            continue
        try: v = getattr(inst if inst is not None else c, k)
        except Exception as e:
            out[k] = 'EXC ' + type(e).__name__; continue
        out[k] = _call(v) if callable(v) else type(v).__name__ + ':' + repr(v)
        if isinstance(vars(c).get(k), (staticmethod, classmethod)) or callable(getattr(c, k, None)):
            out[k + '@class'] = _call(getattr(c, k))
    return out
_MODNAME = [None]
def _defaults(ds):
    """defaults by (type, repr) and by identity relative to the module's own objects: a default that IS a module-level
    container / function / class / instance must be that module-level object"""
    import sys
    out = []
    mod = sys.modules.get(_MODNAME[0])
    for d in ds:
        key = None
        if isinstance(d, tuple) and len(d) == 2 and isinstance(d[0], str) and not isinstance(ds, tuple):
            key, d = d
        names = []
        if mod is not None and (isinstance(d, (list, dict, set, types.FunctionType, type)) or type(d).__module__ == _MODNAME[0]):
            names = sorted(n for n, x in vars(mod).items() if x is d)
        out.append([key, type(d).__name__, repr(d) if not isinstance(d, (types.FunctionType, type)) else d.__qualname__,
                    'is module.' + '/'.join(names) if names else 'not a module-level object'
                    if isinstance(d, (list, dict, set)) else ''])
    return out
def _ident(cls):
    """a class of the module under reload must BE the module's current attribute of that name"""
    import sys
    if cls.__module__ != _MODNAME[0]:
        return cls.__name__
    cur = vars(sys.modules[_MODNAME[0]]).get(cls.__name__)
    return cls.__name__ if cur is cls else cls.__name__ + ' (NOT the class the module binds)'
def obs_val(v, depth=0):
    owner = v.__module__ if isinstance(v, (type, types.FunctionType)) else type(v).__module__
    if _MODNAME[0] is not None and owner != _MODNAME[0] and not isinstance(v, (dict, list, tuple, types.MethodType)):
        return ['data', type(v).__name__, v.__qualname__ if isinstance(v, types.FunctionType) else repr(v)]  # foreign object
    if isinstance(v, types.FunctionType):
        return ['func', v.__name__, _call(v), _defaults(v.__defaults__ or ()), _defaults(sorted((v.__kwdefaults__ or {}).items())), v.__doc__,
                sorted((k, getattr(t, '__name__', repr(t))) for k, t in v.__annotations__.items()),
                sorted((k, type(x).__name__, repr(x)) for k, x in v.__dict__.items())]
    if isinstance(v, types.MethodType):
        return ['method', _call(v)]
    if isinstance(v, type):
        try: inst = v()
        except Exception: inst = None
        return ['class', v.__name__, [_ident(b) for b in v.__bases__], [_ident(b) for b in v.__mro__],
                repr(vars(v).get('__slots__')), v.__doc__, _members(v, inst)]
    if isinstance(v, dict) and depth < 3:
        return ['dict', sorted((k, obs_val(x, depth + 1)) for k, x in v.items())]
    if isinstance(v, (list, tuple)) and depth < 3:
        return [type(v).__name__, [obs_val(x, depth + 1) for x in v]]
    if type(v).__module__ not in ('builtins',) and not isinstance(v, types.ModuleType):
        d = getattr(v, '__dict__', None)
        sl = [(k, repr(getattr(v, k))) for k in getattr(v, '__slots__', ()) if hasattr(v, k)]
        return ['inst', _ident(type(v)), [_ident(b) for b in type(v).__mro__], sorted((k, type(x).__name__, repr(x)) for k, x in d.items()) if isinstance(d, dict) else None, sl, _members(type(v), v)]
    return ['data', type(v).__name__, repr(v)]
# module attributes set by the import system / by xreload itself, not by the source
LOADER_DUNDERS = ('__builtins__', '__cached__', '__file__', '__loader__', '__name__', '__package__', '__spec__',
                  '__doc__', '__path__', '__loadtime__')
def observe(mod):
    out = {}
    _MODNAME[0] = mod.__name__
    for n, v in sorted(vars(mod).items()):
        if n in LOADER_DUNDERS: continue
        out[n] = obs_val(v)
    # behaviour that module-level dunders govern: the star import, PEP 562 __getattr__ / __dir__
    ns = {}
    try:
        exec('from %s import *' % mod.__name__, ns)
        out['<star import>'] = sorted(k for k in ns if k != '__builtins__')
    except Exception as e:
        out['<star import>'] = 'EXC ' + type(e).__name__
    try: out['<lazy attribute>'] = repr(getattr(mod, 'lazy_probe'))
    except Exception as e: out['<lazy attribute>'] = 'EXC ' + type(e).__name__
    try: out['<dir>'] = sorted(k for k in dir(mod) if k not in LOADER_DUNDERS)
    except Exception as e: out['<dir>'] = 'EXC ' + type(e).__name__
    dn = {}
    for k in ('__package__', '__name__', '__doc__'):
        dn[k] = repr(getattr(mod, k, 'MISSING'))
    for k in ('__spec__', '__loader__'):
        dn[k] = 'None' if getattr(mod, k, None) is None else 'set'
    for k in ('__cached__', '__file__', '__path__', '__builtins__'):
        dn[k] = hasattr(mod, k)
    return {'names': out, 'dunders': dn}
'''

FRESH_CHILD = OBSERVE + r'''
import sys, json, importlib
job = json.loads(sys.stdin.read())
sys.path.insert(0, job["root"]); sys.dont_write_bytecode = True
try:
    mod = importlib.import_module(job["name"])
    print("RESULT" + json.dumps(observe(mod)))
except BaseException as e:
    print("RESULT" + json.dumps({"exc": type(e).__name__}))
'''


# (expected type name, statement): Exception subclasses, BaseException subclasses that are not Exceptions
# (the handler in _xreload_module is a bare `except:`), a user BaseException subclass, and a compile-time failure
EXC_KINDS = [
    ("RuntimeError", "raise RuntimeError('injected')"),
    ("SystemExit", "import sys as _verif_sys; _verif_sys.exit(3)"),
    ("ZeroDivisionError", "_verif_x = 1 / 0"),
    ("KeyboardInterrupt", "raise KeyboardInterrupt()"),
    ("VerifBase", "raise type('VerifBase', (BaseException,), {})('injected')"),
    ("GeneratorExit", "raise GeneratorExit()"),
    ("SyntaxError", "def (:"),
    ("ImportError", "import verif_no_such_module_xyz"),
]


def inject_failure(src, k, kind=0):
    """new source that raises just before top-level statement k (k = number of statements: at the end)"""
    stmt = EXC_KINDS[kind % len(EXC_KINDS)][1]
    body = ast.parse(src).body
    lines = src.split("\n")
    if k >= len(body):
        return src + stmt + "\n"
    st = body[k]
    ln = min([st.lineno] + [d.lineno for d in getattr(st, "decorator_list", [])])
    return "\n".join(lines[:ln - 1] + [stmt] + lines[ln - 1:])


ENVS = {"": None, "O": {"PYTHONOPTIMIZE": "1"}, "OO": {"PYTHONOPTIMIZE": "2"}, "debug": {"PYFLYBY_LOG_LEVEL": "DEBUG"},
        "warning": {"PYFLYBY_LOG_LEVEL": "WARNING"}}


def run_partitioned(module, cases, timeout_case):
    """run_impl per environment group (python -O / -OO through PYTHONOPTIMIZE, log level at import time)"""
    results = [None] * len(cases)
    groups = {}
    for idx, c in enumerate(cases):
        groups.setdefault(c.get("env") or "", []).append(idx)
    for key in sorted(groups):
        idxs = groups[key]
        rs = cm.run_impl(module, "impl_case", [cases[i] for i in idxs], timeout_case=timeout_case, env_extra=ENVS[key])
        for i, r in zip(idxs, rs):
            results[i] = r
    return results


def impl_case(c):
    import importlib
    import linecache
    import time
    import pyflyby._livepatch as LP
    if c.get("env") in ("O", "OO"):
        if sys.flags.optimize != {"O": 1, "OO": 2}[c["env"]]:
            raise RuntimeError("worker is not running with the requested optimisation level")
    saved_level = None
    if c.get("set_level"):
        from pyflyby._log import logger as _lg
        saved_level = _lg.level
        _lg.set_level(c["set_level"])
    try:
        return _impl_case(c, LP)
    finally:
        if saved_level is not None:
            _lg.setLevel(saved_level)


def _impl_case(c, LP):
    import importlib
    import linecache
    import time
    obs_ns = {}
    exec(OBSERVE, obs_ns)
    root = tempfile.mkdtemp(prefix="verif-c16-")
    tag = c["tag"]
    if c["pkg"]:
        name = "lpk%s.m" % tag
        os.makedirs(os.path.join(root, "lpk%s" % tag))
        open(os.path.join(root, "lpk%s" % tag, "__init__.py"), "w").write("")
        path = os.path.join(root, "lpk%s" % tag, "m.py")
    else:
        name = "lpm%s" % tag
        path = os.path.join(root, name + ".py")
    clock = [int(time.time()) + 100]

    def write(src, older=False):
        with open(path, "w") as f:
            f.write(src)
        if older:
            t = int(LP._PROCESS_START_TIME) - 1000
        else:
            clock[0] += 10
            t = clock[0]
        os.utime(path, (t, t))
        linecache.clearcache()
        return t
    out = {"name": name}
    orig_lp = LP.livepatch
    sys.path.insert(0, root)
    try:
        importlib.invalidate_caches()
        write(c["old"])
        mod = importlib.import_module(name)
        captured = dict(vars(mod))
        snap = Snap(name, [mod])
        nstmt = len(ast.parse(c["new"]).body)
        # ---- the reload decision, exercised separately
        if c["mode"] in ("older", "same_text"):
            before = snap.snapshot([mod])
            if c["mode"] == "older":
                write(c["new"], older=True)
                loadtime, mtime, same = int(LP._PROCESS_START_TIME * 1000), int(os.stat(path).st_mtime * 1000), False
            else:
                linecache.getlines(path)              # the text is in linecache: cached_lines is not None
                with open(path, "w") as f:
                    f.write(c["old"])
                clock[0] += 10
                os.utime(path, (clock[0], clock[0]))
                loadtime, mtime, same = int(LP._PROCESS_START_TIME * 1000), clock[0] * 1000, True
            calls = []
            LP.livepatch = lambda *a, **k: (calls.append(1), orig_lp(*a, **k))[1]
            ret = LP.xreload(mod)
            LP.livepatch = orig_lp
            after = snap.snapshot([mod])
            out["decision"] = {"loadtime": loadtime, "mtime": mtime, "same": same, "patched": bool(calls),
                               "unchanged": before == after and sys.modules[name] is mod,
                               "has_loadtime": hasattr(mod, "__loadtime__")}
            return out
        # ---- failure injected at every statement index of the new source
        fails = []
        pre = snap.snapshot([mod])
        for k in range(nstmt + 1):
            kind = (k + c["i"]) % len(EXC_KINDS)
            write(inject_failure(c["new"], k, kind))
            try:
                LP.xreload(mod)
                raised = None
            except BaseException as e:
                raised = type(e).__name__
                if isinstance(e, ModuleNotFoundError):
                    raised = "ImportError"
            post = snap.snapshot([mod])
            same_graph = post == pre
            ident = all(vars(mod).get(n) is v for n, v in captured.items()) and set(vars(mod)) == set(captured)
            fails.append({"k": k, "raised": raised, "expected": EXC_KINDS[kind][0], "kind": kind, "same_graph": same_graph, "same_bindings": ident,
                          "registry": sys.modules.get(name) is mod, "loadtime": hasattr(mod, "__loadtime__")})
        out["fails"] = fails
        out["pre_fail_heap"] = {str(a): r for a, r in pre.items()}
        # ---- the real reload, snapshotted around the top-level livepatch call
        box = {}

        def hooked(old, new, modname=None, visit_stack=(), cache=None, assume_type=None, heed_hook=True):
            if assume_type is None or "pre" in box:
                return orig_lp(old, new, modname=modname, visit_stack=visit_stack, cache=cache,
                               assume_type=assume_type, heed_hook=heed_hook)
            snap.modules.append(new)
            try:
                box["pre"] = snap.snapshot([old, new])
                box["roots"] = [snap.addr(old), snap.addr(new)]
                box["reg"] = snap.addr(sys.modules[modname])
                pairs = []
                olds = [o for o in snap.keep if isinstance(o, type) and o.__dict__.get("__module__") == modname]
                for o1 in olds:
                    for o2 in olds:
                        if o1 is not o2 and o1.__name__ == o2.__name__:
                            ok = bases_assignable(o1, o2, old)
                            if ok is None:
                                raise Unsupported("__bases__ assignment oracle undecided")
                            if ok:
                                pairs.append([snap.addr(o1), snap.addr(o2)])
                box["bases_ok"] = pairs
                box["nkeep"] = len(snap.keep)
            except Unsupported as e:
                box["unsupported"] = str(e)
            box["newmod"] = new
            return orig_lp(old, new, modname=modname, visit_stack=visit_stack, cache=cache,
                           assume_type=assume_type, heed_hook=heed_hook)
        LP.livepatch = hooked
        write(c["new"])
        try:
            LP.xreload(mod)
            err = None
        except BaseException as e:
            err = "%s: %s" % (type(e).__name__, str(e)[:200])
        LP.livepatch = orig_lp
        out["err"] = err
        out["unsupported"] = box.get("unsupported")
        if "pre" in box and "unsupported" not in box:
            try:
                roots = list(snap.keep[:box["nkeep"]])
                lt = getattr(mod, "__loadtime__", None)
                post = snap.snapshot([mod, box["newmod"]] + [o for o in roots if not isinstance(o, type) or True])
                out["pre"] = {str(a): r for a, r in box["pre"].items()}
                out["post"] = {str(a): r for a, r in post.items() if str(a) in out["pre"] or a == snap.addr(lt)}
                out["roots"] = box["roots"]
                out["bases_ok"] = box["bases_ok"]
                out["reg_after"] = snap.addr(sys.modules.get(name))
                out["loadtime_addr"] = snap.addr(lt) if err is None else None
            except Unsupported as e:
                out["unsupported"] = str(e)
        # ---- oracle observations: identity / behaviour through the captured references, namespace
        cur = dict(vars(mod))
        ident = {}
        for n in set(captured) | set(cur):
            if n in obs_ns["LOADER_DUNDERS"]:
                continue
            if n not in cur:
                ident[n] = "deleted"
            elif n not in captured:
                ident[n] = "added"
            else:
                ident[n] = "kept" if cur[n] is captured[n] else "replaced"
        out["identity"] = ident
        out["repointed"] = sorted([n, b.__name__] for n, v in cur.items() if isinstance(v, type) and captured.get(n) is v
                                  for b in v.__bases__ if getattr(b, "__module__", None) == name and cur.get(b.__name__) is not b)
        obs_ns["_MODNAME"][0] = name
        out["via_old_refs"] = {n: obs_ns["obs_val"](v) for n, v in captured.items()
                               if n not in obs_ns["LOADER_DUNDERS"] and ident.get(n) == "kept"}
        out["after"] = obs_ns["observe"](mod)
        out["registry_is_module"] = sys.modules.get(name) is mod
        env = {"PATH": os.environ.get("PATH", "/usr/bin:/bin"), "PYTHONDONTWRITEBYTECODE": "1", "PYTHONHASHSEED": "0", "LC_ALL": "C.UTF-8"}
        if os.environ.get("PYTHONOPTIMIZE"):
            env["PYTHONOPTIMIZE"] = os.environ["PYTHONOPTIMIZE"]      # -OO strips docstrings on both sides
        p = subprocess.run([sys.executable, "-S", "-c", FRESH_CHILD], input=json.dumps({"root": root, "name": name}),
                           capture_output=True, text=True, env=env, timeout=60, cwd=root)
        line = [l for l in p.stdout.splitlines() if l.startswith("RESULT")]
        out["fresh"] = json.loads(line[0][6:]) if line else {"child_failed": p.stderr[-400:]}
        return json.loads(json.dumps(out))
    finally:
        LP.livepatch = orig_lp
        if root in sys.path:
            sys.path.remove(root)
        for k in list(sys.modules):
            if k.startswith("lpm" + tag) or k.startswith("lpk" + tag):
                del sys.modules[k]
        shutil.rmtree(root, ignore_errors=True)


# ---------------------------------------------------------------------------------------------
# model side

SPECIAL = ["__slots__", "__dict__", "__weakref__", "__doc__", "__loadtime__"]


def heap_keys(recs):
    ks = set(SPECIAL)
    for r in recs.values():
        if r[0] == "func":
            ks.add(r[1]); ks.update(r[10])
            if r[2] is not None:
                ks.add(r[2])
        elif r[0] == "class":
            ks.add(r[1])
            if r[2] is not None:
                ks.add(r[2])
            ks.update(k for k, _ in r[3])
            ks.update(r[5] or [])
        elif r[0] == "dict":
            ks.update(k for k, _ in r[1])
        elif r[0] == "inst":
            ks.update(r[3] or [])
            ks.update(k for k, _ in r[4])
    return ks


def c_obj(r, K):
    N, L = cm.cN, cm.clist
    kv = lambda l: L([cm.cpair(N(K[k]), N(a)) for k, a in l])
    if r[0] == "func":
        return "OFunc %s %s %s %s %s %s %s %s %s %s" % (N(K[r[1]]), cm.copt(r[2], lambda m: N(K[m])), N(r[3]), N(r[4]), N(r[5]),
                                                       N(r[6]), N(r[7]), N(r[8]), L([N(a) for a in r[9]]), L([N(K[k]) for k in r[10]]))
    if r[0] == "class":
        return "OClass %s %s %s %s %s" % (N(K[r[1]]), cm.copt(r[2], lambda m: N(K[m])), kv(r[3]), L([N(a) for a in r[4]]),
                                         cm.copt(r[5], lambda s: L([N(K[k]) for k in s])))
    if r[0] == "dict":
        return "ODict %s" % kv(r[1])
    if r[0] == "inst":
        return "OInst %s %s %s %s" % (N(r[1]), cm.copt(r[2], N), cm.copt(r[3], lambda s: L([N(K[k]) for k in s])), kv(r[4]))
    if r[0] == "method":
        return "OMethod %s %s" % (N(r[1]), N(r[2]))
    if r[0] == "cell":
        return "OCell %s" % N(r[1])
    if r[0] == "module":
        return "OModule %s" % N(r[1])
    if r[0] == "static":
        return "OStatic %s" % N(r[1])
    if r[0] == "classm":
        return "OClassM %s" % N(r[1])
    return "OPrim %s %s" % (N(r[1]), N(r[2]))


def c_heap(recs, K):
    return cm.clist([cm.cpair(cm.cN(int(a)), "(%s)" % c_obj(r, K)) for a, r in sorted(recs.items(), key=lambda x: int(x[0]))])


def canon_rec(r, K):
    """implementation record -> the shape printed by Wire.show_obj_ (keys as ids, assoc lists sorted)"""
    kv = lambda l: sorted([K[k], a] for k, a in l)
    if r[0] == "func":
        return ["func", K[r[1]], None if r[2] is None else K[r[2]], r[3], r[4], r[5], r[6], r[7], r[8], r[9], [K[k] for k in r[10]]]
    if r[0] == "class":
        return ["class", K[r[1]], None if r[2] is None else K[r[2]], kv(r[3]), r[4], None if r[5] is None else [K[k] for k in r[5]]]
    if r[0] == "dict":
        return ["dict", kv(r[1])]
    if r[0] == "inst":
        return ["inst", r[1], r[2], None if r[3] is None else [K[k] for k in r[3]], kv(r[4])]
    return r


def canon_model(o):
    o = list(o)
    if o[0] == "class":
        o[3] = sorted(o[3])
    elif o[0] == "dict":
        o[1] = sorted(o[1])
    elif o[0] == "inst":
        o[4] = sorted(o[4])
    return o


def model_exprs(cases, impl):
    exprs, index = [], []
    for ci, (c, im) in enumerate(zip(cases, impl)):
        if "__exc__" in im or "__timeout__" in im:
            continue
        if "decision" in im:
            d = im["decision"]
            exprs.append("run_decide false %s %s %s" % (cm.cN(d["loadtime"]), cm.cN(d["mtime"]), cm.cbool(d["same"])))
            index.append((ci, "decide", None))
            continue
        if "pre" in im and not im.get("unsupported"):
            recs = dict(im["pre"])
            if im.get("loadtime_addr") is not None and str(im["loadtime_addr"]) not in recs:
                recs[str(im["loadtime_addr"])] = ["prim", 0, 0]
            keys = heap_keys(recs) | heap_keys(im["post"]) | {im["name"]}
            K = {k: i + 1 for i, k in enumerate(sorted(keys))}
            im["_K"] = K
            h = c_heap(recs, K)
            names = "(mkNames %s %s %s %s %s)" % (tuple(cm.cN(K[k]) for k in SPECIAL[:4]) +
                                                   (cm.cN(recs[str(im["roots"][0])][1]),))
            bases = cm.clist([cm.cpair(cm.cN(a), cm.cN(b)) for a, b in im["bases_ok"]])
            reg = cm.clist([cm.cpair(cm.cN(K[im["name"]]), cm.cN(im["roots"][0]))])
            exprs.append("run_xreload %s %s %s %s %s %s %s %s %s None %s" % (
                h, reg, cm.cN(K[im["name"]]), cm.cN(im["roots"][0]), cm.cN(im["roots"][1]), bases, names,
                cm.cN(K["__loadtime__"]), cm.cN(im["loadtime_addr"] or 0), h))
            index.append((ci, "patch", None))
        if "pre_fail_heap" in im and im["fails"]:
            recs = im["pre_fail_heap"]
            keys = heap_keys(recs) | {im["name"]}
            K = {k: i + 1 for i, k in enumerate(sorted(keys))}
            im["_KF"] = K
            h = c_heap(recs, K)
            mod_addr = [int(a) for a, r in recs.items() if r[0] == "module"][0]
            names = "(mkNames %s %s %s %s 0%%N)" % tuple(cm.cN(K[k]) for k in SPECIAL[:4])
            reg = cm.clist([cm.cpair(cm.cN(K[im["name"]]), cm.cN(mod_addr))])
            fl = im["fails"][len(im["fails"]) // 2]
            exprs.append("run_xreload %s %s %s %s %s [] %s %s 0%%N (Some (%s, %s)) %s" % (
                h, reg, cm.cN(K[im["name"]]), cm.cN(mod_addr), cm.cN(999999), names, cm.cN(K["__loadtime__"]),
                cm.cnat(fl["k"]), cm.cN(fl["kind"]), h))
            index.append((ci, "rollback", mod_addr))
    return exprs, index


# ---------------------------------------------------------------------------------------------
# known-finding classifiers

def is_f20_cell_value_changed(name, case):
    """F20: name, closure length and free variables unchanged, but a closure cell holds a different plain value."""
    return expected_identity(case["od"], case["nd"]).get(name) == "f20"


def is_stale_function_cell(name, case):
    """C16-b: the function closes over a function (an 'updatable' cell type, so it keeps its identity) but the
    nested livepatch of the cell value cannot turn the old cell value into the new one (different function, or
    a function that is itself replaced); its result is ignored and the cell keeps the stale object."""
    od, nd = case["od"], case["nd"]
    if name not in od or name not in nd:
        return False
    o, w = resolve(od, name), resolve(nd, name)
    if o[0] != "func" or w[0] != "func" or not o[2] or not w[2] or o[2][0] != "func" or w[2][0] != "func":
        return False
    if o[2][2] != w[2][2] or o[2][1] is None:
        return False
    if o[2][1] != w[2][1]:
        return True
    return expected_identity(od, nd).get(o[2][1]) != "kept"


# ---------------------------------------------------------------------------------------------
# oracle

def is_gained_base_stale(cls, base, case):
    """C16-g: the class keeps its identity and GAINS a base class of the same module (not among its bases before):
    that base has no old counterpart in the class's old __bases__, so the mapping of the C16-e repair leaves the scratch
    copy in place."""
    o = case["od"].get(cls)
    old_bases = (o[1] if isinstance(o[1], (tuple, list)) else ([o[1]] if o[1] else [])) if o and o[0] == "class" else []
    return base not in old_bases


def is_base_repointed(name, im):
    return any(n == name for n, _ in im.get("repointed", []))


def _is_base_repointed_old(name, im):
    """C16-e: the class kept its identity but its __bases__ were set to the base class object of the SCRATCH module
    instead of the (patched) base class of the module: issubclass(m.B, m.A) is False after the reload."""
    return name in im.get("repointed", [])


def stale_classes(c):
    """classes whose base list names a module-level class: the patched class points at the NEW base object"""
    return {n for n, d in c["nd"].items() if d[0] == "class" and d[1]}


def oracle_case(ctx, c, im):
    if "decision" in im:
        d = im["decision"]
        if d["patched"] or not d["unchanged"]:
            ctx.violation("untouched_file_not_reloaded", c, d)
        return
    # rollback at every statement index
    for f in im["fails"]:
        ctx.bump("oracle:failure_class:" + f["expected"])
        if f["raised"] != f["expected"]:
            ctx.violation("rollback:injected_failure_not_propagated", c, f)
        elif not (f["same_graph"] and f["same_bindings"] and f["registry"]) or f["loadtime"]:
            ctx.violation("rollback", c, f)
    ctx.bump("oracle:failure_points", len(im["fails"]))
    if im["err"] is not None:
        ctx.violation("patch_total", c, "xreload raises on a successfully executing new version: %s" % im["err"])
        return
    fresh = im["fresh"]
    if "names" not in fresh:
        raise RuntimeError("fresh import failed: %r" % (fresh,))
    if not im["registry_is_module"]:
        ctx.violation("registry_entry_is_the_module", c, None)
    exp = expected_identity(c["od"], c["nd"])
    for n, want in sorted(exp.items()):
        got = im["identity"].get(n)
        if want in ("added", "deleted"):
            if got != want:
                ctx.violation("dict_shape", c, "%s: expected %s, got %s" % (n, want, got))
        elif want == "kept":
            if got != "kept":
                ctx.violation("identity_kept", c, "%s is %s although name, closure shape, slots and bases are unchanged" % (n, got))
            elif im["via_old_refs"].get(n) != fresh["names"].get(n) and \
                    classify_namespace_difference(n, im["via_old_refs"].get(n), fresh["names"].get(n), c, im):
                ctx.known_hit(classify_namespace_difference(n, im["via_old_refs"].get(n), fresh["names"].get(n), c, im).split()[0],
                              "a kept class / instance reaches a scratch copy of a same-module class (%r)" % n)
            elif im["via_old_refs"].get(n) != fresh["names"].get(n):
                ctx.violation("behaves_as_new_source", c, {"name": n, "via_old_reference": im["via_old_refs"].get(n), "fresh_import": fresh["names"].get(n)})
        elif want == "f20":
            if got != "kept":
                ctx.known_hit("F20", "a closure cell of %r holds a different plain value: the function is replaced, references captured earlier keep the old behaviour" % n)
    for n, b in im.get("repointed", []):
        if is_gained_base_stale(n, b, c):
            ctx.violation("class_bases_identity", c, "class %r keeps its identity and gains the same-module base %r: __bases__ holds the scratch copy of it (issubclass(m.%s, m.%s) is False)" % (n, b, n, b))
        else:
            ctx.violation("class_bases_identity", c, "class %r keeps its identity but the retained base %r in its __bases__ is the scratch module's copy: issubclass(m.%s, m.%s) is False" % (n, b, n, b))
    # names
    if set(im["after"]["names"]) != set(fresh["names"]):
        ctx.violation("dict_shape", c, {"after_reload": sorted(im["after"]["names"]), "fresh_import": sorted(fresh["names"])})
    # module dunders (F27)
    if im["after"]["dunders"] != fresh["dunders"]:
        ctx.violation("module_dunders", c, {"after_reload": im["after"]["dunders"], "fresh_import": fresh["dunders"]})
    # namespace observationally equal to a fresh import
    for n in sorted(set(im["after"]["names"]) & set(fresh["names"])):
        if n in c.get("split", []):
            continue          # one old object cannot become two different new ones: no claim
        a, b = im["after"]["names"][n], fresh["names"][n]
        if a != b:
            why = classify_namespace_difference(n, a, b, c, im)
            if why:
                ctx.bump("oracle:namespace_difference:" + why)
                ctx.known_hit(why.split()[0], "namespace differs from a fresh import (%s): %r" % (why, n))
            else:
                ctx.violation("namespace_equals_fresh_import", c, {"name": n, "after_reload": a, "fresh_import": b})


def classify_namespace_difference(n, a, b, c, im=None):
    if (im or {}).get("repointed"):
        return None                     # a kept class with a stale base: reported as class_bases_identity
    if is_new_object_of_scratch_class(a, b):
        return "C16-h an object created by the new source refers to the scratch copy of a class that the module keeps"
    return None


def is_new_object_of_scratch_class(a, b):
    """C16-h: the only difference to the fresh import is that a class reached from the object (its type, a base, an
    MRO entry) is not the class the module binds: objects created by the new source (new instances, replaced
    subclasses) refer to the scratch classes, while livepatch keeps the old class objects in the module.  A KEPT class
    whose RETAINED base is stale is reported separately as a class_bases_identity violation."""
    return json.loads(json.dumps(a).replace(" (NOT the class the module binds)", "")) == b


# ---------------------------------------------------------------------------------------------

def compare(ctx, cases, impl, index, model):
    got = {}
    for (ci, tag, sub), mv in zip(index, model):
        got[(ci, tag)] = (mv, sub)
    for ci, (c, im) in enumerate(zip(cases, impl)):
        if "__exc__" in im or "__timeout__" in im:
            ctx.count(c, False)
            ctx.violation("harness_worker_exception", c, im)
            continue
        ctx.bump("mode:" + c["mode"] + (":pkg" if c["pkg"] else ""))
        ctx.bump("env:" + (c.get("env") or "default") + ("+set_level:" + c["set_level"] if c.get("set_level") else ""))
        if "decision" in im:
            mv, _ = got[(ci, "decide")]
            d = im["decision"]
            real = "reload" if d["patched"] else ("older" if not d["same"] else "unchanged")
            if mv != real:
                ctx.disagreement("reload decision", c, real, mv)
            oracle_case(ctx, c, im)
            ctx.count(c, True)
            continue
        if im.get("unsupported"):
            ctx.bump("unsupported:" + im["unsupported"])
        if (ci, "patch") in got:
            mv, _ = got[(ci, "patch")]
            K = im["_K"]
            real_out = "done" if im["err"] is None else "raise"
            ctx.bump("model_outcome:" + mv["outcome"])
            ctx.bump("wf_heap:" + str(mv["wf"]).lower())
            if mv["wf"] is not True:
                ctx.disagreement("hypothesis: the snapshot heap is well-formed (Wf.wf_heap)", c, "snapshot", mv["wf"])
            if mv["outcome"] == "unsupported":
                ctx.bump("model:unsupported")
            elif mv["outcome"] != real_out:
                ctx.disagreement("xreload outcome", c, {"outcome": real_out, "err": im["err"]}, mv["outcome"])
            else:
                mh = {str(a): canon_model(o) for a, o in mv["heap"]}
                bad = []
                for a, r in im["post"].items():
                    want = canon_rec(r, K)
                    if a not in mh:
                        if a == str(im.get("loadtime_addr")):
                            continue
                        bad.append([a, want, None])
                    elif mh[a] != want and not (a == str(im.get("loadtime_addr"))):
                        bad.append([a, want, mh[a]])
                if bad:
                    ctx.disagreement("heap after livepatch", c, bad[:6], "see pairs [addr, impl, model]")
                # hypothesis of C16_module_dunders_partial: the scratch module's dict is not written by the patch
                sd = str(im["pre"][str(im["roots"][1])][1])
                if im["post"].get(sd) != im["pre"].get(sd):
                    ctx.disagreement("hypothesis: the scratch module's dict is not written during the patch", c,
                                     im["post"].get(sd), im["pre"].get(sd))
                reg = dict((k, a) for k, a in mv["registry"])
                if reg.get(K[im["name"]]) != im["reg_after"]:
                    ctx.disagreement("sys.modules entry", c, im["reg_after"], reg)
                ctx.bump("heap_objects", len(im["pre"]))
        if (ci, "rollback") in got:
            mv, mod_addr = got[(ci, "rollback")]
            KF = im["_KF"]
            reg = dict((k, a) for k, a in mv["registry"])
            mh = {str(a): canon_model(o) for a, o in mv["heap"]}
            pre = {a: canon_rec(r, KF) for a, r in im["pre_fail_heap"].items()}
            if mv["outcome"] != "raise" or reg.get(KF[im["name"]]) != mod_addr or mh != pre:
                ctx.disagreement("rollback (model)", c, "raise / registry and heap unchanged", mv["outcome"])
        oracle_case(ctx, c, im)
        nontriv = im.get("err") is None and any(v == "kept" for v in im.get("identity", {}).values())
        ctx.count(c, nontriv)
        if nontriv:
            ctx.sample({"old": c["old"], "new": c["new"], "identity": im["identity"]}, limit=2)


def run(ctx):
    n = int(os.environ.get("VERIF_C16_N", 128 if ctx.quick else 6000))
    ctx.coverage["rule"] = (
        "one case = a generated (old, new) pair of module versions (plain / closure-made / decorated / aliased "
        "functions with defaults, docs and attributes; classes with methods, static and class methods, properties, "
        "data, single inheritance, __slots__; instances incl. slotted; dicts, lists, numbers; every 4th case in a "
        "package); per case: a failure injected before every top-level statement of the new source and at its end "
        "(graph snapshot must be unchanged), then the real reload with the object graph snapshotted around the "
        "top-level livepatch call and compared object by object with the model, then identity / behaviour through "
        "references captured before the reload and the namespace against a fresh import in another interpreter; "
        "every 20th case exercises the 'file untouched' / 'text unchanged' branches; non-trivial = the reload "
        "succeeded and kept the identity of at least one object; distinct by hash of the case")
    ctx.assumptions += [
        "executing the new source is an oracle of the model (exec_result); its frame hypothesis (only fresh objects are written) is checked by the graph snapshot after every injected failure",
        "the abstract heap is a snapshot of the real object graph taken by the harness (functions, classes of the module, dicts, instances, methods, modules, static/class methods; everything else is an opaque leaf with its type and ==-class)",
        "CPython's acceptance of `oldclass.__bases__ = newclass.__bases__` is an oracle (evaluated on a clone of the old class)",
        "'observationally equal to a fresh import' is NOT proved: it is decided by this correspondence and the behavioural oracle only",
        "ids of transient objects are assumed not to be recycled into the livepatch cache / visit stack during one reload",
        "every snapshot heap satisfies the well-formedness checker Wf.wf_heap (unique addresses, stored addresses allocated, kinds consistent); evaluated in the kernel on every case",
    ]
    ctx.notes["trusted_base"] = ["harness snapshot of the CPython object graph (harness/c16.py Snap)"]
    cm.check_anchors(ctx, ANCHORS)
    n *= getattr(ctx, "scale", 1)
    cases = cm.load_corpus("C16") + gen_cases(ctx, n)
    impl = run_partitioned("c16", cases, 120)
    exprs, index = model_exprs(cases, impl)
    model = cm.coq_eval_json(REQ, exprs, shard=20)
    compare(ctx, cases, impl, index, model)
    ctx.notes["model_evaluations_in_kernel"] = len(exprs)


def replay(payload):
    case = payload.get("case") or payload["disagreements"][0]["case"]
    impl = run_partitioned("c16", [case], 120)
    exprs, index = model_exprs([case], impl)
    model = cm.coq_eval_json(REQ, exprs)
    ctx = cm.Ctx("C16", "quick", payload.get("seed", 0))
    if "__exc__" not in impl[0]:
        compare(ctx, [case], impl, index, model)
    im = impl[0]
    print(json.dumps({"old": case["old"], "new": case["new"], "err": im.get("err"), "identity": im.get("identity"),
                      "fails": im.get("fails"), "decision": im.get("decision"),
                      "oracle_violations": [[v["name"], v["detail"]] for v in ctx.violations],
                      "disagreements": [[d["name"], d["impl"], d["model"]] for d in ctx.disagreements],
                      "known": ctx.known_hits, "worker_exception": im if "__exc__" in im else None}, indent=1, default=str))
    return 0

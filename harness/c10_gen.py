"""Statement-soup generator shared by C10 and C01, and the independent CPython node oracle.

A generated module is a sequence of top-level *elements* (simple statements, `;` joins, compound
statements with nested imports / comments / blank lines, decorated and PEP 695 definitions,
multi-line strings and f-strings whose lines look like comments, backslash continuations, comment
and blank runs, form feeds, non-ASCII identifiers / literals / comments), with optional
docstring/comment prologue and optional missing final newline.  Everything is filtered through
compile(): only compilable texts are used."""
import ast
import io
import tokenize

NAMES = ["a", "b", "c", "d", "x", "y", "foo", "bar", "os", "np", "é", "ü_1"]
MODS = ["os", "sys", "os.path", "pkg", "pkg.sub", "a.b", "m", "numpy", "collections"]
NONASCII = ["é", "日本語", "ü", "→", " ", "😀"]


def name(r):
    return r.choice(NAMES)


def strlit(r, multiline=None):
    """a string literal; multi-line ones hold comment-looking, blank and code-looking lines"""
    if multiline is None:
        multiline = r.random() < .25
    body = r.choice(["", "s", "a b", "# not a comment", "import os", r.choice(NONASCII), "x; y", "it's"])
    if not multiline:
        q = r.choice(['"', "'"])
        if q in body:
            q = '"' if q == "'" else "'"
        pre = r.choice(["", "", "", "r", "b", "u"]) if body.isascii() else r.choice(["", "r"])
        return pre + q + body + q
    q = r.choice(['"""', "'''"])
    lines = [body]
    for _ in range(r.randint(1, 3)):
        lines.append(r.choice(["# foo", "", "   ", "import sys", "#", "    # indented", "x = 1; y", r.choice(NONASCII) + " # z",
                               "\\", "text \\", "@dec", "\x0c"]))
    last = r.choice(["", "# tail ", "end", "  ", "#"])
    pre = r.choice(["", "", "r"])
    return pre + q + "\n".join(lines) + "\n" + last + q


def fstring(r):
    k = r.random()
    n = name(r)
    if k < .3:
        return "f'{%s=}'" % n
    if k < .45:
        return "f'a{%s = !r:>{%s}} b {%s+1=}'" % (n, name(r), name(r))
    if k < .6:
        return 'f"%s{%s}%s"' % (r.choice(NONASCII + ["p"]), n, r.choice(NONASCII + ["q"]))
    if k < .8:
        return 'f"""%s{%s}\n# {%s}\n%s"""' % (r.choice(["", "h"]), n, name(r), r.choice(["", "# t ", "z"]))
    if k < .9:
        return '"lit" f"{%s}" %s' % (n, strlit(r, False) if r.random() < .5 else "'t'")
    return "f'{%s!r:{%s}}'" % (n, name(r))


def argmix(r, for_class=False):
    """an argument list mixing positional / starred / keyword / **kwargs arguments in an order CPython
    accepts (keyword before starred included), with string literals in every kind of position"""
    for _ in range(20):
        items = []
        for _ in range(r.randint(1, 5)):
            k = r.random()
            if k < .3:
                items.append(r.choice([name(r), strlit(r, False), "B", "1"]))
            elif k < .5:
                items.append("*" + r.choice(["bases", '[C, "s"][:1]', "(a, 'x')", name(r)]))
            elif k < .85:
                items.append("%s=%s" % (r.choice(["tag", "metaclass", "k", "sep"]), r.choice(["'t'", "M", strlit(r, False), 'f"{x}"', "1"])))
            else:
                items.append("**" + r.choice(["kw", "{'a': \"b\"}", "dict(z='q')"]))
        body = ", ".join(items)
        if r.random() < .25:
            body = body.replace(", ", ",\n    ", 1)
        src = ("class A(%s): pass\n" if for_class else "f(%s)\n") % body
        if compiles(src):
            return body
    return "B, tag='t', *mixins"


def expr(r, d=0):
    k = r.random()
    if d <= 1 and k > .95:
        return "%s(%s)" % (name(r), argmix(r))
    if d > 2 or k < .3:
        return name(r) + r.choice(["", "", ".attr", ".é"])
    if k < .4:
        return "1"
    if k < .52:
        return strlit(r)
    if k < .6:
        return fstring(r)
    if k < .7:
        return "%s(%s)" % (name(r), ", ".join(expr(r, d + 1) for _ in range(r.randint(0, 2))))
    if k < .78:
        return "(%s +\n    %s)" % (expr(r, d + 1), expr(r, d + 1))
    if k < .86:
        return "[%s,\n # inner comment\n\n %s]" % (expr(r, d + 1), expr(r, d + 1))
    if k < .92:
        return "{%s: %s}" % (strlit(r, False), expr(r, d + 1))
    return "%s if %s else %s" % (name(r), name(r), expr(r, d + 1))


def imp(r):
    k = r.random()
    mod = r.choice(MODS)
    if k < .3:
        return "import %s" % mod
    if k < .4:
        return "import %s as %s" % (mod, name(r))
    if k < .6:
        return "from %s import %s" % (mod, name(r))
    if k < .7:
        return "from %s import %s as %s, %s" % (mod, name(r), name(r), name(r))
    if k < .78:
        return "import %s, %s" % (mod, r.choice(MODS))
    if k < .88:
        return "from %s import (%s,\n    %s)" % (mod, name(r), name(r))
    if k < .93:
        return "from %s import (%s,  # why\n    # standalone\n\n    %s,\n)" % (mod, name(r), name(r))
    if k < .96:
        return "from %s import \\\n    %s" % (mod, name(r))
    if k < .98:
        return "from . import %s" % name(r)
    return "from %s import *" % mod


def simple(r, allow_import=True):
    k = r.random()
    if allow_import and k < .3:
        return imp(r)
    if k < .5:
        return "%s = %s" % (name(r), expr(r))
    if k < .6:
        return expr(r)
    if k < .66:
        return strlit(r)
    if k < .72:
        return "%s = 1 + \\\n    2" % name(r)
    if k < .76:
        return "print(%s)" % fstring(r)
    if k < .8:
        return r.choice(["pass", "del x", "assert x, 'm'", "global g", "x += 1", "x: int = 1", "type X[T] = list[T]"])
    if k < .84:
        return "%s = %s  %s" % (name(r), r.choice(["1", '"é"', "'# s'"]), comment(r))
    if k < .87:
        return "%s = 1 \\\n" % name(r)                      # continuation onto an empty line
    return "%s = %s" % (name(r), strlit(r, True))


def comment(r):
    return r.choice(["# c", "#", "# é 日本", "#!x", "# type: ignore", "#; import os", "# \\", '# """'])


def noncode(r):
    k = r.random()
    if k < .3:
        return ""
    if k < .6:
        return comment(r)
    if k < .7:
        return "    " + comment(r)
    if k < .78:
        return r.choice(["   ", "\t", " \t "])
    if k < .84:
        return "\x0c"
    if k < .9:
        return "\n"
    return comment(r) + "\n" + comment(r)


def body(r, d, ind):
    out = []
    for _ in range(r.randint(1, 3)):
        k = r.random()
        if k < .25:
            out.append(ind + imp(r).replace("\n", "\n" + ind))
        elif k < .6:
            s = simple(r, False)
            if "\n" in s and ('"""' in s or "'''" in s):
                s = "%s = 1" % name(r)
            out.append(ind + s.replace("\n", "\n" + ind).rstrip(" "))
        elif k < .7:
            out.append(r.choice([ind + comment(r), comment(r), "", ind + "  " + comment(r)]))
            out.append(ind + "pass")
        elif k < .8 and d < 2:
            out.extend(compound(r, d + 1, ind))
        else:
            out.append(ind + "%s = %s" % (name(r), "1"))
    if r.random() < .25:
        out.append(r.choice([ind + comment(r), "", comment(r)]))     # trailing comment inside / after the body
    return out


def decorator(r):
    return r.choice(["@dec", "@dec", "@ dec", "@(dec)", "@dec(1,\n     2)", "@é.ü", "@\\\ndec", "@(\n# c\ndec)", "@a.b(x)  # c", "@  pkg . d"])


def compound(r, d, ind):
    k = r.random()
    ind2 = ind + r.choice(["    ", "    ", "  ", "\t"])
    n = name(r)
    if k < .2:
        out = [ind + "if %s:" % n] + body(r, d, ind2)
        if r.random() < .4:
            out += [ind + r.choice(["else:", "elif y:"])] + body(r, d, ind2)
        return out
    if k < .4:
        hdr = []
        for _ in range(r.choice([0, 0, 1, 1, 2])):
            hdr += [ind + x for x in decorator(r).split("\n")]
            if r.random() < .15:
                hdr.append(r.choice(["", ind + "# between decorators"]))
        tp = r.choice(["", "", "[T]", "[T: int, *Ts, **P]"])
        hdr.append(ind + r.choice(["def %s%s(p, q=%s)%s:", "async def %s%s(p, *, q=%s)%s:"]) % (n, tp, expr(r, 2).replace("\n", " "), r.choice(["", " -> int"])))
        return hdr + body(r, d, ind2)
    if k < .52:
        hdr = [ind + x for x in decorator(r).split("\n")] if r.random() < .4 else []
        bases = r.choice(["", "(Base)", "(B, metaclass=M)", "(metaclass=M, *bases)", "(%s)" % argmix(r, True).replace("\n", "\n" + ind), "(%s)" % argmix(r, True).replace("\n", "\n" + ind)])
        return hdr + [ind + "class %s%s%s:" % (n.capitalize() if n.isascii() else "K", r.choice(["", "[T]"]), bases)] + body(r, d, ind2)
    if k < .62:
        return [ind + "try:"] + body(r, d, ind2) + [ind + r.choice(["except E as e:", "except (A, B):", "finally:"])] + body(r, d, ind2)
    if k < .7:
        return [ind + "for %s in %s:" % (n, name(r))] + body(r, d, ind2)
    if k < .76:
        return [ind + "with %s as %s:" % (name(r), n)] + body(r, d, ind2)
    if k < .82:
        return [ind + "while %s:" % n] + body(r, d, ind2) + ([ind + "else:"] + body(r, d, ind2) if r.random() < .3 else [])
    if k < .92:
        return [ind + r.choice(["if %s: %s = 1; %s", "while %s: %s = 2; %s", "class %s: %s = 3; %s"]) % (n, name(r), r.choice(["pass", "import os", "x = 'é'"]))]
    return [ind + "match %s:" % n, ind2 + "case {'k': v}:"] + body(r, d, ind2 + "  ") + [ind2 + "case _:"] + body(r, d, ind2 + "  ")


def tail_compound(r, ind="", depth=0):
    """a (decorated) def / async def / class whose LAST physical line(s) are the comment-looking tail
    of a triple-quoted string; also as the last statement of an enclosing def, and with 0-3 decorators"""
    ind2 = ind + r.choice(["    ", "  ", "\t"])
    n = name(r)
    hdr = []
    for _ in range(r.choice([0, 1, 1, 2, 3])):
        hdr += [ind + x for x in decorator(r).split("\n")]
    kind = r.choice(["def", "def", "async def", "class"])
    q = r.choice(['"""', "'''"])
    tail = r.choice(["# end", "#", "# tail ", "  # x", "# a\n# b", "\n# c", "# é"])
    if kind == "class":
        hdr.append(ind + "class %s%s:" % ("K" + r.choice("abc"), r.choice(["", "(B)", "[T]"])))
        last = ind2 + "%s = %s\n%s%s" % (n, q, tail, q)
    else:
        hdr.append(ind + "%s %s(p):" % (kind, n if n.isascii() else "g"))
        if depth == 0 and r.random() < .3:
            return hdr + [ind2 + "x = 1"] + tail_compound(r, ind2, 1)     # nested decorated def as last statement
        last = ind2 + r.choice(["return %s\n%s%s", "x = f%sa{p}\n%s%s", "%sdoc\n%s%s"]) % (q, tail, q)
    mid = [ind2 + r.choice(["x = 1", "pass", "# c", "import os"])] if r.random() < .5 else []
    return hdr + mid + [last]


def element(r, import_bias=.0):
    k = r.random()
    if k < .05:
        out = tail_compound(r)
        if r.random() < .4:
            out.append(r.choice([comment(r), "", "   "]))
        return out
    if k < .32 + import_bias:
        s = simple(r) if r.random() > import_bias else imp(r)
        if r.random() < .2 and not s.endswith("\n"):
            s += r.choice(["  ", " "]) + comment(r)
        return [s]
    if k < .42 + import_bias:
        parts = [simple(r) for _ in range(r.randint(2, 3))]
        parts = [p.rstrip("\n") for p in parts]
        # a "#" on the last line of a non-final part would turn the rest of the join into a comment
        parts = [p if (k == len(parts) - 1 or "#" not in p.split("\n")[-1]) else "%s = 0" % name(r) for k, p in enumerate(parts)]
        s = r.choice(["; ", ";", " ; "]).join(parts)
        if r.random() < .25:
            s += ";"
        if r.random() < .3:
            s += " " + comment(r)
        return [s]
    if k < .62 + import_bias:
        return [noncode(r) for _ in range(r.randint(1, 3))]
    if k < .9:
        return compound(r, 0, "")
    if k < .95:
        return [strlit(r, True)]
    return ["%s = (%s,  %s\n%s\n  2)" % (name(r), expr(r, 2), comment(r), comment(r))]


def prologue(r):
    k = r.random()
    out = []
    if k < .15:
        out += ["#!/usr/bin/env python", "# -*- coding: utf-8 -*-"]
    elif k < .3:
        out += [comment(r)]
    elif k < .38:
        out += ["", ""]
    if r.random() < .35:
        out += [r.choice(['""', "\'\'\'\'\'\'", '"" ""', '"""doc"""', '"""doc\n# not comment\n"""', "'''é\n\n'''", 'r"""raw"""', "'one'", '"a" "b"'])]
        if r.random() < .3:
            out += [r.choice(['"second"', comment(r), ""])]
    return out


def compiles(src):
    try:
        compile(src, "<gen>", "exec", dont_inherit=True)
        return True
    except (SyntaxError, ValueError):
        return False


def gen_module(r, max_elems=7, import_bias=.0, final_newline_p=.8):
    """A compilable module text (None if the draw did not compile)."""
    lines = prologue(r)
    for _ in range(r.randint(1, max_elems)):
        lines += element(r, import_bias)
    src = "\n".join(lines)
    if r.random() < final_newline_p:
        src += "\n"
    elif r.random() < .3:
        src += r.choice(["  ", " " + comment(r), "\n" + comment(r), "\n    " + comment(r), "\n\n\n", ";", "\n\x0c"])
    return src if compiles(src) else None


def gen_compilable(r, tries=30, **kw):
    for _ in range(tries):
        s = gen_module(r, **kw)
        if s is not None:
            return s
    return "x = 1\n"


# ---------------------------------------------------------------------------------------------
# independent node oracle (CPython ast + tokenize; nothing from pyflyby)

def char_col(line, byte_col):
    return len(line.encode("utf-8")[:byte_col].decode("utf-8", "replace"))


def logical_line_starts(src):
    """(row, col) [1-based row, 0-based char col] of every token that begins a logical line."""
    out = []
    at_start = True
    try:
        for t in tokenize.generate_tokens(io.StringIO(src).readline):
            if t.type in (tokenize.NL, tokenize.COMMENT, tokenize.INDENT, tokenize.DEDENT, tokenize.ENCODING):
                continue
            if t.type == tokenize.NEWLINE:
                at_start = True
                continue
            if at_start:
                out.append((t.start, t.string))
                at_start = False
    except (tokenize.TokenError, IndentationError, SyntaxError):
        pass
    return out


def node_kind(n):
    if isinstance(n, (ast.Import, ast.ImportFrom)):
        return "Import"
    if isinstance(n, ast.Expr) and isinstance(n.value, ast.Constant) and isinstance(n.value.value, str):
        return "StrExpr"                 # includes implicit concatenation; f-strings are JoinedStr -> Other
    if isinstance(n, ast.Expr) and isinstance(n.value, ast.Constant) and isinstance(n.value.value, bytes):
        return "BytesExpr"
    return "Other"


def dedent_by(src, margin):
    """what parsing sees of an indented block: `margin` characters removed from every non-blank line,
    whitespace-only lines emptied (own implementation, not textwrap.dedent)"""
    return "\n".join(l[margin:] if l.strip(" \t") else "" for l in src.split("\n"))


def indent_by(src, prefix):
    return "\n".join(prefix + l if l else l for l in src.split("\n"))


def nodes_of(src, sp=(1, 1), margin=0):
    if margin:
        return nodes_of_indented(src, sp, margin)
    return nodes_of_plain(src, sp)


def nodes_of_indented(src, sp, margin):
    """node oracle for an indented block: positions of the dedented text shifted back by the margin; a
    top-level statement that is the first thing on its line starts at the line's beginning (its piece
    carries the indentation)"""
    tree, nodes = nodes_of_plain(dedent_by(src, margin), sp)
    l0, c0 = sp
    for n in nodes:
        first_col = c0 if n["start"][0] == l0 else 1
        if n["start"][1] != first_col:
            n["start"][1] += margin
        n["end"][1] += margin
    return tree, nodes


def nodes_of_plain(src, sp=(1, 1)):
    """Top-level nodes of `src` placed at start position sp: list of dicts
       start=[l,c] (character column, 1-based, "@" of the first decorator), end=[l,c], last=absolute
       last line, kind, raw=[lineno, col_offset] (CPython's own numbers, to match nodes up)."""
    tree = ast.parse(src)
    lines = src.split("\n")
    starts = None
    out = []
    l0, c0 = sp

    def place(lineno, ccol):
        return [l0 + lineno - 1, (c0 if lineno == 1 else 1) + ccol]
    for n in tree.body:
        lineno, ccol = n.lineno, char_col(lines[n.lineno - 1], n.col_offset)
        if getattr(n, "decorator_list", None):
            d = n.decorator_list[0]
            dpos = (d.lineno, char_col(lines[d.lineno - 1], d.col_offset))
            if starts is None:
                starts = logical_line_starts(src)
            cands = [p for p, s in starts if s == "@" and p <= dpos]
            if cands:
                lineno, ccol = cands[-1]
        out.append({"start": place(lineno, ccol),
                    "end": place(n.end_lineno, char_col(lines[n.end_lineno - 1], n.end_col_offset)),
                    "last": l0 + n.end_lineno - 1,
                    "kind": node_kind(n), "raw": [n.lineno, n.col_offset], "type": type(n).__name__})
    return tree, out

"""C13 - the interactive hooks are fail-safe.

Correspondence: one real TerminalIPythonApp per case, the extension loaded, then interactions (run a cell,
inspect a name, complete a global / an attribute, %run, %prun) during which one pyflyby function per fault
site is replaced by a stub raising a chosen exception class; the cell's result, error, captured stdout,
user_ns delta and completer matches, and the auto-importer's full state after every interaction, against
Interactive/SafeCall.v (absorbed / escapes, withdrawn or not) and against a pyflyby-free shell.
Oracle: the property restated on the observations alone."""
import json

from . import common as cm
from . import c14

REQ = c14.REQ

SITES = ["SNamespaces", "SScopeStack", "SAnalysis", "SParse", "SDbLoad", "STryImport", "SCompletion"]
# sites the property quantifies over (database load, parse, scope analysis, import execution, completion lookup)
QUANTIFIED = ["SScopeStack", "SAnalysis", "SParse", "SDbLoad", "STryImport", "SCompletion", "SNeedsImport", "SModuleList"]
EXC_CLASSES = ["ValueError", "OSError", "KeyError", "AssertionError", "ImportError", "RuntimeError", "TypeError",
               "AttributeError", "ZeroDivisionError", "CustomError", "MemoryError", "RecursionError", "NameError"]
BASE_CLASSES = ["KeyboardInterrupt", "SystemExit", "GeneratorExit", "CustomBase"]

RUN_IMPORT = {"op": "cell", "act": "run", "text": "zz_v = b64decode('aGk=')\ndel b64decode", "names": [["ok", "b64decode"]], "del": True}
RUN_PLAIN = {"op": "cell", "act": "run", "text": "zz_w = 41 + 1\nzz_w", "names": [], "del": False}
RUN_BAD = {"op": "cell", "act": "run", "text": "zz_b = badname", "names": [["bad", "badname"]], "del": False}
RUN_UNKNOWN = {"op": "cell", "act": "run", "text": "zz_u = zz_unknown", "names": [["unk", "zz_unknown"]], "del": False}
RUN_TWO = {"op": "cell", "act": "run", "text": "zz_t = (b64decode('aGk='), zzmod_ok.attr_a)\ndel b64decode, zzmod_ok",
           "names": [["ok", "b64decode"], ["ok", "zzmod_ok"]], "del": True}
INSPECT = {"op": "cell", "act": "inspect", "text": "b64decode", "names": [["ok", "b64decode"]], "del": False}
INSPECT_UNKNOWN = {"op": "cell", "act": "inspect", "text": "zz_unknown", "names": [["unk", "zz_unknown"]], "del": False}
CGLOBAL = {"op": "cell", "act": "cglobal", "text": "b64d", "names": [], "del": False}
CGLOBAL_USER = {"op": "cell", "act": "cglobal", "text": "zz_", "names": [], "del": False}
CATTR = {"op": "cell", "act": "cattr", "text": "zzmod_ok.att", "names": [["ok", "zzmod_ok"]], "del": False}
RUNFILE = {"op": "cell", "act": "runfile", "text": "", "names": [["ok", "b64decode"]], "del": True}
PRUN = {"op": "cell", "act": "prun", "text": "%prun -q zz_p = b64decode('aGk='); del b64decode", "names": [["ok", "b64decode"]], "del": True}
# stdin is at EOF: ipdb prints its prompt and quits before the statement runs; the auto-import has happened by then
DEBUGSTMT = {"op": "cell", "act": "debugstmt", "text": "%debug zz_d = b64decode('aGk=')", "names": [["ok", "b64decode"]], "del": False}
# a module in the current directory (needs '' on sys.path)
RUN_CWD = {"op": "cell", "act": "run", "text": "import sys\nsys.modules.pop('zzcwd_mod', None)\nimport zzcwd_mod\nzz_c = zzcwd_mod.val\nzz_c",
           "names": [], "del": False}
# completing an attribute of a module whose import raises
CATTR_BAD = {"op": "cell", "act": "cattr", "text": "zzmod_bad.ba", "names": [["bad", "zzmod_bad"]], "del": False}


# a name living in several namespaces at once: the user rebinds a builtin; inspection must find the user's
RUN_SHADOW = {"op": "cell", "act": "run", "text": "oct = 5\nzz_sh = oct + 1\nzz_sh", "names": [], "del": False}
INSPECT_SHADOW = {"op": "cell", "act": "inspect", "text": "oct", "names": [], "del": False}
INSPECT_BUILTIN = {"op": "cell", "act": "inspect", "text": "hex", "names": [], "del": False}
PINFO_SHADOW = {"op": "cell", "act": "run", "text": "oct?", "names": [], "del": False}


def stmt(text, names=(), dele=False):
    return {"op": "cell", "act": "run", "text": text, "names": [list(n) for n in names], "del": dele}


# statement kinds whose analysis touches the user's AST in special ways; each cell is self-contained
STMT_CELLS = [
    stmt("zz_a = 1\nzz_a += 2\nzz_a"),                                                        # augmented assignment: name
    stmt("class ZzC: pass\nzz_o = ZzC()\nzz_o.v = 1\nzz_o.v += 4\nzz_o.v"),                     # ... attribute
    stmt("zz_l = [1, 2]\nzz_l[0] += 5\nzz_l[0] *= 2\nzz_l"),                                   # ... subscript
    stmt("zz_h = 1\nzz_h += len(b64decode('aGk='))\ndel b64decode\nzz_h", [("ok", "b64decode")], True),
    stmt("zz_n: int = 3\nzz_m: 'str'\nzz_n"),                                                 # annotated assignment
    stmt("zz_w = [zz_y := 10, zz_y + 1]\nzz_w"),                                              # walrus
    stmt("zz_t = 0\nfor zz_i, (zz_j, zz_k) in enumerate([(1, 2), (3, 4)]):\n    zz_t += zz_i * zz_j + zz_k\nzz_t"),
    stmt("import io\nwith io.StringIO('x') as zz_f, io.StringIO('y') as zz_g:\n    zz_r = zz_f.read() + zz_g.read()\nzz_r"),
    stmt("try:\n    1 / 0\nexcept ZeroDivisionError as zz_e:\n    zz_m = type(zz_e).__name__\nzz_m"),
    stmt("def zz_dec(f):\n    return f\n@zz_dec\ndef zz_fn(a, b=2, *c, d=4, **e):\n    return a + b + d\nzz_fn(1)"),
    stmt("class ZzK(object):\n    a = 1\n    b = a + 1\n    def m(self):\n        return ZzK.b\nZzK().m()"),
    stmt("zz_v = 7\nzz_s = f'{zz_v!r:>4}|{zz_v + 1}'\nzz_s"),                                   # f-string
    stmt("zz_gl = 0\ndef zz_g():\n    global zz_gl\n    zz_gl = 5\n    zz_gl += 1\nzz_g()\nzz_gl"),   # global
    stmt("zz_d = {k: v for k, v in [(1, 2)]}\nzz_q = [x for x in range(3) if x]\nzz_d[1] += zz_q[0]\nzz_d"),
    stmt("zz_x = zz_z = 2\nzz_x, *zz_rest = [1, 2, 3]\nzz_x += zz_z\ndel zz_z\nzz_x, zz_rest"),
    stmt("lambda zz_p, zz_b=1: zz_p + zz_b\nzz_u = (lambda q: q * 2)(4)\nzz_u -= 1\nzz_u"),
]

HEALTHY = [RUN_CWD, CATTR_BAD, RUN_SHADOW, INSPECT_SHADOW, INSPECT_BUILTIN, PINFO_SHADOW] + STMT_CELLS + [RUN_IMPORT, RUN_PLAIN, RUN_BAD, RUN_UNKNOWN, RUN_TWO, INSPECT, INSPECT_UNKNOWN, CGLOBAL, CGLOBAL_USER, CATTR, RUNFILE, PRUN, DEBUGSTMT]
TARGETS = [RUN_IMPORT, RUN_TWO, RUN_PLAIN, INSPECT, CGLOBAL, CATTR, RUNFILE, PRUN, DEBUGSTMT]
RUNFILE_TEXT = "zz_r = b64decode('aGk=')\ndel b64decode\n"


def with_faults(cell, faults):
    c = dict(cell)
    c["faults"] = [list(f) for f in faults]
    return c


# exception objects that are awkward to print / construct (all subclasses of Exception)
AWKWARD = ["StrRaises", "ReprRaises", "UnprintableArgs", "NeedsArgs", "OSErrorErrno", "UnicodeDecodeError"]
IN_SAFE_CALL = ["SScopeStack", "SAnalysis", "SDbLoad", "STryImport", "SCompletion", "SParse"]
FOLLOW = [RUN_IMPORT, CGLOBAL_USER, INSPECT]


def mk(kind, ops, level="INFO", **kw):
    c = {"kind": kind, "level": level, "jedi": False, "bad_exc": "ValueError", "runfile_text": RUNFILE_TEXT, "ops": ops}
    c.update(kw)
    return c


def gen_core():
    """log level {INFO, DEBUG} x the cell / inspect / completion hooks x every fault site, one Exception class each
    (rotating, the awkward ones included at INFO outside the prelude): always run, also in quick"""
    cases = []
    k = 0
    for level in ("INFO", "DEBUG"):
        for tgt in (RUN_IMPORT, INSPECT, CGLOBAL, CATTR):
            for site in SITES:
                pool = EXC_CLASSES + (AWKWARD if (level == "INFO" and site != "SNamespaces") else [])
                cls = pool[k % len(pool)]
                k += 1
                cases.append(mk("core", [{"op": "LoadExt"}, RUN_PLAIN, with_faults(tgt, [[site, cls]])] + FOLLOW, level))
    return cases


def gen_episodes():
    """two consecutive episodes: an internal error, %reload_ext, another internal error at a different site"""
    cases = []
    for level in ("INFO", "DEBUG"):
        for a, b, c1, c2 in (("SAnalysis", "SDbLoad", "KeyError", "OSErrorErrno" if level == "INFO" else "OSError"),
                             ("SScopeStack", "STryImport", "TypeError", "RuntimeError")):
            cases.append(mk("episodes", [{"op": "LoadExt"}, with_faults(RUN_IMPORT, [[a, c1]]), RUN_IMPORT, {"op": "ReloadExt"},
                                         with_faults(RUN_TWO, [[b, c2]]), RUN_IMPORT, CGLOBAL_USER, {"op": "ReloadExt"}, RUN_IMPORT],
                            level))
    return cases


def gen_awkward():
    """exceptions whose str()/repr() raises, with unprintable arguments, with a required-argument __init__,
    OSError with errno, UnicodeDecodeError - at sites inside _safe_call / the hooks' own guards"""
    cases = []
    k = 0
    for cls in AWKWARD:
        for tgt in (RUN_IMPORT, INSPECT, CGLOBAL, RUNFILE):
            site = IN_SAFE_CALL[k % len(IN_SAFE_CALL)]
            k += 1
            cases.append(mk("awkward", [{"op": "LoadExt"}, with_faults(tgt, [[site, cls]])] + FOLLOW))
    return cases


def runfile_script(script):
    return {"op": "cell", "act": "runfile", "text": "", "names": [], "del": False, "script": script}


NATURAL_SCRIPTS = ["latin1", "bom", "badutf8", "syntaxerr"]


def gen_natural():
    """%run of scripts that make pyflyby's own read / parse fail without any stub: a valid latin-1 script with a
    coding cookie (pyflyby reads UTF-8: UnicodeDecodeError), a UTF-8 BOM (pyflyby: SyntaxError), invalid UTF-8,
    a syntax error; alone, under a second armed stub, and at DEBUG"""
    cases = []
    for i, sc in enumerate(NATURAL_SCRIPTS):
        cases.append(mk("natural", [{"op": "LoadExt"}, runfile_script(sc), RUN_IMPORT, CGLOBAL_USER]))
        extra = [["SAnalysis", "ValueError"], ["SParse", "KeyError"], ["SDbLoad", "CustomBase"], ["SScopeStack", "OSError"]][i]
        cases.append(mk("natural", [{"op": "LoadExt"}, with_faults(runfile_script(sc), [extra]), RUN_IMPORT, INSPECT],
                        "DEBUG" if i % 2 else "INFO"))
    return cases


def gen_stmt():
    """statement kinds (augmented assignment to names / attributes / subscripts, annotated assignment, walrus, for /
    with / except targets, decorators, class bodies, f-strings, global, comprehensions, starred targets, lambdas)
    under a stub on symbol_needs_import armed from its k-th call on (k = 1..4): the fault lands in the middle of
    the analysis of the user's AST (reported to the model as SAnalysis) or in auto_import_symbol (SNeedsImport);
    what the cell then does must be what a pyflyby-free shell does"""
    cases = []
    n = 0
    for ci, cell in enumerate(STMT_CELLS):
        for k in ((ci % 2) + 1, (ci % 2) + 3):
            cls = (EXC_CLASSES + AWKWARD)[n % (len(EXC_CLASSES) + len(AWKWARD))]
            n += 1
            cases.append(mk("stmt", [{"op": "LoadExt"}, with_faults(cell, [["SNeedsImport", cls, k]]), cell, RUN_IMPORT]))
    return cases


def gen_stmt_full():
    cases = []
    n = 0
    for cell in STMT_CELLS:
        for k in range(1, 9):
            for cls in (EXC_CLASSES[n % len(EXC_CLASSES)], "SyntaxError"):
                cases.append(mk("stmt", [{"op": "LoadExt"}, with_faults(cell, [["SNeedsImport", cls, k]]), cell, RUN_IMPORT]))
            n += 1
    return cases


def gen_finder():
    """natural fault sources of completion: a sys.path entry whose finder cannot enumerate its modules
    (ModuleHandle.list() raises OSError inside _safe_call), then a cell importing from the current directory;
    a module whose import raises while its attributes are completed"""
    cases = []
    for level in ("INFO", "DEBUG"):
        cases.append(mk("finder", [{"op": "LoadExt"}, RUN_CWD, CGLOBAL, RUN_CWD, RUN_IMPORT, {"op": "ReloadExt"}, CGLOBAL_USER, RUN_CWD],
                        level, bad_finder=True))
    cases.append(mk("finder", [{"op": "LoadExt"}, CATTR, CGLOBAL, CATTR, RUN_CWD, INSPECT], bad_finder=True))
    for bad in ("ValueError", "ImportError", "CustomError", "KeyboardInterrupt"):
        cases.append(mk("finder", [{"op": "LoadExt"}, CATTR_BAD, RUN_CWD, CGLOBAL_USER, RUN_BAD], bad_exc=bad))
    return cases


def gen_shadow():
    """inspection (_ofind, `name?`) of names bound in more than one namespace - a builtin rebound by the user -
    healthy, after a withdrawal, and with a stub firing in the inspection itself: found / namespace / object must
    be the pyflyby-free shell's (the hook hands its namespace list to IPython's original _ofind)"""
    return [
        mk("shadow", [{"op": "LoadExt"}, INSPECT_SHADOW, RUN_SHADOW, INSPECT_SHADOW, PINFO_SHADOW, INSPECT_BUILTIN, INSPECT, RUN_IMPORT]),
        mk("shadow", [{"op": "LoadExt"}, RUN_SHADOW, with_faults(INSPECT_SHADOW, [["SAnalysis", "KeyError"]]), INSPECT_SHADOW, PINFO_SHADOW]),
        mk("shadow", [{"op": "Enable"}, RUN_SHADOW, with_faults(INSPECT_SHADOW, [["SScopeStack", "SyntaxError"]]), INSPECT_SHADOW,
                      {"op": "Disable"}, INSPECT_SHADOW], "DEBUG"),
    ]


# ("err:closed" was finding F37 - logging.Handler.handleError only tolerates OSError, a closed sys.stderr gives
#  ValueError, which left every pyflyby logger call; repaired by fixes/C13-F37-emit-never-raises.diff)
# AST transformers of the user's own, before and after pyflyby's ("+100" then pyflyby then "negate": 5 -> -105)
USER_AST_ADD = {"op": "UserAst", "how": "add100"}
USER_AST_NEG = {"op": "UserAst", "how": "negate"}
RUN_FIVE = {"op": "cell", "act": "run", "text": "5", "names": [], "del": False}
RUN_FIVE_IMPORT = {"op": "cell", "act": "run", "text": "zz_n = len(b64decode('aGk=')) + 5\ndel b64decode\nzz_n", "names": [["ok", "b64decode"]], "del": True}


def gen_foreign():
    """the user's own AST transformers in ip.ast_transformers, registered before and after pyflyby's: every cell must
    go through all of them exactly as in the pyflyby-free shell - also the cell during which pyflyby hits an internal
    error and withdraws from inside its own transformer"""
    cases = []
    k = 0
    for pre, post in (([], [USER_AST_NEG]), ([USER_AST_ADD], [USER_AST_NEG]), ([USER_AST_ADD], []), ([], [USER_AST_NEG, USER_AST_ADD])):
        for cell in (RUN_FIVE, RUN_FIVE_IMPORT):
            site = ["SScopeStack", "SAnalysis", "SDbLoad", "STryImport"][k % 4] if cell is RUN_FIVE_IMPORT else ["SScopeStack", "SAnalysis"][k % 2]
            cls = EXC_CLASSES[k % len(EXC_CLASSES)]
            k += 1
            cases.append(mk("foreign", pre + [{"op": "LoadExt"}] + post + [cell, with_faults(cell, [[site, cls]]), cell, RUN_IMPORT]))
    cases.append(mk("foreign", [{"op": "LoadExt"}, USER_AST_NEG, with_faults(RUN_FIVE, [["SNamespaces", "KeyError"]]), RUN_FIVE]))
    cases.append(mk("foreign", [USER_AST_ADD, {"op": "LoadExt"}, USER_AST_NEG, RUN_FIVE, {"op": "ReloadExt"}, with_faults(RUN_FIVE, [["SScopeStack", "OSError"]]),
                                RUN_FIVE, {"op": "UnloadExt"}, RUN_FIVE], "DEBUG"))
    return cases


STDIO = ["out:flush", "out:closed", "out:none", "err:flush", "err:none", "err:closed"]


def gen_stdio():
    """the user's standard streams are awkward objects while pyflyby logs: stdout / stderr replaced by an object whose
    flush() raises, by a closed file, by None; healthy auto-imports (pyflyby logs the import) and internal errors
    (pyflyby logs the error), compared with the pyflyby-free shell under the same replacement"""
    cases = []
    k = 0
    for kind in STDIO:
        if kind in ("out:none", "err:none", "out:closed"):
            # IPython.s own run_cell and error display do not work with such a stream: inspection and completion only
            cases.append(mk("stdio", [{"op": "LoadExt"}, INSPECT, with_faults(INSPECT, [["SAnalysis", "KeyError"]]), CGLOBAL, CATTR], stdio=kind))
            cases.append(mk("stdio", [{"op": "LoadExt"}, CATTR, with_faults(CGLOBAL, [["SDbLoad", "OSError"]]), INSPECT, CGLOBAL_USER], stdio=kind))
            continue
        for tgt in (RUN_IMPORT, INSPECT, CGLOBAL):
            site = IN_SAFE_CALL[k % len(IN_SAFE_CALL)]
            cls = [c for c in EXC_CLASSES if c not in ("ValueError", "OSError")][k % (len(EXC_CLASSES) - 2)]
            k += 1
            cases.append(mk("stdio", [{"op": "LoadExt"}, tgt, with_faults(tgt, [[site, cls]]), RUN_IMPORT, CGLOBAL_USER], stdio=kind,
                            bad_exc="CustomError"))
        cases.append(mk("stdio", [{"op": "LoadExt"}, RUN_BAD, RUN_TWO, CATTR, RUN_PLAIN], stdio=kind, bad_exc="CustomError"))
    return cases


def gen_matrix(levels=("INFO",)):
    """every hook x fault site x {an Exception subclass (rotating), SyntaxError, a BaseException (rotating)}"""
    cases = []
    k = 0
    for level in levels:
        for tgt in TARGETS:
            for site in SITES:
                classes = [EXC_CLASSES[k % len(EXC_CLASSES)], "SyntaxError", BASE_CLASSES[k % len(BASE_CLASSES)]]
                k += 1
                for cls in classes:
                    cases.append(mk("matrix", [{"op": "LoadExt"}, RUN_PLAIN, with_faults(tgt, [[site, cls]])] + FOLLOW, level))
    return cases


def gen_random(ctx, n):
    cases = []
    healthy = HEALTHY + [runfile_script(sc) for sc in NATURAL_SCRIPTS]
    for i in range(n):
        r = cm.rng(ctx.seed, "c13", i)
        level = r.choice(["INFO", "INFO", "INFO", "ERROR", "WARNING", "DEBUG", "DEBUG"])
        ops = [{"op": r.choice(["LoadExt", "LoadExt", "LoadFn", "Enable"])}]
        for _ in range(r.randint(2, 6)):
            cell = r.choice(healthy)
            p = r.random()
            if p < .45:
                nf = 1 if r.random() < .8 else 2
                faults = []
                for s in r.sample(SITES, nf):
                    q = r.random()
                    pool = EXC_CLASSES + (AWKWARD if (level != "DEBUG" and s != "SNamespaces") else [])
                    cls = (r.choice(pool) if q < .7 else "SyntaxError" if q < .8 else r.choice(BASE_CLASSES))
                    faults.append([s, cls])
                cell = with_faults(cell, faults)
            elif p < .5:
                ops.append({"op": r.choice(["LoadExt", "ReloadExt", "Enable", "Disable", "LoadFn", "UnloadExt"])})
                continue
            ops.append(cell)
        bad = r.choice(["ValueError", "ImportError", "ZeroDivisionError", "CustomError", "KeyboardInterrupt", "SystemExit", "CustomBase"]
                       if r.random() < .5 else ["ValueError"])
        for o in ops:
            if o.get("faults") and r.random() < .3 and len(o.get("names", [])) <= 1:
                o["faults"] = [f for f in o["faults"] if f[0] != "SNeedsImport"] + \
                              [["SNeedsImport", r.choice(EXC_CLASSES + ["SyntaxError"]), r.randint(1, 6)]]
        stdio = r.choice(["out:flush", "err:flush", "err:closed"]) if r.random() < .2 and level != "DEBUG" else None
        if stdio == "err:closed" and any(f[0] == "SNamespaces" for o in ops for f in o.get("faults", [])):
            # [IPython] an exception leaving an AST transformer is reported with warnings.warn(), which raises ValueError
            # on a closed sys.stderr before IPython unregisters the transformer (modelled: io_stderr_closed) - but only
            # the first time: Python's warning registry suppresses the repeated warning, and then IPython does
            # unregister it.  IPython's / the warnings module's own behaviour in a configuration outside the property
            # (fault in the prelude): single occurrences are modelled, repeated ones are not generated.
            stdio = "err:flush"
        cases.append(mk("random", ops, level, jedi=r.random() < .1, bad_exc=bad, i=i, bad_finder=r.random() < .15, stdio=stdio))
    return cases


def impl_case(case):
    return c14.impl_case(case)


# ---------------------------------------------------------------------------------------------
# oracle

def absorbed_expected(case, o):
    """the property promises absorption for Exception subclasses at the quantified sites, outside debug mode"""
    if case.get("level") == "DEBUG" and o.get("act") != "run":
        return False      # raise_on_error="if_debug" re-raises by design; the AST transformer passes raise_on_error=False
    for f in o.get("faults", []):
        s, e = f[0], f[1]
        if s not in QUANTIFIED or e in BASE_CLASSES:
            return False
    if case.get("bad_exc") in BASE_CLASSES and any(k == "bad" for k, _ in o.get("names", [])):
        return False
    return True


def oracle(case, impl, ref):
    bad = []
    tr = impl["trace"]
    s0 = tr[0]["snap"]
    withdrawn_at = None
    in_domain = True          # no out-of-domain fault (prelude site, BaseException, debug mode) so far
    for k, (o, ent) in enumerate(zip(case["ops"], tr[1:]), 1):
        s = ent["snap"]
        if o["op"] != "cell":
            if s["st"] == "ENABLED":
                withdrawn_at = None
            continue
        c = ent["cell"]
        rc = ref["trace"][k]["cell"] if ref and "trace" in ref else None
        dom = absorbed_expected(case, o)
        in_domain = in_domain and dom
        if not in_domain:
            continue
        natural = bool(c.get("natural_parse")) or (s["errored"] and not tr[k - 1]["snap"]["errored"])
        hit = sum(c.get("hits", {}).values()) > 0 or natural
        # (1) no pyflyby exception reaches the shell
        if "escaped" in c:
            bad.append(("result_is_original", "step %d (%s, faults %r): %s escaped the hook: %s"
                        % (k, o["act"], o.get("faults"), c["escaped"], c.get("escaped_msg"))))
            continue
        # (2) the interaction gives what plain IPython gives (names successfully auto-imported apart)
        if rc is not None and o["act"] == "inspect" and (c.get("result"), c.get("inspect")) != (rc.get("result"), rc.get("inspect")):
            bad.append(("result_is_original", "step %d (inspect %r, faults %r): _ofind gives %r, in a pyflyby-free shell %r"
                        % (k, o["text"], o.get("faults"), [c.get("result"), c.get("inspect")], [rc.get("result"), rc.get("inspect")])))
        if rc is not None and o["act"] == "run" and o["text"].endswith("?") and c.get("stdout") != rc.get("stdout"):
            bad.append(("result_is_original", "step %d (%r): the inspection prints %r, in a pyflyby-free shell %r"
                        % (k, o["text"], c.get("stdout", "")[-300:], rc.get("stdout", "")[-300:])))
        if rc is not None and (hit or tr[k - 1]["snap"]["st"] == "DISABLED"):
            stub = sum(c.get("hits", {}).values()) > 0
            fields = ("result", "error", "ns_added", "ns_removed") + (("matches",) if stub else ("stdout", "matches"))
            for f in fields:
                if c.get(f) != rc.get(f):
                    bad.append(("result_is_original", "step %d (%s, faults %r): %s is %r, a pyflyby-free shell gives %r"
                                % (k, o["act"], o.get("faults"), f, c.get(f), rc.get(f))))
                    break
        # (2b) ... and leaves the process-global state (sys.path, sys.meta_path, cwd, environment, builtins, logging
        #      handlers) as the pyflyby-free shell's interaction leaves it
        if rc is not None and c.get("globals_delta") != rc.get("globals_delta"):
            bad.append(("result_is_original", "step %d (%s, faults %r): process-global state changed: %r, in a pyflyby-free "
                        "shell: %r" % (k, o["act"], o.get("faults"), c.get("globals_delta"), rc.get("globals_delta"))))
        # (2c) a problem of the user's own file is not an internal error: %run of a script pyflyby cannot read or parse
        #      (no stub involved) leaves the importer as it was
        if c.get("natural_parse") and not sum(c.get("hits", {}).values()) and not c.get("natural_db") \
           and s["errored"] and not tr[k - 1]["snap"]["errored"]:
            bad.append(("user_file_problem_is_not_internal_error", "step %d (%%run of a script on which pyflyby's own read/parse "
                        "raises %s): the importer withdrew (state %s, errored)" % (k, c["natural_parse"][0], s["st"])))
        # (3) after an internal error the importer has withdrawn; later interactions run no pyflyby code
        before = tr[k - 1]["snap"]
        if before["st"] == "DISABLED" and before["errored"] and c["pf_calls"] > 0:
            bad.append(("withdraws", "step %d (%s): %d calls into pyflyby (first: %r) although the importer had withdrawn"
                        % (k, o["act"], c["pf_calls"], c.get("pf_first"))))
        if s["errored"]:
            if s["st"] != "DISABLED" or s["disablers"]:
                bad.append(("withdraws", "step %d: errored but state %s with %d disablers" % (k, s["st"], len(s["disablers"]))))
            for f in ("slots", "eff", "ast", "cleanup"):
                got, want = (c14.without_user(s), c14.without_user(s0)) if f == "ast" else (s[f], s0[f])
                if got != want:
                    bad.append(("withdraws", "step %d: errored and withdrawn but %s is %r, initially %r" % (k, f, got, want)))
                    break
    return bad


def is_F36(case, clause, detail):
    """known finding F36: an internal error inside auto_eval during an attribute completion is swallowed by
    complete_symbol's `except Exception: return []` - the completions are empty instead of IPython's own"""
    if clause != "result_is_original" or "(cattr," not in detail or "matches is []" not in detail:
        return False
    for o in case["ops"]:
        if o.get("act") == "cattr" and o.get("faults") and repr(o["faults"]) in detail:
            return all(s in ("SParse", "SAnalysis", "STryImport") for s, _ in o["faults"])
    return False


CLASSIFIERS = {"is_F36": is_F36}


# ---------------------------------------------------------------------------------------------

def evaluate(ctx, cases, results):
    exprs, idx = [], []
    for ci, (c, r) in enumerate(zip(cases, results)):
        if "__exc__" in r or "__timeout__" in r or "__child_error__" in r or "__child_error__" in r.get("impl", {}):
            continue
        exprs.append(c14.model_expr(c, r["impl"], c14.FIXED))
        idx.append(ci)
    model = cm.coq_eval_json(REQ, exprs, shard=40)
    mtr = dict(zip(idx, model))
    legacy = []
    for ci, (c, r) in enumerate(zip(cases, results)):
        if ci not in mtr:
            ctx.violation("harness", c, {"error": r})
            ctx.count(c, False)
            continue
        impl, ref = r["impl"], r["ref"]
        a, b = c14.canon_impl(impl, c), c14.canon_model(mtr[ci], c)
        d = c14.first_diff(a, b)
        if d:
            ctx.disagreement("session trace under faults", c, d["impl"], dict(model=d["model"], step=d["step"], fields=d["fields"]))
            legacy.append(ci)
        for clause, detail in oracle(c, impl, ref):
            hit = [k for k in ctx.open_findings() if CLASSIFIERS.get(k.get("classifier"), lambda *a: False)(c, clause, detail)]
            if hit:
                ctx.known_hit(hit[0]["id"], hit[0]["what"][:120] + ": " + detail[:160])
            else:
                ctx.violation(clause, c, detail)
        nf = sum(1 for o in c["ops"] if o.get("faults"))
        hits = sum(sum(e["cell"].get("hits", {}).values()) for e in impl["trace"][1:] if "cell" in e)
        ctx.count(c, hits > 0)
        ctx.bump("faulted_cells=%d" % nf)
        for o in c["ops"]:
            for f in o.get("faults", []):
                s, e = f[0], f[1]
                ctx.bump("site:" + s)
                ctx.bump("class:" + ("SyntaxError" if e == "SyntaxError" else "Base" if e in BASE_CLASSES else "Exception"))
                ctx.bump("hook:" + o["act"])
        if any(e["snap"]["errored"] for e in impl["trace"]):
            ctx.bump("withdrawn")
        if any("escaped" in e.get("cell", {}) for e in impl["trace"]):
            ctx.bump("escaped")
        ctx.bump("level:" + c.get("level", "INFO"))
        ctx.sample({"ops": [o["op"] if o["op"] != "cell" else [o["act"], o.get("faults", [])] for o in c["ops"]],
                    "states": [[e["snap"]["st"], e["snap"]["errored"]] for e in impl["trace"]]}, limit=3)
    if legacy:
        lex = [c14.model_expr(cases[ci], results[ci]["impl"], c14.LEGACY) for ci in legacy]
        for ci, m in zip(legacy, cm.coq_eval_json(REQ, lex, shard=40)):
            if c14.first_diff(c14.canon_impl(results[ci]["impl"], cases[ci]), c14.canon_model(m, cases[ci])) is None:
                ctx.bump("matches_model_of_unrepaired_code")
    ctx.notes["model_evaluations_in_kernel"] = len(exprs)


ANCHORS = c14.ANCHORS + [
    "pyflyby._interactive:AutoImporter.auto_import", "pyflyby._interactive:AutoImporter.complete_symbol",
    "pyflyby._interactive:complete_symbol", "pyflyby._interactive:get_global_namespaces",
    "pyflyby._interactive:InterceptPrintsDuringPromptCtx", "pyflyby._log:_PyflybyHandler.HookCtx",
    "pyflyby._log:_PyflybyHandler.emit", "pyflyby._autoimp:auto_import", "pyflyby._autoimp:auto_import_symbol",
    "pyflyby._autoimp:_try_import", "pyflyby._autoimp:find_missing_imports", "pyflyby._autoimp:symbol_needs_import",
    "pyflyby._modules:ModuleHandle.list", "pyflyby._util:ExcludeImplicitCwdFromPathCtx",
    "pyflyby._interactive:_ipython_namespaces", "pyflyby._importdb:ImportDB.get_default"]


def run(ctx):
    cm.check_anchors(ctx, ANCHORS)
    ctx.coverage["rule"] = ("always (also quick): log level {INFO, DEBUG} x {cell, inspect, complete global, complete attribute} x 7 "
                            "fault sites; two-episode sessions with %reload_ext in between at both levels; exceptions whose str()/"
                            "repr() raises, with unprintable arguments, required-argument __init__, OSError with errno, "
                            "UnicodeDecodeError x 4 hooks; %run of scripts that make pyflyby's own read/parse fail (latin-1 with "
                            "coding cookie, BOM, invalid UTF-8, syntax error); 16 statement kinds (augmented assignment to name/attribute/"
                            "subscript, annotated assignment, walrus, for/with/except targets, decorators, class bodies, f-strings, "
                            "global, comprehensions, starred targets, lambdas) under a stub on symbol_needs_import armed from its k-th "
                            "call on; a sys.path entry whose finder cannot enumerate its modules, then a cell importing from the current "
                            "directory; completing attributes of a module whose import raises; process-global state (sys.path, "
                            "sys.meta_path, cwd, environ, builtins, logging handlers) compared after every interaction; then the fault matrix: every hook (run-cell one and two names, plain cell, inspect, complete global, complete "
                            "attribute, %run, %prun) x every fault site (7 stubs) x {an Exception subclass (rotating over 13), "
                            "SyntaxError, a BaseException (rotating over 4)}, each followed by three healthy interactions; "
                            "+ random sessions of 2-6 interactions with 0-2 armed stubs each, failing known imports of several "
                            "classes, log levels INFO/WARNING/ERROR/DEBUG; non-trivial = a stub fired")
    ctx.assumptions += [
        "IPython 9.17 itself (what run_cell does with an exception leaving an AST transformer, which hooks an interaction reaches) is modelled, not verified",
        "a fault = the named pyflyby function raises on every call while the interaction runs (stub armed per interaction)",
        "the import database and the modules (one importable, one raising at import) are written by the harness",
    ]
    ctx.notes["trusted_base"] = ["IPython 9.17.1 as the environment of the hooks (modelled, not verified)"]
    always = gen_core() + gen_episodes() + gen_awkward() + gen_natural() + gen_stmt() + gen_finder() + gen_shadow() + gen_stdio() + gen_foreign()
    matrix = gen_matrix() if ctx.quick else gen_matrix(("INFO", "DEBUG")) + gen_stmt_full()
    if ctx.quick:
        r = cm.rng(ctx.seed, "c13-matrix")
        matrix = r.sample(matrix, min(len(matrix), 30 * ctx.scale))
    witness = [dict(w["witness"], kind="witness") for w in ctx.open_findings() if w.get("witness")]
    cases = cm.load_corpus("C13") + witness + always + matrix + gen_random(ctx, (24 if ctx.quick else 300) * ctx.scale)
    for i, c in enumerate(cases):
        c["i"] = i
    results = cm.run_impl("c13", "impl_case", cases, timeout_case=300)
    evaluate(ctx, cases, results)


def replay(payload):
    case = payload.get("case") or payload["disagreements"][0]["case"]
    results = cm.run_impl("c13", "impl_case", [case], jobs=1, timeout_case=300)
    r = results[0]
    impl = r.get("impl", r)
    m = cm.coq_eval_json(REQ, [c14.model_expr(case, impl, c14.FIXED)])[0] if "trace" in impl else None
    print(json.dumps({"case": case,
                      "impl": c14.canon_impl(impl, case) if "trace" in impl else impl,
                      "cells": [e.get("cell") for e in impl.get("trace", [])],
                      "ref_cells": [e.get("cell") for e in (r.get("ref") or {}).get("trace", [])],
                      "model": c14.canon_model(m, case) if m else None,
                      "oracle": oracle(case, impl, r.get("ref")) if "trace" in impl else None}, indent=1))
    return 0

"""Shared by harness/c03.py and harness/c04.py: generators of layout-rich modules and databases, the
implementation-side capture of pyflyby._imports2s (open mode of DESIGN 3.6: block decomposition, per-block
rendering, analysis result and database answers are taken from the very run), the Gallina expressions for
Tidy/Wire.v and the model-vs-implementation comparison."""
import json
import os
import re

from . import common as cm

REQ = ["Tidy.Blocks", "Tidy.Fix", "Tidy.Wire"]

# the Python functions Tidy/Blocks.v and Tidy/Fix.v transcribe
ANCHORS = [
    "pyflyby._imports2s:SourceToSourceImportBlockTransformation.pretty_print",
    "pyflyby._imports2s:SourceToSourceFileImportsTransformation.preprocess",
    "pyflyby._imports2s:SourceToSourceFileImportsTransformation.pretty_print",
    "pyflyby._imports2s:SourceToSourceFileImportsTransformation._ends_with_line_continuation",
    "pyflyby._imports2s:SourceToSourceFileImportsTransformation.find_import_block_by_lineno",
    "pyflyby._imports2s:SourceToSourceFileImportsTransformation.remove_import",
    "pyflyby._imports2s:SourceToSourceFileImportsTransformation._import_block_precedes_line",
    "pyflyby._imports2s:SourceToSourceFileImportsTransformation.select_import_block_by_closest_prefix_match",
    "pyflyby._imports2s:SourceToSourceFileImportsTransformation.insert_new_blocks_after_comments",
    "pyflyby._imports2s:SourceToSourceFileImportsTransformation.insert_new_import_block",
    "pyflyby._imports2s:SourceToSourceFileImportsTransformation.add_import",
    "pyflyby._imports2s:reformat_import_statements",
    "pyflyby._imports2s:fix_unused_and_missing_imports",
    "pyflyby._imports2s:remove_broken_imports",
    "pyflyby._imports2s:replace_star_imports",
    "pyflyby._imports2s:transform_imports",
    "pyflyby._importclns:ImportSet._from_imports",
    "pyflyby._importclns:ImportSet.with_imports",
    "pyflyby._importclns:ImportSet.without_imports",
    "pyflyby._importclns:ImportSet.by_import_as",
    "pyflyby._importclns:ImportSet.conflicting_imports",
    "pyflyby._importstmt:Import.split",
    "pyflyby._importstmt:Import.prefix_match",
]

# ---------------------------------------------------------------------------------------------
# generators (statement soup after design-notes/spikes/gen.py, layout after fuzz_s2s.py)

NAMES = ['a', 'b', 'c', 'd', 'e', 'f', 'g', 'm', 'n', 'pkg', 'os']
ATTRS = ['x', 'y', 'sub', 'a', 'b']
LONGMOD = "very_long_package_name_" + "a" * 30 + ".sub_" + "b" * 34 + ".ccc"


def name(r):
    return r.choice(NAMES)


def dotted(r):
    s = name(r)
    for _ in range(r.choice([0, 0, 0, 1, 1, 2])):
        s += '.' + r.choice(ATTRS)
    return s


def expr(r, d=0):
    k = r.random()
    if d > 2 or k < 0.35:
        return dotted(r)
    if k < 0.45:
        return '%s(%s)' % (expr(r, d + 1), ', '.join(expr(r, d + 1) for _ in range(r.randint(0, 2))))
    if k < 0.55:
        return '(%s + %s)' % (expr(r, d + 1), expr(r, d + 1))
    if k < 0.62:
        return '(lambda %s: %s)' % (params(r, d + 1), expr(r, d + 1))
    if k < 0.72:
        t = name(r)
        return '[%s for %s in %s%s]' % (expr(r, d + 1), t, expr(r, d + 1), (' if ' + expr(r, d + 1)) if r.random() < .3 else '')
    if k < 0.77:
        t = name(r)
        return '{%s: %s for %s in %s}' % (expr(r, d + 1), expr(r, d + 1), t, expr(r, d + 1))
    if k < 0.86:
        return '{%s for %s in %s}' % (expr(r, d + 1), name(r), expr(r, d + 1))
    if k < 0.9:
        return '[%s, %s]' % (expr(r, d + 1), expr(r, d + 1))
    if k < 0.94:
        return '%s[%s]' % (expr(r, d + 1), expr(r, d + 1))
    return '1'


def params(r, d):
    ps, used = [], set()
    for _ in range(r.randint(0, 3)):
        p = name(r)
        if p not in used:
            used.add(p)
            ps.append(p)
    out, seen_default = [], False
    for p in ps:
        if seen_default or r.random() < 0.3:
            out.append('%s=%s' % (p, expr(r, d + 1)))
            seen_default = True
        else:
            out.append(p)
    return ', '.join(out)


def target(r):
    k = r.random()
    if k < 0.7:
        return name(r)
    if k < 0.85:
        return '%s, %s' % (name(r), name(r))
    return dotted(r)


def imp(r):
    k = r.random()
    if k < 0.02:                       # the module __future__ imported like any other module (no compiler directive)
        return r.choice(["import __future__", "import __future__ as ft"])
    mod = r.choice(['pkg', 'os', 'm', 'pkg.sub', 'os.path', 'a.b', 'keyword', 'keyword'] + ([LONGMOD] if r.random() < .15 else [])
                   + (['IPython', 'PIL.Image', '_priv', '__a', 'Zmod', 'A0.b'] if r.random() < .3 else []))
    if k < 0.4:
        return 'import %s' % mod
    if k < 0.55:
        return 'import %s as %s' % (mod, name(r))
    if k < 0.85:
        return 'from %s import %s' % (mod, name(r))
    if k < 0.95:
        return 'from %s import %s as %s' % (mod, name(r), name(r))
    if k < 0.98:
        return 'import %s, %s' % (mod, r.choice(['m', 'n']))
    return 'from %s import *' % mod


def stmts(r, d, ind):
    out = []
    for _ in range(r.randint(1, 4 if d else 7)):
        out += stmt(r, d, ind)
    return out


def stmt(r, d, ind):
    k = r.random()
    p = '    ' * ind
    if d > 2:
        k = k * 0.55
    if k < 0.2:
        return [p + expr(r)]
    if k < 0.38:
        return [p + '%s = %s' % (target(r), expr(r))]
    if k < 0.55:
        return [p + imp(r)]
    if k < 0.65:
        deco = [p + '@' + dotted(r)] if r.random() < 0.2 else []
        return deco + [p + 'def %s(%s):' % (name(r), params(r, d))] + stmts(r, d + 1, ind + 1)
    if k < 0.73:
        bases = ('(%s)' % dotted(r)) if r.random() < 0.3 else ''
        return [p + 'class %s%s:' % (name(r).upper(), bases)] + stmts(r, d + 1, ind + 1)
    if k < 0.79:
        return [p + 'for %s in %s:' % (name(r), expr(r))] + stmts(r, d + 1, ind + 1)
    if k < 0.84:
        o = [p + 'if %s:' % expr(r)] + stmts(r, d + 1, ind + 1)
        if r.random() < 0.4:
            o += [p + 'else:'] + stmts(r, d + 1, ind + 1)
        return o
    if k < 0.88:
        return [p + 'while %s:' % expr(r)] + stmts(r, d + 1, ind + 1)
    if k < 0.92:
        return [p + 'with %s as %s:' % (expr(r), name(r))] + stmts(r, d + 1, ind + 1)
    if k < 0.96:
        return [p + 'try:'] + stmts(r, d + 1, ind + 1) + [p + 'except %s as %s:' % (dotted(r), name(r))] + stmts(r, d + 1, ind + 1)
    if k < 0.985:
        return [p + 'del %s' % dotted(r)]
    return [p + 'pass']


# non-ASCII material: 2-, 3- and 4-byte UTF-8 characters; identifiers with combining marks (Devanagari, Thai),
# U+00B7 (Other_ID_Continue), U+2118 (Other_ID_Start), NFKC-normalising forms (ligature fi, full-width letters)
UNI_IDS = ["\u0928\u093e\u092e", "\u0e0a\u0e37\u0e48\u0e2d", "paral\u00b7lel", "\u2118x", "\ufb01le", "\uff46\uff55\uff4c\uff4c",
           "\u00e9t\u00e9", "\u65e5\u672c", "\U0001d4b3y"]
UNI_STR = ["\u65e5\u672c\u8a9e", "\u20ac", "\u201cq\u201d", "\U0001f600", "\U0001d4b3", "\u00e9", "\u0928\u093e\u092e \U0001f600 \u20ac"]


def uni_line(r):
    """a top-level line (or two) with non-ASCII text in front of `;`-joined imports, in trailing comments, in
    decorators, as variable / attribute / module / missing names"""
    u, v, s = r.choice(UNI_IDS), r.choice(UNI_IDS), r.choice(UNI_STR)
    k = r.randint(0, 13)
    if k == 0:
        return 's = "%s"; import os; print(os, s)' % s
    if k == 1:
        return '%s = "%s"; %s' % (u, s, imp(r))
    if k == 2:
        return '%s  # %s' % (imp(r), s)
    if k == 3:
        return 'x = 1  # %s\n%s' % (s, imp(r))
    if k == 4:
        return '@%s.deco("%s")\ndef %s(): pass' % (u, s, v)
    if k == 5:
        return '"%s"; import %s; %s.%s' % (s, u, u, v)
    if k == 6:
        return '%s.%s = "%s"; from %s import %s' % (u, v, s, r.choice(["pkg", "m", u]), v)
    if k == 7:
        return 'import %s' % u
    if k == 8:
        return 'from %s import %s as %s' % (r.choice(["pkg", u]), v, r.choice([v, u, name(r)]))
    if k == 9:
        return 'print(%s.%s, "%s")' % (u, v, s)
    if k == 10:
        return '# %s\n%s; %s = 1  # %s' % (s, imp(r), u, s)
    if k == 11:
        return "%s = \'\'\'%s\n# %s\n\'\'\'; import %s" % (name(r), s, s, r.choice(["os", u]))
    if k == 12:
        return '@%s("%s")  # %s\nclass %s: pass' % (name(r), s, s, v)
    return 'import %s.%s as %s; %s' % (u, v, name(r), u)


def layout(r, uni=False):
    """top-level source with rich layout: docstring/comment prologues, `;` joins, trailing comments, imports after
    code, imports sharing a line with other statements, prologue-only files, missing final newline, long names"""
    lines = []
    k = r.random()
    if k < 0.25:
        lines.append('"""doc\n# not comment\n"""')
    elif k < 0.35:
        lines.append("# leading comment")
    elif k < 0.42:
        lines += ["#!/usr/bin/python", "", "'one'", "# c"]
    elif k < 0.47:
        lines += ['"""doc"""', '"second string"']
    elif k < 0.54:
        lines += ["from __future__ import %s" % r.choice(["division", "annotations", "print_function"])]
        if r.random() < .5:                                # other imports in the same block as the __future__ import
            lines += [imp(r) for _ in range(r.randint(1, 2))]
    elif k < 0.56:
        lines += [r.choice(["b'bytes first'", "# c\nb'x'", "b'x'\n'y'"])]
    elif k < 0.62:
        # empty / whitespace-only docstrings: ast.get_docstring gives '' (or blanks), not None
        lines += [r.choice(['""', "\'\'\'\'\'\'", '"   "', '"" ""', 'r""', "u\'\'", '"""\n"""', '# c\n""', '""  # trailing',
                            '"" \'\' """"""', '"\\\n"'])]
        if r.random() < .6:                                    # no import block in front of the first use: a new block is created
            lines.append(r.choice(["os.x", "n.y", "a", "x = 1", "c.z; d"]))
    if r.random() < 0.04:                                  # prologue-only file
        src = '\n'.join(lines)
        return src + ('\n' if r.random() < .7 else '')
    for _ in range(r.randint(1, 8)):
        k = r.random()
        if uni and r.random() < .4:
            lines.append(uni_line(r))
            continue
        if k < 0.35:
            for s in [imp(r) for _ in range(r.randint(1, 3))]:
                if r.random() < 0.15:
                    s += "  # trailing"
                if r.random() < 0.1 and s.startswith('from') and ' as ' not in s and '*' not in s:
                    mod, names = s.split(' import ')
                    s = "%s import (%s,\n    %s)" % (mod, names.split('  #')[0], name(r))
                lines.append(s)
        elif k < 0.47:
            a = r.choice([imp(r), name(r) + ' = 1', expr(r)])
            b = r.choice([imp(r), expr(r), imp(r)])
            lines.append("%s; %s" % (a, b))
            if r.random() < .25:
                lines += ["if %s:" % name(r), "    pass"]
        elif k < 0.55:
            lines.append(r.choice(["", "# comment", "    # indented comment", "", "\n", "'bare string'"]))
        elif k < 0.60:
            lines.append("%s = '''multi\n# hash inside\nline'''  # tail" % name(r))
        elif k < 0.67:
            un = "import zq_unused%d" % len(lines)               # an import nothing reads: tidy / remove_broken empty the block
            lines.append(r.choice(["%s = 1; \\\n%s" % (name(r), un), "    # c \\\n%s" % un, "%s = 1  # c \\\n%s" % (name(r), un),
                                   '%s = "#"; \\\n%s' % (name(r), un), "%s = \'\'\'a\n# not a comment\'\'\'; \\\n%s" % (name(r), un),
                                   "# \\\n%s" % un, '%s = "e"  # \\\n%s' % (name(r), un)]))
        elif k < 0.69:
            lines.append(r.choice(["%s = 1 + \\\n    2" % name(r), "%s = 1; \\\n%s" % (name(r), imp(r)),
                                   "%s  # type: int" % expr(r), "%s = [1]  # type: %s" % (name(r), dotted(r))]))
        else:
            lines += stmt(r, 1, 0)
    src = '\n'.join(lines)
    if r.random() < 0.85:
        src += '\n'
    return src


DBS = [
    "",
    "import os\nimport pkg\nfrom m import a, b\nimport numpy as n\n",
    "from m import a\nfrom n import a\nimport c\n__mandatory_imports__=['from __future__ import division']\n",
    "import d, e, f, g\n__mandatory_imports__=['import os']\n",
    "import pkg.sub\nimport a.b\nfrom pkg import sub as f\nimport pkg.sub as g\nfrom m import c\n"
    "__mandatory_imports__=['from __future__ import division', 'import os']\n",
    "from pkg import e\nimport e\nfrom m import d\nfrom %s import b\n"
    "__mandatory_imports__=['from __future__ import annotations', 'from __future__ import division']\n" % LONGMOD,
    "from m import c\nimport os\n__mandatory_imports__=['import numpy as n']\n",
]

PARAMS = [None, {"align_imports": False}, {"align_imports": 32, "from_spaces": 3},
          {"max_line_length": 40}, {"separate_from_imports": False, "from_spaces": 3},
          {"separate_from_imports": False, "align_future": True}, {"separate_from_imports": False, "align_future": False, "align_imports": [32]},
          {"align_future": True}]


def gen_flags(r):
    return {"add_missing": r.random() < .8, "remove_unused": r.choice([True, True, True, False, "AUTOMATIC"]),
            "add_mandatory": r.random() < .8}


def compilable(src):
    import warnings
    try:
        with warnings.catch_warnings():
            warnings.simplefilter("ignore")
            compile(src, "<gen>", "exec", dont_inherit=True)
        return True
    except (SyntaxError, ValueError):
        return False


def gen_layout_src(r, uni=False):
    for _ in range(50):
        src = layout(r, uni)
        if compilable(src) and (uni or src.isascii()):
            return src
    return "x = 1\n"


DB_UNI = ("import \u0928\u093e\u092e\nfrom m import paral\u00b7lel\nimport \u2118x\nfrom \u0e0a\u0e37\u0e48\u0e2d import \ufb01le\n"
          "from m import \u65e5\u672c\nfrom n import \u65e5\u672c\nimport os\nfrom pkg import \uff46\uff55\uff4c\uff4c\n"
          "__mandatory_imports__=['from __future__ import division']\n")


# ---------------------------------------------------------------------------------------------
# implementation side

def _imp(i):
    return [i.fullname, i.import_as]


class Capture:
    """Wraps the four seams of _imports2s for the duration of one tool call."""

    def __init__(self):
        self.snaps = []         # (transformer, snapshot) per preprocess() of a file transformation
        self.scan = None
        self.adds = []
        self.renders = []
        self.conts = []         # (text, verdict) of every _ends_with_line_continuation call
        self.ids = {}
        self._sel = None

    def block_id(self, b):
        if id(b) not in self.ids:
            self.ids[id(b)] = 1 + max(self.ids.values(), default=0)
        return self.ids[id(b)]

    def snapshot(self, tr, fresh_ids):
        import pyflyby._imports2s as S
        from pyflyby._importstmt import ImportStatement
        if fresh_ids:
            self.ids = {}
            self._keep = list(tr.blocks)
        out = []
        for b in tr.blocks:
            if isinstance(b, S.SourceToSourceImportBlockTransformation):
                inp = b.input
                ordered = []
                try:
                    for s in inp.statements:
                        if s.is_import:
                            ordered += [_imp(i) for i in ImportStatement(s).imports]
                except Exception:
                    ordered = None
                out.append({"k": "I", "id": self.block_id(b), "start": inp.startpos.lineno, "col": inp.startpos.colno,
                            "end": inp.endpos.lineno, "endcol": inp.endpos.colno,
                            "endnl": inp.text.joined.endswith("\n"), "text": inp.text.joined,
                            "imports": [_imp(i) for i in b.importset.imports], "ordered": ordered})
            else:
                sts = []
                for s in b.input.statements:
                    if s.is_comment_or_blank:
                        kind = "B"
                    elif s.is_comment_or_blank_or_string_literal:
                        from pyflyby._parse import _ast_str_literal_value
                        kind = "S" if isinstance(_ast_str_literal_value(s.ast_node), str) else "Y"
                    else:
                        kind = "C"
                    sts.append([kind, s.block.text.joined])
                o = b._output
                out.append({"k": "O", "stmts": sts, "text": b.input.text.joined,
                            "out": None if o is b.input else o.text.joined})
        return out

    def __enter__(self):
        import pyflyby._imports2s as S
        import pyflyby._importclns as C
        cap = self
        self._orig = (S.SourceToSourceFileImportsTransformation.preprocess, S.scan_for_import_issues,
                      S.SourceToSourceFileImportsTransformation.add_import,
                      S.SourceToSourceFileImportsTransformation.select_import_block_by_closest_prefix_match,
                      S.SourceToSourceFileImportsTransformation.insert_new_import_block,
                      C.ImportSet.pretty_print)
        o_pre, o_scan, o_add, o_sel, o_ins, o_pp = self._orig
        self._o_cont = S.SourceToSourceFileImportsTransformation.__dict__.get("_ends_with_line_continuation")
        if self._o_cont is not None:
            o_cont = self._o_cont.__func__

            def cont(text):
                from pyflyby._file import FileText
                res = o_cont(text)
                cap.conts.append([str(FileText(text).joined), bool(res)])
                return res
            S.SourceToSourceFileImportsTransformation._ends_with_line_continuation = staticmethod(cont)

        def pre(self_):
            o_pre(self_)
            cap.snaps.append((self_, cap.snapshot(self_, True), self_.input.text.joined))

        def scan(*a, **k):
            m, u = o_scan(*a, **k)
            cap.scan = {"missing": [[l, str(d.name)] for l, d in m],
                        "unused": [[l, _imp(i)] for l, i in (u or [])],
                        "find_unused": bool(k.get("find_unused_imports", True))}
            return m, u

        def sel(self_, imp_, max_lineno):
            b = o_sel(self_, imp_, max_lineno)
            cap._sel = ("old", b)
            return b

        def ins(self_):
            b = o_ins(self_)
            cap._sel = ("new", b)
            return b

        def add(self_, imp_, lineno=None, *a):
            from pyflyby._util import Inf
            ln = Inf if lineno is None else lineno
            rec = [_imp(imp_), None if ln is Inf else int(ln)]
            cap._sel = None
            try:
                o_add(self_, imp_, ln)
            except BaseException as e:
                rec.append([{"ImportAlreadyExistsError": "exists", "ImportConflictError": "refused"}.get(type(e).__name__, type(e).__name__)])
                cap.adds.append(rec)
                raise
            how, b = cap._sel
            rec.append(["added", cap.block_id(b), how == "new"])
            cap.adds.append(rec)

        def pp(self_, params=None, allow_conflicts=False):
            res = o_pp(self_, params=params, allow_conflicts=allow_conflicts)
            if not allow_conflicts:
                cap.renders.append([[_imp(i) for i in self_.imports], str(res)])
            return res

        S.SourceToSourceFileImportsTransformation.preprocess = pre
        S.scan_for_import_issues = scan
        S.SourceToSourceFileImportsTransformation.add_import = add
        S.SourceToSourceFileImportsTransformation.select_import_block_by_closest_prefix_match = sel
        S.SourceToSourceFileImportsTransformation.insert_new_import_block = ins
        C.ImportSet.pretty_print = pp
        return self

    def __exit__(self, *exc):
        import pyflyby._imports2s as S
        import pyflyby._importclns as C
        (S.SourceToSourceFileImportsTransformation.preprocess, S.scan_for_import_issues,
         S.SourceToSourceFileImportsTransformation.add_import,
         S.SourceToSourceFileImportsTransformation.select_import_block_by_closest_prefix_match,
         S.SourceToSourceFileImportsTransformation.insert_new_import_block,
         C.ImportSet.pretty_print) = self._orig
        if self._o_cont is not None:
            S.SourceToSourceFileImportsTransformation._ends_with_line_continuation = self._o_cont
        return False


def _params(p):
    from pyflyby._importstmt import ImportFormatParams
    return ImportFormatParams(**p) if p else None


def _quiet():
    import logging
    logging.getLogger("pyflyby").setLevel(logging.CRITICAL)


def make_db(c):
    """The database of a case: the text given to ImportDB(...), or - when the case carries "dbroot" (a directory
    tree materialised by the caller, PYFLYBY_PATH set) - whatever ImportDB.get_default finds for the target file,
    i.e. the way the tool itself obtains it."""
    from pyflyby._importdb import ImportDB
    if c.get("dbroot"):
        from pyflyby._file import Filename
        return ImportDB.get_default(Filename(c["filename"]))
    return ImportDB(c.get("db", ""))


def run_tool(kind, src, dbtext, flags, params, tmap=None, filename=None, dbobj=None):
    """One call of a rewriter; returns {"out": text} or {"exc": class name}."""
    from pyflyby._parse import PythonBlock
    from pyflyby._importdb import ImportDB
    import pyflyby._imports2s as S
    _quiet()
    block = PythonBlock(src, filename=filename) if filename else PythonBlock(src)
    p = _params(params)
    try:
        if kind == "tidy":
            out = S.fix_unused_and_missing_imports(block, db=(dbobj if dbobj is not None else ImportDB(dbtext)), params=p, **flags)
        elif kind == "reformat":
            out = S.reformat_import_statements(block, params=p)
        elif kind == "star":
            out = S.replace_star_imports(block, params=p)
        elif kind == "broken":
            out = S.remove_broken_imports(block, params=p)
        elif kind == "transform":
            out = S.transform_imports(block, dict(tmap), params=p)
        else:
            raise ValueError(kind)
        return {"out": out.text.joined}
    except Exception as e:
        return {"exc": type(e).__name__, "msg": str(e)[:200]}


def attrs_of(pairs):
    """Import.split-derived attributes (environment-side check of Blocks.is_star / is_future / member_is_star)."""
    from pyflyby._importstmt import Import
    out = []
    for f, a in pairs:
        i = Import.from_parts(f, a)
        try:
            sp = i.split
            out.append([f, a, i.import_as == "*", sp.module_name == "__future__", sp.member_name == "*"])
        except Exception:
            out.append([f, a, None, None, None])
    return out


def impl_case(c):
    """Run one rewriter with every seam captured."""
    from pyflyby._importdb import ImportDB
    from pyflyby._importstmt import Import
    kind = c["kind"]
    res = {"kind": kind}
    flags = dict(c.get("flags") or {})
    dbobj = make_db(c) if kind == "tidy" else None
    with Capture() as cap:
        r = run_tool(kind, c["src"], c.get("db", ""), flags, c.get("params"), c.get("tmap"), c.get("filename"), dbobj=dbobj)
    res.update(r)
    res["renders"] = cap.renders
    res["conts"] = cap.conts
    res["snaps"] = [{"blocks": s, "text": t} for _, s, t in cap.snaps]
    res["scan"] = cap.scan
    res["adds"] = cap.adds
    if cap.snaps:
        tr = cap.snaps[-1][0]
        import pyflyby._imports2s as S
        ib = [b for b in tr.blocks if isinstance(b, S.SourceToSourceImportBlockTransformation)]
        res["import_blocks_alias_order"] = [id(b) for b in ib] == [id(b) for b in tr.import_blocks]
        res["final_blocks"] = [{"id": cap.block_id(b), "imports": [_imp(i) for i in b.importset.imports]} for b in ib]
    allimps = set()
    for s in res["snaps"]:
        for b in s["blocks"]:
            if b["k"] == "I":
                allimps.update(map(tuple, b["imports"]))
                allimps.update(map(tuple, b["ordered"] or []))
    if kind == "tidy":
        db = dbobj
        known = {}
        for _, nm in (cap.scan or {}).get("missing", []):
            h = nm.split(".")[0]
            known[h] = [_imp(i) for i in db.known_imports.by_import_as.get(h, ())]
        res["known"] = sorted(known.items())
        res["mandatory"] = [_imp(i) for i in db.mandatory_imports.imports]
        for v in known.values():
            allimps.update(map(tuple, v))
        allimps.update(map(tuple, res["mandatory"]))
    elif kind == "star" and res["snaps"]:
        from pyflyby._modules import ModuleHandle
        exports = []
        for b in res["snaps"][0]["blocks"]:
            if b["k"] == "I":
                for f, a in b["ordered"] or []:
                    i = Import.from_parts(f, a)
                    if i.split.member_name == "*" and not i.split.module_name.startswith("."):
                        try:
                            ex = ModuleHandle(i.split.module_name).exports
                        except Exception:
                            ex = None
                        if ex:
                            exports.append([[f, a], [_imp(x) for x in ex]])
                            allimps.update(tuple(_imp(x)) for x in ex)
        res["exports"] = exports
    elif kind == "broken" and res["snaps"]:
        broken = []
        for b in res["snaps"][0]["blocks"]:
            if b["k"] == "I":
                for f, a in b["imports"]:
                    try:
                        exec(Import.from_parts(f, a).pretty_print(), {})
                    except Exception:
                        broken.append([f, a])
        res["broken"] = broken
    elif kind == "transform" and res["snaps"]:
        tmap = [list(x) for x in c["tmap"]]
        tr_, tb_ = [], []
        for b in res["snaps"][0]["blocks"]:
            if b["k"] == "I":
                for f, a in b["imports"]:
                    i = Import.from_parts(f, a)
                    for k, v in tmap:
                        i = i.replace(k, v)
                    tr_.append([[f, a], _imp(i)])
                    allimps.add(tuple(_imp(i)))
            else:
                s = b["text"]
                for k, v in tmap:
                    s = re.sub("\\b%s\\b" % (re.escape(k)), v, s)
                tb_.append([b["text"], s])
        res["tr"], res["tb"] = tr_, tb_
    res["attrs"] = attrs_of(sorted(allimps))
    return res


# ---------------------------------------------------------------------------------------------
# model side: Gallina terms

def c_imp(p):
    f, a = p
    return "(mkImp %s %s)" % (cm.clist([cm.cstr(x) for x in f.split(".")]), cm.cstr(a))


def c_imps(l):
    return cm.clist([c_imp(p) for p in l])


def c_block(b):
    if b["k"] == "I":
        return "(Imps (mkIB %s %s %s %s %s %s))" % (cm.cnat(b["id"]), cm.cnat(b["start"]), cm.cbool(b["col"] == 1),
                                                   cm.cnat(b["end"]), cm.cbool(b["endcol"] == 1), c_imps(b["imports"]))
    kinds = {"B": "KBlank", "S": "KString", "Y": "KBytes", "C": "KCode"}
    return "(Other %s %s)" % (cm.clist(["(mkStmt %s %s)" % (kinds[k], cm.cstr(t)) for k, t in b["stmts"]]),
                              cm.copt(b["out"], cm.cstr))


def c_blocks(bs):
    return cm.clist([c_block(b) for b in bs])


def c_tbl(renders):
    seen, out = set(), []
    for imps, text in renders:
        key = (tuple(sorted(map(tuple, imps))), text)
        if key not in seen:
            seen.add(key)
            out.append(cm.cpair(c_imps(imps), cm.cstr(text)))
    return cm.clist(out)


def c_flags(fl, find_unused):
    return "(mkFlags %s %s %s)" % (cm.cbool(fl.get("add_missing", True)), cm.cbool(find_unused),
                                   cm.cbool(fl.get("add_mandatory", True)))


def really_continued(text):
    """the rule of _ends_with_line_continuation, restated: the text ends with backslash-newline and, reading it with
    the tokenizer, no comment ends on its last physical line"""
    import io
    import tokenize
    if not text.endswith("\\\n"):
        return False
    last = text.count("\n")
    try:
        for tok in tokenize.generate_tokens(io.StringIO(text).readline):
            if tok.type == tokenize.COMMENT and tok.end[0] == last:
                return False
    except (tokenize.TokenError, SyntaxError, IndentationError):
        pass
    return True


def c_commented(im):
    """texts ending in backslash-newline after which the implementation's tokenizer found a comment on the last line"""
    return cm.clist([cm.cstr(t) for t in sorted({t for t, v in im.get("conts") or [] if t.endswith("\\\n") and not v})])


def model_expr(c, im, cfg="repaired"):
    """The Wire.v call for one captured run, or None when the run cannot be modelled (nothing captured)."""
    cfg = "%s %s" % (cfg, c_commented(im))
    kind = c["kind"]
    snaps = im.get("snaps") or []
    if not snaps:
        return None
    tbl = c_tbl(im["renders"])
    b0 = c_blocks(snaps[0]["blocks"])
    if kind == "reformat":
        return "run_reformat %s %s %s" % (cfg, tbl, b0)
    if kind == "tidy":
        if len(snaps) < 2 or im.get("scan") is None:
            return "run_reformat %s %s %s" % (cfg, tbl, b0)      # died in the first pass
        sc = im["scan"]
        ms = cm.clist([cm.cpair(cm.cnat(l), cm.cstr(n)) for l, n in sc["missing"]])
        us = cm.clist([cm.cpair(cm.cnat(l), c_imp(i)) for l, i in sc["unused"]])
        known = cm.clist([cm.cpair(cm.cstr(k), c_imps(v)) for k, v in im["known"]])
        return "run_tidy %s %s %s %s %s %s %s %s %s" % (cfg, c_flags(c.get("flags") or {}, sc["find_unused"]), tbl, b0,
                                                        c_blocks(snaps[1]["blocks"]), ms, us, known, c_imps(im["mandatory"]))
    if kind == "star":
        ordered = cm.clist([cm.cpair(cm.cnat(b["id"]), c_imps(b["ordered"] or [])) for b in snaps[0]["blocks"] if b["k"] == "I"])
        exports = cm.clist([cm.cpair(c_imp(i), c_imps(l)) for i, l in im.get("exports", [])])
        return "run_star %s %s %s %s %s" % (cfg, tbl, b0, ordered, exports)
    if kind == "broken":
        return "run_broken %s %s %s %s" % (cfg, tbl, b0, c_imps(im.get("broken", [])))
    if kind == "transform":
        tr = cm.clist([cm.cpair(c_imp(a), c_imp(b)) for a, b in im.get("tr", [])])
        tb = cm.clist([cm.cpair(cm.cstr(a), cm.cstr(b)) for a, b in im.get("tb", [])])
        return "run_transform %s %s %s %s %s" % (cfg, tbl, b0, tr, tb)
    raise ValueError(kind)


def attr_exprs(im):
    return ["run_attrs %s" % c_imp((f, a)) for f, a, *_ in im.get("attrs", [])]


def too_big(im):
    for s in im.get("snaps") or []:
        for b in s["blocks"]:
            if b["k"] == "I" and max(b["start"], b["end"], b["id"]) >= 4000:
                return True
    for l, _ in (im.get("scan") or {}).get("missing", []) + (im.get("scan") or {}).get("unused", []):
        if l >= 4000:
            return True
    return False


def evaluate_models(cases, impl, cfg="repaired"):
    """-> list of model results (dict) or None, aligned with cases; plus per-case attribute results."""
    exprs, where = [], []
    for ci, (c, im) in enumerate(zip(cases, impl)):
        if "__exc__" in im or "__timeout__" in im or c.get("oracle_only") or too_big(im):
            continue
        e = model_expr(c, im, cfg)
        if e is None:
            continue
        exprs.append(e)
        where.append((ci, "main"))
        for k, ae in enumerate(attr_exprs(im)):
            exprs.append(ae)
            where.append((ci, k))
    vals = cm.coq_eval_json(REQ, exprs, shard=120)
    main = [None] * len(cases)
    attrs = [dict() for _ in cases]
    for (ci, tag), v in zip(where, vals):
        if tag == "main":
            main[ci] = v
        else:
            attrs[ci][tag] = v
    return main, attrs, len(exprs)


# ---------------------------------------------------------------------------------------------
# comparison model vs implementation, environment-side hypotheses

def env_checks(c, im):
    """Hypotheses the open-mode model makes about the captured values; each returns a message when false."""
    bad = []
    snaps = im.get("snaps") or []
    for si, s in enumerate(snaps):
        pos = 0
        for b in s["blocks"]:
            if b["k"] == "O":
                if "".join(t for _, t in b["stmts"]) != b["text"]:
                    bad.append("statements of a non-import block do not concatenate to its text")
            else:
                if (b["endcol"] == 1) != b["endnl"] and b["text"] != "":
                    bad.append("endpos.colno == 1 differs from text.endswith(newline)")
                if b["ordered"] is None:
                    bad.append("ImportStatement failed on a statement of an import block")
        if "".join(b["text"] for b in s["blocks"]) != s["text"]:
            bad.append("block texts do not concatenate to the input text")
    for text, verdict in im.get("conts") or []:
        if really_continued(text) != verdict:
            bad.append("_ends_with_line_continuation disagrees with the tokenizer rule restated in the harness")
    for imps, text in im.get("renders") or []:
        if text != "" and not text.endswith("\n"):
            bad.append("a non-empty rendering of an import set does not end with a newline")
        if (text == "") != (len(imps) == 0):
            bad.append("rendering is empty for a non-empty import set (or the converse)")
    if c["kind"] == "tidy" and len(snaps) >= 2:
        # oracle_compositional (C03_reformat_fixed_point_open): the splitter re-finds, in the text the first pass
        # printed, the same sequence of non-import texts and import sets
        def seq(blocks, printed):
            out = []
            for b in blocks:
                if b["k"] == "I":
                    out.append(("I", tuple(sorted(map(tuple, b["imports"])))))
                else:
                    tx = b["text"] if b["out"] is None else b["out"]
                    if not tx:
                        continue
                    if out and out[-1][0] == "O":
                        out[-1] = ("O", out[-1][1] + tx)
                    else:
                        out.append(("O", tx))
            return out
        if seq(snaps[0]["blocks"], True) != seq(snaps[1]["blocks"], False):
            bad.append("the second decomposition does not re-find the blocks the first pass printed")
    if im.get("import_blocks_alias_order") is False:
        bad.append("import_blocks is not the import blocks of blocks in order")
    if c["kind"] == "tidy" and len(snaps) >= 2:
        # the first pass normalises: every import block of the second decomposition ends with a newline,
        # block positions increase
        prev_end = 0
        for b in snaps[1]["blocks"]:
            if b["k"] == "I":
                if not (b["endnl"] and b["start"] < b["end"]):
                    bad.append("second-pass import block does not end with a newline")
                if b["start"] < prev_end:
                    bad.append("second-pass import blocks overlap")
                prev_end = b["end"]
        sc = im.get("scan") or {}
        for l, (f, a) in sc.get("unused", []):
            if a == "*" or f.startswith("__future__."):
                bad.append("analysis reported a star / __future__ import unused")
        for k, v in im.get("known", []):
            for f, a in v:
                if a != k:
                    bad.append("by_import_as answered an import with another local name")
    return bad


def compare(ctx, c, im, mv, av, tag):
    """Complete observable: output text / internal error class, first-pass text, add_import log, final sets."""
    if mv is None:
        return
    for k, (f, a, st, fu, ms) in enumerate(im.get("attrs", [])):
        if st is None or f.startswith(".") or ".." in f:
            continue
        if av.get(k) != [st, fu, ms]:
            ctx.disagreement(tag + ":Import.split attributes", c, [f, a, st, fu, ms], av.get(k))
    for msg in env_checks(c, im):
        ctx.disagreement(tag + ":environment hypothesis: " + msg, c, msg, None)
    i_out, i_exc = im.get("out"), im.get("exc")
    m_out, m_err = mv.get("out"), mv.get("err")
    kind = c["kind"]
    if kind == "tidy" and "t1" in mv:
        snaps = im["snaps"]
        if len(snaps) >= 2 and mv["t1"] != snaps[1]["text"]:
            ctx.disagreement(tag + ":first pass text (second-pass input = first-pass output)", c, snaps[1]["text"], mv["t1"])
    if i_exc is not None:
        if m_err != i_exc:
            ctx.disagreement(tag + ":internal error class", c, i_exc + ": " + im.get("msg", ""), mv)
        return
    if m_err is not None or m_out != i_out:
        ctx.disagreement(tag + ":output text", c, i_out, {"out": m_out, "err": m_err})
        return
    if kind == "tidy" and "log" in mv:
        ilog = [[a[0], a[1], a[2]] for a in im.get("adds", [])]
        if mv["log"] != ilog:
            ctx.disagreement(tag + ":add_import log", c, ilog, mv["log"])
        fin_i = sorted((b["id"], sorted(map(tuple, b["imports"]))) for b in im.get("final_blocks", []))
        fin_m = sorted((b["id"], sorted(map(tuple, b["imports"]))) for b in mv.get("blocks", []))
        if fin_i != fin_m:
            ctx.disagreement(tag + ":final import sets", c, fin_i, fin_m)


def count_kinds(ctx, c, im):
    ctx.bump("kind:" + c["kind"])
    if im.get("exc"):
        ctx.bump("impl_raises:" + im["exc"])
    for a in im.get("adds", []):
        ctx.bump("add_import:" + (a[2][0] if a[2][0] != "added" else ("new_block" if a[2][2] else "existing_block")))
    sc = im.get("scan") or {}
    if sc.get("missing"):
        ctx.bump("cases_with_missing")
    if sc.get("unused"):
        ctx.bump("cases_with_unused")
    snaps = im.get("snaps") or []
    if snaps:
        bl = snaps[-1]["blocks"]
        if any(b["k"] == "I" and b["col"] != 1 for b in bl):
            ctx.bump("import_block_mid_line")
        if bl and bl[0]["k"] == "O" and any(k == "S" for k, _ in bl[0]["stmts"]):
            ctx.bump("docstring_prologue")
    if not c["src"].endswith("\n"):
        ctx.bump("no_final_newline")
    for text, verdict in im.get("conts") or []:
        ctx.bump("emptied_block_after:" + ("continued line" if verdict else
                                           "comment ending in a backslash" if text.endswith("\\\n") else "other text"))

"""C19 - export lists and star-import replacements are exact and importable.

Correspondence: ModuleHandle(name).exports and replace_star_imports(text) on generated module
trees on disk, against Exports/Scan.v and Exports/StarReplace.v (module summary produced here from
CPython's `ast`, ModuleHandle.exists values captured from the very run = oracle arguments).
Oracle: the real interpreter - `from M import *`, `from M import x`, original and rewritten program
executed in one fresh process and compared name by name - plus the generator's own record of what
every statement binds and where it comes from."""
import ast
import json
import os
import shutil
import subprocess
import sys
import tempfile

from . import common as cm

REQ = ["Exports.Scan", "Exports.StarReplace", "Exports.Wire"]

ANCHORS = ["pyflyby._modules:ModuleHandle._member_from_node", "pyflyby._modules:ModuleHandle",
           "pyflyby._imports2s:replace_star_imports",
           "pyflyby._importclns:ImportSet._from_imports", "pyflyby._idents:DottedIdentifier.startswith",
           "pyflyby._idents:DottedIdentifier.__add__", "pyflyby._util:ImportPathCtx",
           "pyflyby._imports2s:ImportPathForRelativeImportsCtx"]

NAMES = ["a", "b", "_p", "K", "f", "sub", "x", "g", "h"]
SUBS = ["sub", "x", "b"]


# ---------------------------------------------------------------------------------------------
# generator: a module is a list of statements {"src": text, "binds": [[name, origin]]}
#   origin: local (top-level =, def, async def, class, annotated = with value)
#           own (from-imported non-module from the module's own package subtree)
#           mod (a module object), foreign (imported from elsewhere), cond (bound inside `if`)

def st(src, *binds):
    return {"src": src, "binds": [list(b) for b in binds]}


def pick(r):
    return r.choice(NAMES)


def local_stmt(r):
    k = r.random()
    n, m, o = pick(r), pick(r), pick(r)
    if k < .22:
        return st("%s = [1]" % n, (n, "local"))
    if k < .34:
        return st("def %s(): return %r" % (n, n), (n, "local"))
    if k < .42:
        return st("async def %s(): pass" % n, (n, "local"))
    if k < .54:
        return st("class %s: pass" % n, (n, "local"))
    if k < .60:
        return st("%s: list = [1]" % n, (n, "local"))
    if k < .63:
        return st("%s: int" % n)
    if k < .71:
        return st("%s, %s = [1], [2]" % (n, m), (n, "local"), (m, "local"))
    if k < .75:
        return st("[%s, *%s] = [[1], [2], [3]]" % (n, m), (n, "local"), (m, "local"))
    if k < .78:
        return st("(%s, (%s, %s)) = ([1], ([2], [3]))" % (n, m, o), (n, "local"), (m, "local"), (o, "local"))
    if k < .85:
        return st("%s = %s = [3]" % (n, m), (n, "local"), (m, "local"))
    if k < .88:
        return st("_d[%r] = 1" % n)
    if k < .91:
        return st("_o.%s = %s = [1]" % (n, m), (m, "local"))
    if k < .95:
        return st("if True:\n    %s = [1]" % n, (n, "cond"))
    if k < .97:
        return st("%s = [1]\n%s += [1]" % (n, n), (n, "local"))
    return st(r.choice(["pass", "print", "1 + 1", "import os", "import sys as %s" % n]),
              *([(n, "foreign")] if False else []))


PROLOGUE = [st("_d = {}"), st("class _o: pass")]


def defined_names(stmts, origins=("local",)):
    out = []
    for s in stmts:
        for n, o in s["binds"]:
            if o in origins and n not in out:
                out.append(n)
    return out


def all_stmts(r, stmts, mode, private_ok=False):
    """Statements assigning __all__ (entries drawn from names the module really binds)."""
    pool = [n for n in defined_names(stmts, ("local", "own", "foreign", "mod"))
            if private_ok or not n.startswith("_")]
    def entries(lo=0, hi=3):
        return [r.choice(pool) for _ in range(r.randint(lo, hi))] if pool else []
    def lit(es):
        return r.choice(["%r" % (es,), "%r" % (tuple(es),)]) if es or r.random() < .5 else "[]"
    if mode == "literal":
        return [st("__all__ = %s" % lit(entries()))]
    if mode == "literal_aug":
        return [st("__all__ = %r" % (entries(),)), st("__all__ += %s" % lit(entries(1, 2)))] + \
               ([st("__all__ += %s" % lit(entries(1, 1)))] if r.random() < .3 else [])
    if mode == "literal_aug_tuple":
        # tuple-valued __all__ augmented by tuples (tuple += list is a TypeError in Python itself; list += tuple
        # is covered by literal_aug): all the forms CPython executes
        tup = lambda es: "(%s)" % "".join("%r, " % e for e in es)
        return [st("__all__ = %s" % tup(entries(1, 3))), st("__all__ += %s" % tup(entries(1, 2)))] + \
               ([st("__all__ += %s" % tup(entries(0, 1)))] if r.random() < .4 else [])
    if mode == "nonliteral":
        return [st("__all__ = [n for n in %r]" % (entries(),))]
    if mode == "aug_nonliteral":
        return [st("__all__ = %r" % (entries(),)), st("__all__ += [n for n in %r]" % (entries(1, 2),))] + \
               ([st("__all__ += %s" % lit(entries(1, 1)))] if r.random() < .5 else [])
    if mode == "reassigned":
        return [st("__all__ = [n for n in ()]"), st("__all__ = %s" % lit(entries()))]
    if mode == "reassigned_bad":
        return [st("__all__ = %s" % lit(entries())), st("__all__ = [n for n in %r]" % (entries(),))]
    if mode == "chain":
        return [st("__all__ = _q = %s" % lit(entries()))]
    if mode == "string":          # list("ab") = ['a', 'b']
        es = [n for n in pool if len(n) == 1]
        return [st("__all__ = %r" % "".join(es[:2]))] if es else []
    if mode == "annotated":
        return [st("__all__: list = %r" % (entries(),))]
    if mode == "annotated_aug":
        return [st("__all__: list = %r" % (entries(),)), st("__all__ += %s" % lit(entries(1, 2)))]
    if mode == "annotated_nonliteral":
        return [st("__all__ = %s" % lit(entries())), st("__all__: list = [n for n in %r]" % (entries(),))]
    if mode == "aug_only":
        return [st("_q = []\n_q += ['zz']")]
    raise ValueError(mode)


ALL_MODES = ["none"] * 9 + ["literal"] * 5 + ["literal_aug"] * 2 + ["literal_aug_tuple"] * 2 + ["nonliteral", "aug_nonliteral",
             "reassigned", "reassigned_bad", "chain", "string", "annotated", "annotated", "annotated_aug",
             "annotated_nonliteral"]


def insert_all(r, stmts, extra):
    """Insert the __all__ statements in order at random positions (after the prologue)."""
    pos = sorted(r.randint(len(PROLOGUE), len(stmts)) for _ in extra)
    out = list(stmts)
    for k, (p, e) in enumerate(zip(pos, extra)):
        out.insert(p + k, e)
    return out


def gen_plain(r, modname, siblings=None, foreign=None, n_lo=1, n_hi=6):
    stmts = list(PROLOGUE)
    for _ in range(r.randint(n_lo, n_hi)):
        k = r.random()
        if k < .75:
            stmts.append(local_stmt(r))
        elif k < .85:
            n = pick(r)
            stmts.append(st("from os import path as %s" % n, (n, "foreign")))
        elif k < .92 and foreign:
            n = pick(r)
            stmts.append(r.choice([st("from %s import gg as %s" % (foreign, n), (n, "foreign")),
                                   st("from %s import gg" % foreign, ("gg", "foreign"))]))
        elif siblings:
            # a non-package module importing from a sibling: not its own subtree
            sib, names = r.choice(siblings)
            if names:
                n = r.choice(names)
                stmts.append(r.choice([st("from .%s import %s" % (sib[1], n), (n, "foreign")),
                                       st("from %s.%s import %s" % (sib[0], sib[1], n), (n, "foreign"))]))
    return stmts


def render(stmts):
    return "\n".join(s["src"] for s in stmts) + "\n"


def gen_tree(r, tag, stream):
    """One case: package P (with submodules, maybe an inner package), flat module F, foreign module G."""
    P, F, G = "pk" + tag, "fl" + tag, "gg" + tag
    files, mods = {}, []
    def add(name, path, stmts, is_init, allmode):
        files[path] = render(stmts)
        mods.append({"name": name, "is_init": is_init, "stmts": stmts, "all": allmode, "path": path})
    def with_all(stmts, private_ok=False, modes=ALL_MODES):
        mode = r.choice(modes)
        if mode == "none":
            return stmts, mode
        extra = all_stmts(r, stmts, mode, private_ok)
        return insert_all(r, stmts, extra), (mode if extra else "none")
    files[G + ".py"] = "gg = [1]\n"
    # submodules first (the package re-exports from them)
    subs = r.sample(SUBS, r.randint(0, 3))
    subinfo = []
    for s in subs:
        stmts = gen_plain(r, "%s.%s" % (P, s), foreign=G)
        subinfo.append(((P, s), stmts))
    # siblings importing from each other only backwards (no cycles)
    for k, ((_, s), stmts) in enumerate(subinfo):
        if k and r.random() < .4:
            (_, s0), st0 = subinfo[r.randrange(k)]
            dn = defined_names(st0)
            if dn:
                n = r.choice(dn)
                stmts.append(r.choice([st("from .%s import %s" % (s0, n), (n, "foreign")),
                                       st("from %s.%s import %s" % (P, s0, n), (n, "foreign")),
                                       st("from . import %s" % s0, (s0, "mod"))]))
    # names imported FROM AN ANCESTOR package are not re-exports of the module's own subtree
    for (_, s), stmts in subinfo:
        if r.random() < .4:
            n = pick(r)
            stmts.append(r.choice([st("from %s import CFG" % P, ("CFG", "foreign")),
                                   st("from %s import CFG as %s" % (P, n), (n, "foreign")),
                                   st("from . import CFG", ("CFG", "foreign")),
                                   st("from . import CFG as %s" % n, (n, "foreign"))]))
    inner = r.random() < .35
    inner_names = []
    if inner:
        q = gen_plain(r, P + ".inner.q", foreign=G, n_hi=3)
        if r.random() < .5:
            n = pick(r)
            q.append(r.choice([st("from %s import CFG" % P, ("CFG", "foreign")),
                               st("from %s import CFG as %s" % (P, n), (n, "foreign")),
                               st("from .. import CFG", ("CFG", "foreign"))]))
        if subinfo and r.random() < .4:
            (_, s0), st0 = subinfo[0]
            dn = defined_names(st0)
            if dn:
                q.append(st("from ..%s import %s" % (s0, dn[0]), (dn[0], "foreign")))
        ini = list(PROLOGUE) + [local_stmt(r) for _ in range(r.randint(0, 2))]
        if r.random() < .5:
            n = pick(r)
            ini.append(r.choice([st("from %s import CFG" % P, ("CFG", "foreign")),
                                 st("from %s import CFG as %s" % (P, n), (n, "foreign")),
                                 st("from .. import CFG", ("CFG", "foreign")),
                                 st("from .. import CFG as %s" % n, (n, "foreign"))]))
        dq = defined_names(q)
        if dq and r.random() < .7:
            n = r.choice(dq)
            ini.append(r.choice([st("from .q import %s" % n, (n, "own")),
                                 st("from %s.inner.q import %s" % (P, n), (n, "own"))]))
        if r.random() < .4:
            ini.append(st("from . import q", ("q", "mod")))
        if subinfo and r.random() < .5:
            # level 2 in a package __init__: the parent's subtree is not this module's own subtree
            (_, s0), st0 = subinfo[0]
            dn = defined_names(st0)
            if dn:
                ini.append(st("from ..%s import %s" % (s0, dn[0]), (dn[0], "foreign")))
        inner_names = defined_names(ini, ("local", "own"))
    # the package __init__ (CFG is bound before any submodule is imported)
    stmts = list(PROLOGUE) + [st("CFG = [0]", ("CFG", "local"))]
    for _ in range(r.randint(1, 7)):
        k = r.random()
        if k < .45 or not subinfo:
            stmts.append(local_stmt(r))
        elif k < .53:
            n = pick(r)
            stmts.append(st("from os import path as %s" % n, (n, "foreign")))
        elif k < .58:
            stmts.append(st("from %s import gg" % G, ("gg", "foreign")))
        else:
            (_, s), sst = r.choice(subinfo)
            dn = defined_names(sst)
            kk = r.random()
            if kk < .25 and dn:
                n = r.choice(dn)
                stmts.append(st("from %s.%s import %s" % (P, s, n), (n, "own")))
            elif kk < .45 and dn:
                n = r.choice(dn)
                stmts.append(st("from .%s import %s" % (s, n), (n, "own")))
            elif kk < .60 and dn:
                n, a = r.choice(dn), pick(r)
                stmts.append(st("from .%s import %s as %s" % (s, n, a), (a, "own")))
            elif kk < .70 and len(dn) > 1:
                n, m = r.sample(dn, 2)
                stmts.append(st("from .%s import %s, %s" % (s, n, m), (n, "own"), (m, "own")))
            elif kk < .82:
                stmts.append(st("from . import %s" % s, (s, "mod")))
            elif kk < .90:
                stmts.append(st("from %s import %s" % (P, s), (s, "mod")))
            elif kk < .95:
                stmts.append(st("from .%s import *" % s, *[(n, "foreign") for n in []]))
            elif inner and inner_names:
                n = r.choice(inner_names)
                stmts.append(r.choice([st("from .inner import %s" % n, (n, "own")),
                                       st("from %s.inner import %s" % (P, n), (n, "own"))]))
            elif inner:
                stmts.append(st("from .inner import q", ("q", "mod")))
    # write everything
    private_ok = stream == "f19"
    pst, pmode = with_all(stmts, private_ok, ["literal", "literal_aug", "literal_aug_tuple"] if stream == "f19" else ALL_MODES)
    add(P, P + "/__init__.py", pst, True, pmode)
    for (_, s), sst in subinfo:
        sst2, m = with_all(sst)
        add("%s.%s" % (P, s), "%s/%s.py" % (P, s), sst2, False, m)
    if inner:
        ini2, m = with_all(ini)
        add(P + ".inner", P + "/inner/__init__.py", ini2, True, m)
        add(P + ".inner.q", P + "/inner/q.py", q, False, "none")
    fst, fmode = with_all(gen_plain(r, F, foreign=G), private_ok)
    add(F, F + ".py", fst, False, fmode)
    return P, F, G, files, mods


def gen_program(r, importable, failing, allow_bad=True):
    """Top-level import blocks with star imports, plain imports that shadow / are shadowed, code."""
    lines, mods = [], []
    def imp_line():
        k = r.random()
        if k < .5 and importable:
            m = r.choice(importable)
            mods.append(m)
            return "from %s import *" % m
        if k < .62 and failing and allow_bad:
            return "from %s import *" % r.choice(failing)
        if k < .70 and allow_bad:
            return "from .rel import *"
        if k < .85:
            n = pick(r)
            return r.choice(["from os import sep as %s" % n, "from os.path import join as %s" % n,
                             "import os", "import sys as %s" % n])
        if importable:
            return "import %s" % r.choice(importable).split(".")[0]
        return "import os"
    for _ in range(r.randint(1, 3)):
        for _ in range(r.randint(1, 4)):
            lines.append(imp_line())
        lines.append(r.choice(["_z = 1", "print", "# comment", "_w = [1,\n 2]"]))
    if allow_bad and failing:
        for f in r.sample(failing, min(len(failing), r.choice([1, 2, 3]))):
            idx = r.choice([k for k, l in enumerate(lines) if l.startswith(("from ", "import "))])
            lines.insert(idx + r.choice([0, 1]), "from %s import *" % f)
    return "\n".join(lines) + "\n"


BROKEN = {"syntax": "def (:\n", "runtime": "raise RuntimeError('boom')\n"}

# a package __init__ that fails at import time: its submodules cannot be located
PARENT_RAISES = {
    "KeyError": "import os\nos.environ['VERIF_NO_SUCH_SETTING']\n",
    "RuntimeError": "raise RuntimeError('unsupported platform')\n",
    "ZeroDivisionError": "x = 1 / 0\n",
    "TypeError": "x = None + 1\n",
    "ImportError": "import verif_no_such_module_xyz\n",
    "AttributeError": "import os\nos.verif_no_such_attr\n",
    "NameError": "verif_undefined_name\n",
    "IndexError": "x = [][0]\n",
    "SyntaxError": "def (:\n",
    "UserException": "class E(Exception): pass\nraise E('custom')\n",
}
UNINSPECTABLE = ["parent:" + k for k in PARENT_RAISES] + ["nonutf8", "nullbytes", "directory", "subdirectory",
                                                             "pyconly", "syntax"]


def gen_cases(ctx, n):
    cases = []
    for i in range(n):
        r = cm.rng(ctx.seed, "c19", i)
        stream = "main"
        if i % 25 == 7:
            stream = "f19"
        elif i % 25 == 13:
            stream = "annotated_all"
        elif i % 10 == 4:
            stream = "broken"
        tag = "%d_%d" % (ctx.seed % 100000, i)
        P, F, G, files, mods = gen_tree(r, tag, stream)
        failing = ["nonexist" + tag]
        if stream == "broken":
            kind = r.choice(["syntax", "runtime", "nonstr", "undefined_entry", "empty"])
            B = "bk" + tag
            if kind in ("syntax", "runtime"):
                if r.random() < .5:
                    files[B + ".py"] = BROKEN[kind]
                    mods.append({"name": B, "is_init": False, "stmts": None, "all": "none", "path": B + ".py", "broken": kind})
                    failing.append(B)
                else:          # the parent package cannot be imported: a submodule cannot be located
                    files[B + "/__init__.py"] = BROKEN[kind]
                    files[B + "/sub.py"] = "a = 1\n"
                    mods.append({"name": B + ".sub", "is_init": False, "stmts": None, "all": "none", "path": B + "/sub.py", "broken": "parent_" + kind})
                    failing.append(B + ".sub")
            elif kind == "nonstr":
                stmts = [st("a = 1", ("a", "local")), st("__all__ = ['a', 1]")]
                files[B + ".py"] = render(stmts)
                mods.append({"name": B, "is_init": False, "stmts": stmts, "all": "literal_nonstr", "path": B + ".py", "broken": "nonstr"})
                failing.append(B)
            elif kind == "undefined_entry":
                stmts = [st("a = 1", ("a", "local")), st("__all__ = ['a', 'zz']")]
                files[B + ".py"] = render(stmts)
                mods.append({"name": B, "is_init": False, "stmts": stmts, "all": "literal", "path": B + ".py", "broken": "undefined_entry"})
            else:
                stmts = [st("_a = 1", ("_a", "local")), st("from os import path", ("path", "foreign"))]
                files[B + ".py"] = render(stmts)
                mods.append({"name": B, "is_init": False, "stmts": stmts, "all": "none", "path": B + ".py"})
                failing.append(B)
        if stream == "annotated_all":
            B = "an" + tag
            stmts = [st("a = 1", ("a", "local")), st("b = 2", ("b", "local")), st("__all__: list = ['a']")]
            files[B + ".py"] = render(stmts)
            mods.append({"name": B, "is_init": False, "stmts": stmts, "all": "annotated", "path": B + ".py"})
        # every case: one or two modules that cannot be inspected, in different ways
        bfiles, dirs, pycs = {}, [], []
        for j, kind in enumerate(r.sample(UNINSPECTABLE, r.choice([1, 1, 2]))):
            U = "un%s%d" % (tag, j)
            if kind.startswith("parent:"):
                files[U + "/__init__.py"] = PARENT_RAISES[kind[7:]]
                files[U + "/api.py"] = "a = [1]\n"
                name = U + ".api"
            elif kind == "nonutf8":
                bfiles[U + ".py"] = list(b"a = 1\ns = '\xff\xfe'\n")
                name = U
            elif kind == "nullbytes":
                bfiles[U + ".py"] = list(b"a = 1\n\x00\n")
                name = U
            elif kind == "directory":
                dirs.append(U)
                name = U
            elif kind == "subdirectory":
                files[U + "/__init__.py"] = ""
                dirs.append(U + "/api")
                name = U + ".api"
            elif kind == "pyconly":
                pycs.append(U + ".pyc")
                name = U
            else:
                files[U + ".py"] = BROKEN["syntax"]
                name = U
            mods.append({"name": name, "is_init": False, "stmts": None, "all": "none", "path": None,
                         "broken": "uninspectable:" + kind, "uninspectable": True})
            failing.append(name)
        # a program FILE in its own directory with a sibling module; a same-named decoy is importable from the
        # root (earlier on sys.path for the inspecting process, later for the program run as a script)
        H, PD = "hp" + tag, "prog" + tag
        hst = gen_plain(r, H, n_lo=2, n_hi=4)
        if not defined_names(hst):
            hst.append(st("hx = [1]", ("hx", "local")))
        files["%s/%s.py" % (PD, H)] = render(hst)
        files[H + ".py"] = "decoy = [1]\n"
        mods.append({"name": H, "is_init": False, "stmts": hst, "all": "none", "path": "%s/%s.py" % (PD, H), "late": True})
        # symlinked module files / __init__.py / package directories
        links = []
        if r.random() < .35:
            kind = r.choice(["init", "init", "sub", "dir", "flat"])
            pkinit = [p for p in files if p.endswith("/__init__.py") and p.startswith("pk")]
            subs_ = [p for p in files if p.startswith(P + "/") and p.count("/") == 1 and not p.endswith("__init__.py")]
            if kind == "init" and pkinit:
                p0 = r.choice(pkinit)
                links.append(["file", p0, p0.replace("__init__.py", "_initimpl.py")])
            elif kind == "sub" and subs_:
                p0 = r.choice(subs_)
                links.append(["file", p0, p0.replace(".py", "_impl.py")])
            elif kind == "dir":
                links.append(["dir", P, "_real" + P])
            elif kind == "flat":
                links.append(["file", F + ".py", "_flatimpl" + tag + ".py"])
        importable = [m["name"] for m in mods if not m.get("broken") and not m.get("late")]
        programs = [gen_program(r, [m for m in importable if m not in failing], failing, allow_bad=bool(j)) for j in range(2)]
        ftext = "\n".join(["from %s import *" % H] + ([r.choice(["import os", "from %s import *" % r.choice(importable)])] if importable else [])
                          + ["_z = 1"]) + "\n"
        # where the program's own directory already sits on sys.path of the inspecting process (the decoy's
        # directory, the root, is always first)
        fileprogs = [{"dir": PD, "file": "%s/main.py" % PD, "text": ftext,
                      "on_path": r.choice(["absent", "last", "second", "twice", "last"])}]
        # bin/collect-exports with 1-4 modules per invocation (overlapping export lists, sometimes a failing one)
        cli = None
        if i % 2 == 0 and importable:
            cli = r.sample(importable, min(len(importable), r.randint(1, 4)))
            if r.random() < .2:
                cli.insert(r.randint(0, len(cli)), r.choice(failing))
            if r.random() < .15:
                cli.append(cli[0])
        # the log level is environment: the observables must not depend on it
        env = {2: "debug", 5: "warning"}.get(i % 6, "")
        set_level = {4: "DEBUG", 1: "INFO"}.get(i % 6)
        cases.append({"kind": "tree", "i": i, "stream": stream, "files": files, "mods": mods,
                      "programs": programs, "failing": failing, "bfiles": bfiles, "dirs": dirs, "pycs": pycs,
                      "fileprogs": fileprogs, "links": links, "cli": cli, "env": env, "set_level": set_level})
    return cases


def all_programs(c):
    """texts of the in-memory programs followed by the program files"""
    return list(c["programs"]) + [fp["text"] for fp in c.get("fileprogs", [])]


# ---------------------------------------------------------------------------------------------
# module summary from `ast` (the oracle argument of the model)

def t_target(t):
    if isinstance(t, ast.Name):
        return {"k": "name", "n": t.id}
    if isinstance(t, (ast.Tuple, ast.List)):
        return {"k": "seq", "ts": [t_target(e) for e in t.elts]}
    if isinstance(t, ast.Starred):
        return {"k": "star", "t": t_target(t.value)}
    return {"k": "other"}


def t_lit(v):
    try:
        l = list(ast.literal_eval(v))
    except (ValueError, TypeError):
        return None
    return [e if type(e) is str else None for e in l]


def summarize(src):
    out = []
    for n in ast.parse(src).body:
        if isinstance(n, ast.Assign):
            out.append({"k": "assign", "ts": [t_target(t) for t in n.targets], "v": t_lit(n.value)})
        elif isinstance(n, ast.AnnAssign):
            out.append({"k": "ann", "t": t_target(n.target), "hasv": n.value is not None,
                        "v": t_lit(n.value) if n.value is not None else None})
        elif isinstance(n, ast.ClassDef):
            out.append({"k": "class", "n": n.name})
        elif isinstance(n, ast.FunctionDef):
            out.append({"k": "def", "n": n.name})
        elif isinstance(n, ast.AsyncFunctionDef):
            out.append({"k": "adef", "n": n.name})
        elif isinstance(n, ast.ImportFrom):
            out.append({"k": "from", "level": n.level, "mod": n.module, "names": [[a.name, a.asname] for a in n.names]})
        elif isinstance(n, ast.AugAssign):
            out.append({"k": "aug", "t": t_target(n.target), "v": t_lit(n.value)})
        elif isinstance(n, ast.Delete):
            out.append({"k": "del", "ts": [t_target(t) for t in n.targets]})
        else:
            out.append({"k": "other"})
    return out


def candidates(name, is_init, summary):
    """Every dotted name whose existence the scan may ask for."""
    out = []
    for n in summary:
        if n["k"] != "from":
            continue
        if n["level"] == 0:
            fm = n["mod"]
            if fm.split(".")[:len(name.split("."))] != name.split("."):
                continue
        elif n["level"] == 1 and is_init:
            fm = name + ("." + n["mod"] if n["mod"] else "")
        else:
            continue
        for a, b in n["names"]:
            if a != "*":
                out.append("%s.%s" % (fm, b or a))
    return sorted(set(out))


def c_target(t):
    if t["k"] == "name":
        return "(TName %s)" % cm.cstr(t["n"])
    if t["k"] == "seq":
        return "(TSeq %s)" % cm.clist([c_target(e) for e in t["ts"]])
    if t["k"] == "star":
        return "(TStar %s)" % c_target(t["t"])
    return "TOther"


def c_lit(v):
    if v is None:
        return "LitFail"
    return "(LitOK %s)" % cm.clist([cm.copt(e, cm.cstr) for e in v])


def c_node(n):
    k = n["k"]
    if k == "assign":
        return "NAssign %s %s" % (cm.clist([c_target(t) for t in n["ts"]]), c_lit(n["v"]))
    if k == "ann":
        return "NAnnAssign %s %s" % (c_target(n["t"]), "(Some %s)" % c_lit(n["v"]) if n["hasv"] else "None")
    if k == "class":
        return "NClassDef %s" % cm.cstr(n["n"])
    if k == "def":
        return "NFunctionDef %s" % cm.cstr(n["n"])
    if k == "adef":
        return "NAsyncFunctionDef %s" % cm.cstr(n["n"])
    if k == "from":
        return "NImportFrom %s %s %s" % (cm.cnat(n["level"]), cm.copt(n["mod"], cm.cstr),
                                         cm.clist([cm.cpair(cm.cstr(a), cm.copt(b, cm.cstr)) for a, b in n["names"]]))
    if k == "aug":
        return "NAugAssign %s %s" % (c_target(n["t"]), c_lit(n["v"]))
    if k == "del":
        return "NDel %s" % cm.clist([c_target(t) for t in n["ts"]])
    return "NOther"


# ---------------------------------------------------------------------------------------------
# implementation side

ORACLE_CHILD = r'''
import sys, json
job = json.loads(sys.stdin.read())
sys.path.insert(0, job["root"])
for d in job.get("scriptdirs", []):
    sys.path.insert(0, d)           # python puts the directory of the script first
sys.dont_write_bytecode = True
res = {"star": {}, "one": {}, "programs": []}
for m in job["mods"]:
    ns = {}
    try:
        exec("from %s import *" % m, ns)
        mod = sys.modules[m]
        res["star"][m] = {"names": sorted(k for k in ns if k != "__builtins__"),
                          "has_all": hasattr(mod, "__all__"),
                          "all": [x for x in getattr(mod, "__all__", []) if isinstance(x, str)],
                          "vars": sorted(vars(mod))}
    except BaseException as e:
        res["star"][m] = {"exc": type(e).__name__}
for m, names in job["exports"].items():
    ok = {}
    for x in names:
        ns = {}
        try:
            exec("from %s import %s" % (m, x), ns)
            ok[x] = x in ns
        except BaseException as e:
            ok[x] = "EXC " + type(e).__name__
    res["one"][m] = ok
for p in job["programs"]:
    if p is None:
        res["programs"].append(None)
        continue
    import ast
    def run(text, tag):
        ns, prov = {"__name__": "prog"}, {}
        for idx, node in enumerate(ast.parse(text).body):
            snap = dict(ns)
            exec(compile(ast.Module([node], []), tag, "exec"), ns)
            if isinstance(node, ast.ImportFrom) and node.level == 0:
                d = ["star" if any(a.name == "*" for a in node.names) else "from", node.module]
            else:
                d = ["other", None]
            for k, v in ns.items():
                if k not in snap or snap[k] is not v:
                    prov[k] = d
        return ns, prov
    try:
        ns1, prov1 = run(p["before"], "before")
    except BaseException as e:
        res["programs"].append({"skip": "original fails: " + type(e).__name__})
        continue
    try:
        ns2, prov2 = run(p["after"], "after")
    except BaseException as e:
        res["programs"].append({"after_exc": type(e).__name__ + ": " + str(e)[:200]})
        continue
    diff = {}
    for k, v in ns1.items():
        if k.startswith("__") or k in ("_z", "_w"):
            continue
        if k not in ns2:
            diff[k] = ["unbound", prov1.get(k), None]
        elif ns2[k] is not v:
            diff[k] = ["different object", prov1.get(k), prov2.get(k)]
    res["programs"].append({"diff": diff, "n": len(ns1)})
print("RESULT" + json.dumps(res))
'''


def _exports_of(name):
    from pyflyby._modules import ModuleHandle
    try:
        e = ModuleHandle(name).exports
    except Exception as ex:
        return "EXC", type(ex).__name__
    if not e:
        return None, None
    return sorted(set(i.import_as for i in e)), sorted([i.fullname, i.import_as] for i in e)


ENVS = {"": None, "debug": {"PYFLYBY_LOG_LEVEL": "DEBUG"}, "warning": {"PYFLYBY_LOG_LEVEL": "WARNING"}}


def run_partitioned(cases, timeout_case):
    """run_impl per environment group (log level set at import time through PYFLYBY_LOG_LEVEL)"""
    results = [None] * len(cases)
    groups = {}
    for idx, c in enumerate(cases):
        groups.setdefault(c.get("env") or "", []).append(idx)
    for key in sorted(groups):
        idxs = groups[key]
        rs = cm.run_impl("c19", "impl_case", [cases[i] for i in idxs], timeout_case=timeout_case, env_extra=ENVS[key])
        for i, r in zip(idxs, rs):
            results[i] = r
    return results


def impl_case(c):
    saved_level = None
    if c.get("set_level"):
        from pyflyby._log import logger as _lg
        saved_level = _lg.level
        _lg.set_level(c["set_level"])
    try:
        return _impl_case(c)
    finally:
        if saved_level is not None:
            _lg.setLevel(saved_level)


def run_collect_exports(root, args):
    """bin/collect-exports as a real command; what it printed, per module, parsed with ast"""
    env = dict(os.environ)
    env["PYTHONPATH"] = "%s/lib/python:%s" % (cm.REPO, root)
    p = subprocess.run([sys.executable, os.path.join(cm.REPO, "bin", "collect-exports")] + list(args),
                       capture_output=True, text=True, env=env, cwd=root, timeout=120)
    printed = []
    try:
        for n in ast.parse(p.stdout).body:
            if isinstance(n, ast.ImportFrom) and n.level == 0:
                printed.append([n.module, sorted((a.asname or a.name) for a in n.names), sorted(a.name for a in n.names)])
            else:
                printed.append(["<other>", [ast.dump(n)[:80]], []])
    except SyntaxError as e:
        printed = [["<unparsable>", [str(e)], []]]
    return {"args": list(args), "rc": p.returncode, "printed": printed, "stdout": p.stdout[-2000:],
            "problems": [l for l in p.stderr.splitlines() if "there were problems" in l]}


def _impl_case(c):
    import pyflyby._imports2s as S
    from pyflyby._importstmt import ImportStatement
    from pyflyby._modules import ModuleHandle
    from pyflyby._parse import PythonBlock
    root = tempfile.mkdtemp(prefix="verif-c19-")
    before_mods = set(sys.modules)
    try:
        for path, src in c["files"].items():
            p = os.path.join(root, path)
            os.makedirs(os.path.dirname(p), exist_ok=True)
            with open(p, "w") as f:
                f.write(src)
        for path, data in c.get("bfiles", {}).items():
            with open(os.path.join(root, path), "wb") as f:
                f.write(bytes(data))
        for d in c.get("dirs", []):
            os.makedirs(os.path.join(root, d), exist_ok=True)
        for pyc in c.get("pycs", []):
            import py_compile
            tmp_src = os.path.join(root, "_verif_tmp_src.py")
            with open(tmp_src, "w") as f:
                f.write("a = [1]\n")
            py_compile.compile(tmp_src, cfile=os.path.join(root, pyc))
            os.remove(tmp_src)
        for fp in c.get("fileprogs", []):
            with open(os.path.join(root, fp["file"]), "w") as f:
                f.write(fp["text"])
        for kind, path, target in c.get("links", []):
            os.rename(os.path.join(root, path), os.path.join(root, target))
            os.symlink(os.path.basename(target) if kind == "file" else target, os.path.join(root, path))
        sys.path.insert(0, root)
        import importlib
        importlib.invalidate_caches()
        out = {"mods": {}, "programs": []}
        exports = {}

        def inspect_mod(m):
            name = m["name"]
            e, full = _exports_of(name)
            rec = {"exports": e}
            if e == "EXC":
                rec["exc"] = full
            elif e is not None:
                rec["wellformed"] = all(f == "%s.%s" % (name, a) for f, a in full)
            try:
                summ = None if m.get("uninspectable") else summarize(c["files"][m["path"]])
            except SyntaxError:
                summ = None
            # a submodule whose parent package cannot be imported cannot be inspected
            rec["summary"] = summ if not str(m.get("broken", "")).startswith("parent_") else None
            if summ is not None:
                cand = candidates(name, m["is_init"], summ)
                rec["exists"] = [[d, bool(ModuleHandle(d).exists)] for d in cand]
                truth = {(os.path.splitext(p)[0].replace("/", ".")[:-len(".__init__")]
                          if p.endswith("/__init__.py") else os.path.splitext(p)[0].replace("/", "."))
                         for p in c["files"]}
                rec["exists_truth"] = [[d, d in truth] for d in cand]
            exports[name] = e
            out["mods"][name] = rec
        for m in c["mods"]:
            if not m.get("late"):
                inspect_mod(m)
        for x in c["failing"]:
            if x not in exports:
                exports[x] = _exports_of(x)[0]
                out["mods"][x] = {"exports": exports[x], "summary": None}
        # replace_star_imports on the programs (in memory, then the program files)
        progs = [(text, None) for text in c["programs"]] + \
                [(fp["text"], os.path.join(root, fp["file"])) for fp in c.get("fileprogs", [])]
        onpath = [None] * len(c["programs"]) + [fp.get("on_path", "absent") for fp in c.get("fileprogs", [])]
        for (text, fname), where in zip(progs, onpath):
            saved_path = list(sys.path)
            if fname and where != "absent":
                d_ = os.path.dirname(fname)
                if where in ("last", "twice"):
                    sys.path.append(d_)
                if where in ("second", "twice"):
                    sys.path.insert(1, d_)
            blocks_in = []
            t = S.SourceToSourceFileImportsTransformation(PythonBlock(text))
            for b in t.blocks:
                if isinstance(b, S.SourceToSourceImportBlockTransformation):
                    imps = [imp for s in b.input.statements for imp in ImportStatement(s).imports]
                    blocks_in.append({"imports": [[i.split.module_name, "*"] if i.split.member_name == "*"
                                                  else [i.fullname, i.import_as] for i in imps]})
                else:
                    blocks_in.append({"text": b.input.text.joined})
            renders = []
            orig = S.SourceToSourceImportBlockTransformation.pretty_print

            def pp(self, params=None):
                res = orig(self, params=params)
                renders.append({"imports": sorted([i.fullname, i.import_as] for i in self.importset.imports),
                                "text": str(res)})
                return res
            S.SourceToSourceImportBlockTransformation.pretty_print = pp
            try:
                res = S.replace_star_imports(PythonBlock(text, filename=fname) if fname else PythonBlock(text))
                outp = {"blocks": blocks_in, "renders": renders, "out": res.text.joined}
            except Exception as e:
                outp = {"exc": type(e).__name__, "msg": str(e)[:300]}
            finally:
                S.SourceToSourceImportBlockTransformation.pretty_print = orig
                sys.path[:] = saved_path
            out["programs"].append(outp)
        for m in c["mods"]:
            if m.get("late"):
                inspect_mod(m)       # after the program files: ModuleHandle has located the module by then
        if c.get("cli"):
            out["cli"] = run_collect_exports(root, c["cli"])
        # the real interpreter, in a fresh process
        job = {"root": root,
               "mods": [m["name"] for m in c["mods"] if not m.get("broken") or m.get("broken") in ("nonstr", "undefined_entry")],
               "exports": {k: v for k, v in exports.items() if isinstance(v, list)},
               "scriptdirs": [os.path.join(root, fp["dir"]) for fp in c.get("fileprogs", [])],
               "programs": []}
        for text, po in zip(all_programs(c), out["programs"]):
            execable = "out" in po and not any(("import *" in l and any(l.startswith("from %s import" % f) for f in c["failing"] + [".rel"]))
                                               for l in text.split("\n"))
            job["programs"].append({"before": text, "after": po["out"]} if execable else None)
        env = {"PATH": os.environ.get("PATH", "/usr/bin:/bin"), "PYTHONDONTWRITEBYTECODE": "1", "PYTHONHASHSEED": "0",
               "LC_ALL": "C.UTF-8"}
        p = subprocess.run([sys.executable, "-S", "-c", ORACLE_CHILD], input=json.dumps(job), capture_output=True,
                           text=True, env=env, timeout=60, cwd=root)
        line = [l for l in p.stdout.splitlines() if l.startswith("RESULT")]
        out["real"] = json.loads(line[0][6:]) if line else {"child_failed": p.stderr[-500:]}
        return out
    finally:
        if root in sys.path:
            sys.path.remove(root)
        for k in set(sys.modules) - before_mods:
            if k.split(".")[0][:2] in ("pk", "fl", "gg", "bk", "an", "no", "un", "hp", "pr"):
                del sys.modules[k]
        shutil.rmtree(root, ignore_errors=True)


# ---------------------------------------------------------------------------------------------
# model side

def model_exprs(cases, impl):
    exprs, index = [], []
    for ci, (c, im) in enumerate(zip(cases, impl)):
        if "__exc__" in im or "__timeout__" in im:
            continue
        for name, rec in im["mods"].items():
            is_init = any(m["name"] == name and m["is_init"] for m in c["mods"])
            summ = rec.get("summary")
            ex = cm.clist([cm.cpair(cm.cstr(d), cm.cbool(b)) for d, b in rec.get("exists", [])])
            s = "None" if summ is None else "(Some %s)" % cm.clist([c_node(n) for n in summ])
            exprs.append("run_exports %s %s %s %s" % (cm.cstr(name), cm.cbool(is_init), ex, s))
            index.append((ci, "exports", name))
        for pi, po in enumerate(im["programs"]):
            if "blocks" not in po:
                continue
            exs = []
            for name, rec in im["mods"].items():
                e = rec["exports"]
                v = "None" if e == "EXC" else "(Some %s)" % cm.clist([cm.cstr(x) for x in (e or [])])
                exs.append(cm.cpair(cm.cstr(name), v))
            for bi, b in enumerate(po["blocks"]):
                if "imports" in b:
                    imps = cm.clist(["Star %s" % cm.cstr(f) if a == "*" else "Plain %s %s" % (cm.cstr(f), cm.cstr(a))
                                     for f, a in b["imports"]])
                    exprs.append("run_replace %s %s" % (cm.clist(exs), imps))
                    index.append((ci, "replace", (pi, bi)))
    return exprs, index


# ---------------------------------------------------------------------------------------------
# known-finding classifiers

def is_f19_private_all_entry(name, star):
    """F19: the name starts with `_`, is listed in the module's __all__ (so the real star import binds it)."""
    return name.startswith("_") and bool(star.get("has_all")) and name in star.get("all", [])


def is_dynamic_all_overexport(name, mod, star):
    """C19-b: the module's __all__ is not a literal (the scan falls back to every public top-level name) and the
    name is not in the run-time __all__, i.e. the real star import does not bind it."""
    return bool(mod) and mod.get("all") in ("nonliteral", "aug_nonliteral", "reassigned_bad", "annotated_nonliteral") and \
        bool(star.get("has_all")) and name not in star.get("all", [])


def is_kept_star_resorted(p1, p2, mods):
    """F7 family: the name is bound, before or after the rewrite, by a star import that replace_star_imports keeps
    (module not inspectable / nothing exported); the block is re-printed in canonical order, which moves that
    star import relative to the other imports of the block."""
    def kept(p):
        return bool(p) and p[0] == "star" and not isinstance(mods.get(p[1], {}).get("exports"), list)
    return kept(p1) or kept(p2)


def is_annotated_all(mod):
    """C19-a: `__all__: T = [...]` - an annotated assignment is not read as a literal __all__."""
    return bool(mod) and mod.get("all") == "annotated"


# ---------------------------------------------------------------------------------------------
# oracle (independent of the model): the generator's record + the real interpreter

def expected_exports(m, star):
    """The property's first sentence, from the generator's own record of the module."""
    lit_modes = {"literal", "literal_aug", "literal_aug_tuple", "reassigned", "chain", "string", "annotated", "annotated_aug"}
    if m["all"] in lit_modes:
        if "exc" in star:
            return None
        return sorted({x for x in star["all"] if not x.startswith("_")})
    names = set()
    for s in m["stmts"]:
        for n, o in s["binds"]:
            if o in ("local", "own") and not n.startswith("_"):
                names.add(n)
    return sorted(names)


def oracle_case(ctx, c, im):
    real = im.get("real", {})
    if "child_failed" in real:
        raise RuntimeError("oracle child failed: %s" % real["child_failed"])
    bymod = {m["name"]: m for m in c["mods"]}
    for name, rec in im["mods"].items():
        m = bymod.get(name)
        e = rec["exports"]
        star = real["star"].get(name)
        if m is None or m.get("stmts") is None or star is None:
            continue
        if m.get("broken") == "nonstr":
            continue
        if "exc" in star and m.get("broken") != "undefined_entry":
            ctx.bump("oracle:module_not_importable:" + star["exc"])
            continue
        # (1) exactness
        exp = expected_exports(m, star)
        got = [] if e is None else e
        if e == "EXC":
            ctx.violation("exports_raise_on_inspectable_module", {"case": c, "module": name}, rec.get("exc"))
        elif exp is not None and got != exp:
            ctx.violation("exports_exact", {"case": c, "module": name},
                          "exports %r, the property's rule on the generated module gives %r" % (got, exp))
        # (2) importable
        if isinstance(e, list) and m.get("broken") != "undefined_entry":
            bad = {x: v for x, v in real["one"].get(name, {}).items() if v is not True}
            if bad:
                ctx.violation("importable", {"case": c, "module": name}, "from %s import x fails for %r" % (name, bad))
        # (2') exports are a subset of what the real star import binds (module has no __all__ or a good one)
        if isinstance(e, list) and "names" in star and m["all"] in ("none", "literal", "literal_aug", "literal_aug_tuple", "reassigned", "chain", "string", "annotated", "annotated_aug"):
            extra = [x for x in e if x not in star["names"]]
            if extra:
                ctx.violation("exports_subset_of_star", {"case": c, "module": name}, "exported but not bound by the star import: %r" % extra)
    # (2'') bin/collect-exports: for every module on the command line, exactly its export list is printed
    cli = im.get("cli")
    if cli:
        ctx.bump("oracle:collect_exports_invocations")
        ctx.bump("oracle:collect_exports_modules", len(cli["args"]))
        want, bad = [], False
        for mname in cli["args"]:
            e = im["mods"].get(mname, {}).get("exports")
            if e == "EXC":
                bad = True
            elif isinstance(e, list):
                want.append([mname, e])
        got = [[m_, names] for m_, names, orig in cli["printed"]]
        aliased = [p_ for p_ in cli["printed"] if p_[1] != p_[2]]
        merged_want, merged_got = {}, {}
        for m_, names in want:
            merged_want.setdefault(m_, set()).update(names)
        for m_, names in got:
            merged_got.setdefault(m_, set()).update(names)
        if {k: sorted(v) for k, v in merged_want.items()} != {k: sorted(v) for k, v in merged_got.items()} or aliased:
            ctx.violation("collect_exports_cli", {"case": c}, {"args": cli["args"], "printed": got, "expected": want, "stdout": cli["stdout"]})
        if (cli["rc"] != 0) != bad or bool(cli["problems"]) != bad:
            ctx.violation("collect_exports_cli_status", {"case": c}, {"args": cli["args"], "rc": cli["rc"], "some_module_failed": bad})
    # (3) programs
    for pi, (text, po, pr) in enumerate(zip(all_programs(c), im["programs"], real.get("programs", []))):
        if "exc" in po:
            ctx.violation("replace_star_imports_raises", {"case": c, "program": pi}, po)
            continue
        # conservative clause, on the text: every star import of a failing / relative module is still there
        try:
            after = ast.parse(po["out"])
        except SyntaxError as e:
            ctx.violation("output_not_python", {"case": c, "program": pi}, str(e))
            continue
        stars_after = [(n.level, n.module) for n in ast.walk(after) if isinstance(n, ast.ImportFrom) and any(a.name == "*" for a in n.names)]
        for n in ast.parse(text).body:
            if isinstance(n, ast.ImportFrom) and any(a.name == "*" for a in n.names):
                mname = n.module
                e = im["mods"].get(mname, {}).get("exports") if n.level == 0 else "EXC"
                must_stay = n.level > 0 or e == "EXC" or e is None
                if must_stay and (n.level, n.module) not in stars_after:
                    ctx.violation("star_kept_on_failure", {"case": c, "program": pi}, "star import of %r disappeared" % mname)
                elif must_stay and ("from %s%s import *" % ("." * n.level, n.module or "")) not in [" ".join(l.split()) for l in po["out"].split("\n")]:
                    ctx.violation("star_kept_on_failure", {"case": c, "program": pi}, "star import of %r is not kept verbatim" % mname)
                if must_stay and n.level == 0:
                    ctx.bump("oracle:kept_star:" + str((bymod.get(mname) or {}).get("broken", "nonexistent" if mname in c["failing"] else "nothing exported")))
                if not must_stay and (n.level, n.module) in stars_after:
                    ctx.violation("star_replaced", {"case": c, "program": pi}, "star import of %r was not replaced" % mname)
        if pr is None:
            continue
        if "skip" in pr:
            ctx.bump("oracle:program_skipped")
            continue
        if "after_exc" in pr:
            ctx.violation("rewritten_program_fails", {"case": c, "program": pi}, pr["after_exc"])
            continue
        ctx.bump("oracle:programs_executed")
        for k, (why, p1, p2) in pr["diff"].items():
            # p1 / p2: the statement that (last) bound k in the original / rewritten program
            def exps(s):
                e = im["mods"].get(s, {}).get("exports")
                return e if isinstance(e, list) else []
            if p2 and p2[0] == "from" and is_dynamic_all_overexport(k, bymod.get(p2[1]), real["star"].get(p2[1], {})):
                ctx.known_hit("C19-b", "non-literal __all__: %r is exported statically but not bound by the real star import of %s; "
                                       "its replacement shadows another binding" % (k, p2[1]))
            elif is_kept_star_resorted(p1, p2, im["mods"]):
                ctx.known_hit("F7", "a star import that is kept (or two of them) is re-sorted relative to the other imports of its block, "
                                    "so a different import wins for %r (canonical sorting does not preserve which binding wins)" % k)
            elif p1 and p1[0] == "star" and k not in exps(p1[1]):
                if is_f19_private_all_entry(k, real["star"].get(p1[1], {})):
                    ctx.known_hit("F19", "private __all__ entry %r is bound by the real star import but not by its replacement" % k)
                else:
                    ctx.bump("oracle:star_only_name_not_an_export")
            else:
                ctx.violation("program_bindings_preserved", {"case": c, "program": pi}, "%s: %s (bound by %r, afterwards by %r)" % (k, why, p1, p2))


# ---------------------------------------------------------------------------------------------

def compare(ctx, cases, impl, index, model):
    per_case = {}
    for (ci, tag, sub), mv in zip(index, model):
        per_case.setdefault(ci, {})[(tag, sub if not isinstance(sub, list) else tuple(sub))] = mv
    for ci, (c, im) in enumerate(zip(cases, impl)):
        if "__exc__" in im or "__timeout__" in im:
            ctx.count(c, False)
            ctx.violation("harness_worker_exception", c, im)
            continue
        got = per_case.get(ci, {})
        nontriv = False
        for name, rec in im["mods"].items():
            mv = got[("exports", name)]
            me = mv["exports"]
            ie = rec["exports"]
            ctx.bump("exports:" + ("exc" if ie == "EXC" else "none" if ie is None else "list"))
            mcanon = me if me in ("EXC", None) else sorted(set(me))
            if mcanon != ie:
                ctx.disagreement("ModuleHandle.exports", {"case": c, "module": name}, ie, mcanon)
            if rec.get("wellformed") is False:
                ctx.disagreement("exports ImportSet shape", {"case": c, "module": name}, rec, None)
            if rec.get("summary") is not None:
                supplied = {d for d, _ in rec["exists"]}
                if not set(mv["queried"]) <= supplied:
                    ctx.disagreement("exists oracle coverage", {"case": c, "module": name}, sorted(supplied), mv["queried"])
                if rec["exists"] != rec["exists_truth"]:
                    ctx.disagreement("hypothesis: ModuleHandle.exists = module file present", {"case": c, "module": name},
                                     rec["exists"], rec["exists_truth"])
                # mini-semantics of the model vs the real namespace after import
                star = im.get("real", {}).get("star", {}).get(name, {})
                has_del = any(n["k"] == "del" for n in rec["summary"])
                if "vars" in star and not has_del:
                    missing = sorted(set(mv["bound"]) - set(star["vars"]))
                    if missing:
                        ctx.disagreement("mini-semantics bound_after vs real module namespace", {"case": c, "module": name},
                                         star["vars"], mv["bound"])
            if isinstance(ie, list):
                nontriv = True
        for pi, po in enumerate(im["programs"]):
            if "blocks" not in po:
                continue
            pred, k, ok = [], 0, True
            for bi, b in enumerate(po["blocks"]):
                if "text" in b:
                    pred.append(b["text"])
                    continue
                if k >= len(po["renders"]):
                    ok = False
                    break
                rend = po["renders"][k]
                k += 1
                want = sorted(set(tuple(x) for x in got[("replace", (pi, bi))]))
                have = sorted(set(tuple(x) for x in rend["imports"]))
                ctx.bump("replace_blocks")
                if want != have:
                    ctx.disagreement("replace_star_imports block import set", {"case": c, "program": pi, "block": bi},
                                     [list(x) for x in have], [list(x) for x in want])
                pred.append(rend["text"])
            if not ok or "".join(pred) != po["out"]:
                ctx.disagreement("replace_star_imports output text", {"case": c, "program": pi}, po["out"], "".join(pred))
            if po["out"] != all_programs(c)[pi]:
                ctx.bump("program_changed")
        oracle_case(ctx, c, im)
        ctx.bump("stream:" + c.get("stream", "corpus"))
        ctx.bump("env:" + (c.get("env") or "default") + ("+set_level:" + c["set_level"] if c.get("set_level") else ""))
        ctx.count(c, nontriv)
        if nontriv:
            ctx.sample({"files": c["files"], "programs": all_programs(c),
                        "exports": {k: v["exports"] for k, v in im["mods"].items()},
                        "rewritten": [p.get("out") for p in im["programs"]]}, limit=2)


def run(ctx):
    n = 400 if ctx.quick else 8000
    ctx.coverage["rule"] = (
        "one case = a generated tree on disk (package with 0-3 submodules and optionally an inner package, a flat module, "
        "a foreign module; with/without __all__, __all__ +=, non-literal __all__, private names, re-exports from "
        "submodules and from foreign modules, relative imports; every 10th case adds an uninspectable / odd module, "
        "every 25th an F19 resp. annotated-__all__ witness) + 2 star-importing programs; per case every module's "
        "exports and both programs are compared with the model and checked by the real interpreter; non-trivial = "
        "some module has a non-empty export list; distinct by hash of the case")
    ctx.assumptions += [
        "module summary (top-level ast node kinds, assignment targets, ast.literal_eval of assigned values) is computed by CPython's ast on the file the implementation reads",
        "ModuleHandle(d).exists is an oracle argument, fed with the values of the same run; hypothesis 'exists d = a module file d is present in the tree' is evaluated on every case",
        "exports_of in the star-replacement model is fed with the implementation's ModuleHandle.exports results of the same run (the scan itself is tied separately)",
        "block decomposition and rendering of import blocks are captured from the implementation (tied by C01/C03/C11)",
        "agreement of the export list with what `from M import *` really binds is decided by this correspondence + the interpreter oracle only, not by a theorem",
        "a name that the real star import binds but the property's first sentence excludes (foreign imports, submodules, conditional bindings) is not demanded of the replacement",
    ]
    ctx.notes["trusted_base"] = ["CPython's ast / ast.literal_eval / import system as oracles for module summaries and for real star-import behaviour"]
    cm.check_anchors(ctx, ANCHORS)
    n *= getattr(ctx, "scale", 1)
    cases = cm.load_corpus("C19") + gen_cases(ctx, n)
    impl = run_partitioned(cases, 90)
    exprs, index = model_exprs(cases, impl)
    model = cm.coq_eval_json(REQ, exprs, shard=150)
    compare(ctx, cases, impl, index, model)
    ctx.notes["model_evaluations_in_kernel"] = len(exprs)


def replay(payload):
    case = payload.get("case") or payload["disagreements"][0]["case"]
    if "case" in case and "files" not in case:
        case = case["case"]
    impl = run_partitioned([case], 90)
    exprs, index = model_exprs([case], impl)
    model = cm.coq_eval_json(REQ, exprs)
    ctx = cm.Ctx("C19", "quick", payload.get("seed", 0))
    if "__exc__" not in impl[0]:
        compare(ctx, [case], impl, index, model)
    print(json.dumps({"files": case["files"], "programs": case["programs"], "impl": impl[0],
                      "model": [[list(i[1:]), m] for i, m in zip(index, model)],
                      "oracle_violations": [[v["name"], v["detail"]] for v in ctx.violations],
                      "disagreements": [[d["name"], d["impl"], d["model"]] for d in ctx.disagreements],
                      "known": ctx.known_hits}, indent=1, default=str))
    return 0

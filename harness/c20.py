"""C20 - name analysis has no side effects on user objects.

Correspondence: symbol_needs_import(name, namespaces) and find_missing_imports(code, namespaces)
with tripwire objects in the namespaces and in sys.modules: the recorded attribute reads (in order)
and the result against AutoImp/Needs.v `needs_import` (its effect trace).  For compound code the
finder is a black box: every symbol_needs_import call it makes is captured (name + the bindings of
the name's prefixes in the scope stack it passed) and modelled (open mode).
Oracle (independent of the model): no event at all on an object that is not registered in
sys.modules under a dotted prefix of an analysed name, no ==/hash/bool/call/len/iter/repr event, no
import attempt (recording sys.meta_path finder, sys.modules keys), namespaces and source unchanged."""
import json
import os
import sys

from . import common as cm
from .c06 import Names, c_dotted, d_dotted, _in_grandchild  # noqa: F401

REQ = ["AutoImp.World", "AutoImp.Needs", "AutoImp.FinderEffects", "AutoImp.Wire"]

ANCHORS = ["pyflyby._autoimp:symbol_needs_import", "pyflyby._autoimp:find_missing_imports",
           "pyflyby._autoimp:ScopeStack.__init__", "pyflyby._autoimp:_MissingImportFinder._visit_Load",
           "pyflyby._autoimp:_MissingImportFinder._check_load"]

ROOTS = ["ta", "tb", "tc"]
PARTS = ["ua", "ub", "uc"]
KINDS = ["trip", "trip", "modsub", "miss", "prop", "mod", "plain", "pep562", "modprop", "anyeq"]


# ---------------------------------------------------------------------------------------------
# generator

def gen_case(seed, i):
    r = cm.rng(seed, "c20", i)
    boundary = (i % 5 == 0)
    objs = {}           # id -> {"kind":..., "attrs": {name: id}}
    registered = {}     # dotted -> id

    def new(kind=None):
        n = len(objs) + 1
        objs[n] = {"kind": kind or r.choice(KINDS), "attrs": {}}
        return n
    nss = [dict() for _ in range(r.choice([1, 1, 2, 3]))]
    chains = []
    for root in r.sample(ROOTS, r.randint(1, 3)):
        depth = r.choice([1, 2, 3, 4, 6, 8] if boundary else [1, 2, 2, 3, 4])
        path = [root] + [r.choice(PARTS) for _ in range(depth - 1)]
        chains.append(".".join(path))
        cur = new(r.choice(["trip", "modsub", "mod", "miss", "prop", "pep562", "modprop"]))
        lvl = r.randrange(len(nss))
        nss[lvl][root] = cur
        if r.random() < .3 and len(nss) > 1:                    # the same or another object further out
            q_ = r.random()
            other = cur if q_ < .4 else (new("anyeq") if q_ < .7 else new())   # anyeq: non-module, permissive __eq__
            nss[r.randrange(len(nss))].setdefault(root, other)
        for k in range(1, len(path) + 1):
            d = ".".join(path[:k])
            q = r.random()
            if q < .70:
                registered[d] = cur                                  # the registered module of that name
            elif q < .80:
                registered[d] = new()                                # something else is registered there
            # else: not registered
            if k == len(path):
                break
            q = r.random()
            if q < .8:
                nxt = new(r.choice(["trip", "modsub", "mod", "miss", "prop", "plain", "pep562", "modprop"]))
                objs[cur]["attrs"][path[k]] = nxt
                cur = nxt
            else:
                break                                                # attribute missing
        if boundary and r.random() < .4:                             # dotted key in a namespace
            k = r.randint(1, len(path))
            nss[r.randrange(len(nss))][".".join(path[:k])] = r.choice(sorted(objs))
    # extra attributes that nobody should read
    for n in list(objs):
        if r.random() < .3:
            objs[n]["attrs"].setdefault(r.choice(PARTS), new("trip"))
    names = []
    for c in chains:
        p = c.split(".")
        names.append(c)
        if r.random() < .6:
            names.append(".".join(p[:r.randint(1, len(p))]))
        if r.random() < .5:
            names.append(c + "." + r.choice(PARTS))
    if r.random() < .3:
        names.append(r.choice(["len", "zz", "zz.ua", "len.ua"]))
    r.shuffle(names)
    shapes = ["%s", "%s + 1", "f(%s)", "[%s for _ in ()]", "(lambda: %s)", "%s[0]", "x = %s", "%s = 1", "del %s",
              "def g():\n    return %s", "class K:\n    y = %s", "import ta.ua\n%s", "%s.method()",
              # constructs outside the finder's claimed domain, here purely for the frame oracle: analysing them
              # must not touch the namespaces or the objects in them
              "def g():\n    global ta\n    ta = 1\n%s", "def g():\n    global zq_, tb\n    zq_ = %s", "global tc\n%s",
              "def o():\n    v = 0\n    def i():\n        nonlocal v\n        v = %s\n    return i",
              "x = 1\ndel x\n%s", "del %s", "match %s:\n    case ta.ua:\n        pass\n    case _:\n        pass",
              "match 0:\n    case %s() as m:\n        pass", "async def c():\n    await %s", "async def c(p=%s):\n    pass",
              "if (y := %s):\n    pass", "with %s as w:\n    pass", "@%s\ndef f():\n    pass", "x = f'{%s!r}'",
              "import ta.ua as al\n%s", "from ta import ua\n%s", "try:\n    %s\nexcept tb.ub as e:\n    pass",
              "for ta.ua in ():\n    pass\n%s", "lambda q=%s: q", "class K(%s):\n    def m(self, p=tb, *a: tc) -> ta:\n        global tb"]
    codes = []
    for _ in range(r.randint(1, 3)):
        picks = [r.choice(names) for _ in range(r.randint(1, 3))]
        sh = r.choice(shapes)
        if sh in ("%s = 1", "del %s", "x = %s") or "\n" in sh or "import" in sh or not sh.startswith("%s"):
            codes.append(sh % picks[0])
        else:
            codes.append(" , ".join(r.choice(shapes[:6] + ["%s.method()"]) % p for p in picks))
    return {"i": i, "stream": "boundary" if boundary else "main",
            "objs": {str(k): v for k, v in objs.items()}, "registered": registered,
            "nss": nss, "names": names, "codes": codes}


# ---------------------------------------------------------------------------------------------
# implementation side (forked child per case)

def build(case, log):
    import types
    objs = {}
    idmap = {}

    def rec(kind, n, name=None):
        log.append([kind, n, name])

    class Trip(object):
        def __init__(self, n):
            object.__setattr__(self, "_n", n)
            object.__setattr__(self, "_a", {})

        def __getattribute__(self, name):
            n = object.__getattribute__(self, "_n")
            rec("get", n, name)
            a = object.__getattribute__(self, "_a")
            if name in a:
                return a[name]
            raise AttributeError(name)

        def __setattr__(self, name, v):
            rec("set", object.__getattribute__(self, "_n"), name)

        def __delattr__(self, name):
            rec("del", object.__getattribute__(self, "_n"), name)

        def __eq__(self, o):
            rec("eq", object.__getattribute__(self, "_n"))
            return self is o

        def __ne__(self, o):
            rec("ne", object.__getattribute__(self, "_n"))
            return self is not o

        def __hash__(self):
            rec("hash", object.__getattribute__(self, "_n"))
            return 7

        def __bool__(self):
            rec("bool", object.__getattribute__(self, "_n"))
            return True

        def __len__(self):
            rec("len", object.__getattribute__(self, "_n"))
            return 1

        def __call__(self, *a, **k):
            rec("call", object.__getattribute__(self, "_n"))

        def __iter__(self):
            rec("iter", object.__getattribute__(self, "_n"))
            return iter(())

        def __repr__(self):
            rec("repr", object.__getattribute__(self, "_n"))
            return "<trip>"
        __str__ = __repr__

    class ModSub(types.ModuleType):
        def __init__(self, n):
            types.ModuleType.__init__(self, "modsub%d" % n)
            object.__setattr__(self, "_n", n)
            object.__setattr__(self, "_a", {})
    for nm in ("__getattribute__", "__setattr__", "__delattr__", "__eq__", "__ne__", "__hash__", "__bool__",
               "__len__", "__call__", "__iter__", "__repr__", "__str__"):
        setattr(ModSub, nm, Trip.__dict__[nm])

    class AnyEq(Trip):
        def __eq__(self, o):
            rec("eq", object.__getattribute__(self, "_n"))
            return True

        def __ne__(self, o):
            rec("ne", object.__getattribute__(self, "_n"))
            return False

        def __hash__(self):
            rec("hash", object.__getattribute__(self, "_n"))
            return 0

    class Miss(object):
        """records only failed lookups (__getattr__) and the value protocols"""
        def __init__(self, n):
            self.__dict__["_n"] = n

        def __getattr__(self, name):
            rec("get", self.__dict__["_n"], name)
            raise AttributeError(name)

        def __eq__(self, o):
            rec("eq", self.__dict__["_n"])
            return self is o

        def __hash__(self):
            rec("hash", self.__dict__["_n"])
            return 7

        def __bool__(self):
            rec("bool", self.__dict__["_n"])
            return True

        def __call__(self, *a, **k):
            rec("call", self.__dict__["_n"])

    def mk_prop_class(n, attrs_box):
        def mkprop(name):
            def fget(self):
                rec("get", n, name)
                if name in attrs_box:
                    return attrs_box[name]
                raise AttributeError(name)
            return property(fget)
        d = {nm: mkprop(nm) for nm in PARTS + ROOTS}
        d["__bool__"] = lambda self: (rec("bool", n), True)[1]
        d["__eq__"] = lambda self, o: (rec("eq", n), self is o)[1]
        d["__hash__"] = lambda self: (rec("hash", n), 7)[1]
        return type("Prop%d" % n, (object,), d)

    spec = {int(k): v for k, v in case["objs"].items()}
    boxes = {}
    for n, sp in spec.items():
        k = sp["kind"]
        if k == "trip":
            o = Trip(n)
        elif k == "modsub":
            o = ModSub(n)
        elif k == "miss":
            o = Miss(n)
        elif k == "prop":
            boxes[n] = {}
            o = mk_prop_class(n, boxes[n])()
        elif k == "mod":
            o = types.ModuleType("plainmod%d" % n)
        elif k == "anyeq":
            # like unittest.mock.ANY: compares equal to everything; every use of ==, != or hash is recorded
            o = AnyEq(n)
        elif k == "pep562":
            # a plain module whose attributes are all served by a module-level __getattr__ (PEP 562)
            o = types.ModuleType("pep562mod%d" % n)
            boxes[n] = {}

            def mk(n=n):
                def __getattr__(name):
                    rec("get", n, name)
                    if name in boxes[n]:
                        return boxes[n][name]
                    raise AttributeError(name)
                return __getattr__
            o.__dict__["__getattr__"] = mk()
        elif k == "modprop":
            # a module subclass whose attributes are properties of the TYPE (nothing in the instance __dict__)
            boxes[n] = {}

            def mkprop(name, n=n):
                def fget(self):
                    rec("get", n, name)
                    if name in boxes[n]:
                        return boxes[n][name]
                    raise AttributeError(name)
                return property(fget)
            o = type("ModProp%d" % n, (types.ModuleType,), {nm_: mkprop(nm_) for nm_ in PARTS + ROOTS})("modprop%d" % n)
        else:
            o = "plain-%d" % n
        objs[n] = o
        idmap[id(o)] = n
    for n, sp in spec.items():
        k = sp["kind"]
        for a, t in sp["attrs"].items():
            if k in ("trip", "modsub", "anyeq"):
                object.__getattribute__(objs[n], "_a")[a] = objs[t]
            elif k == "miss":
                objs[n].__dict__[a] = objs[t]
            elif k in ("prop", "pep562", "modprop"):
                boxes[n][a] = objs[t]
            elif k == "mod":
                objs[n].__dict__[a] = objs[t]
            # plain strings have no such attributes
    return objs, idmap


def recordable(kind, has_attr, name=None):
    """does the real object log getattr(o, a)?"""
    if kind in ("trip", "modsub", "anyeq"):
        return True
    if kind in ("prop", "modprop"):
        return name in PARTS + ROOTS
    if kind == "pep562":
        return not (name or "").startswith("__")
    if kind == "miss":
        return not has_attr
    return False


def child_main(case):
    import pyflyby._autoimp as A
    log = []
    objs, idmap = build(case, log)
    for d, n in case["registered"].items():
        sys.modules[d] = objs[n]
    nss = [{k: objs[n] for k, n in ns.items()} for ns in case["nss"]]
    imports = []

    class Finder(object):
        def find_spec(self, name, path=None, target=None):
            imports.append(name)
            return None
    sys.meta_path.insert(0, Finder())
    mods_before = set(sys.modules)
    snap = [(id(ns), [(k, id(v)) for k, v in ns.items()]) for ns in nss]

    def unchanged():
        return all(id(ns) == i0 and [(k, id(v)) for k, v in ns.items()] == items
                   for ns, (i0, items) in zip(nss, snap))
    out = {"needs": [], "codes": [], "builtin_names": None}
    del log[:]
    for name in case["names"]:
        del log[:]
        try:
            r = bool(A.symbol_needs_import(name, nss))
        except BaseException as e:
            r = "EXC " + type(e).__name__
        out["needs"].append({"name": name, "r": r, "events": [list(e) for e in log], "unchanged": unchanged(),
                             "imports": list(imports), "newmods": sorted(set(sys.modules) - mods_before)})
        del imports[:]
    # compound code: capture every symbol_needs_import call the finder makes
    orig = A.symbol_needs_import
    calls = []

    def rec_needs(fullname, namespaces):
        name = str(fullname)
        parts = name.split(".")
        prefs = [".".join(parts[:k]) for k in range(1, len(parts) + 1)]
        stack = []
        for ns in (namespaces if not isinstance(namespaces, dict) else [namespaces]):
            lvl = {}
            for p in prefs:
                if p in ns:
                    v = dict.__getitem__(ns, p)
                    lvl[p] = idmap.get(id(v), "other:%d" % id(v))
            stack.append(lvl)
        n0 = len(log)
        res = orig(fullname, namespaces)
        calls.append({"name": name, "stack": stack, "r": bool(res), "events": [list(e) for e in log[n0:]]})
        return res
    A.symbol_needs_import = rec_needs
    for code in case["codes"]:
        del log[:]
        del calls[:]
        src = str(code)
        try:
            r = sorted(str(x) for x in A.find_missing_imports(code, nss))
        except SyntaxError:
            r = "SyntaxError"
        except BaseException as e:
            r = "EXC " + type(e).__name__
        out["codes"].append({"code": code, "r": r, "calls": [dict(c) for c in calls], "events": [list(e) for e in log],
                             "unchanged": unchanged(), "src_same": src == code, "imports": list(imports),
                             "newmods": sorted(set(sys.modules) - mods_before)})
        del imports[:]
    A.symbol_needs_import = orig
    import builtins
    allnames = set(ROOTS + PARTS + ["len", "zz", "f", "x", "g", "K", "y", "_"])
    out["builtin_names"] = sorted(n for n in allnames if n in builtins.__dict__)
    return out


def impl_case(case):
    res = _in_grandchild(lambda: child_main(case))
    if "__probe_exc__" in res:
        return {"__exc__": res["__probe_exc__"], "msg": res.get("msg", "")}
    return res


# ---------------------------------------------------------------------------------------------
# model side

def c_obj_id(x):
    if isinstance(x, int):
        return "(OExt %s)" % cm.cN(x)
    return "(OExt %s)" % cm.cN(100000 + (int(x.split(":")[1]) % 1000003))


def model_needs_expr(case, nm, stack, name, builtin_names=None):
    """stack: list of {dotted key: obj id | 'other:..'} (most global first)"""
    spec = {int(k): v for k, v in case["objs"].items()}
    levels = []
    if builtin_names is not None:
        levels.append(cm.clist([cm.cpair(cm.clist([cm.cN(nm.id(b))]), "(OExt %s)" % cm.cN(200000 + nm.id(b)))
                                for b in builtin_names]))
    for lvl in stack:
        levels.append(cm.clist([cm.cpair(c_dotted(nm, k), c_obj_id(v)) for k, v in sorted(lvl.items())]))
    loaded = cm.clist([cm.cpair(c_dotted(nm, d), c_obj_id(n)) for d, n in sorted(case["registered"].items())])
    attrs = []
    for n, sp in sorted(spec.items()):
        if sp["kind"] == "plain":
            continue
        for a, t in sorted(sp["attrs"].items()):
            attrs.append("(%s, %s, %s)" % (c_obj_id(n), cm.cN(nm.id(a)), c_obj_id(t)))
    return "run_needs %s %s %s %s" % (cm.clist(levels), loaded, cm.clist(attrs), c_dotted(nm, name))


def model_finder_expr(case, nm, calls):
    """the whole analysis: the thinnest client asking the captured questions in order (Wire.run_finder)"""
    spec = {int(k): v for k, v in case["objs"].items()}
    qs = []
    for call in calls:
        levels = [cm.clist([cm.cpair(c_dotted(nm, k), c_obj_id(v)) for k, v in sorted(lvl.items())]) for lvl in call["stack"]]
        qs.append(cm.cpair(cm.clist(levels), c_dotted(nm, call["name"])))
    loaded = cm.clist([cm.cpair(c_dotted(nm, d), c_obj_id(n)) for d, n in sorted(case["registered"].items())])
    attrs = []
    for n, sp in sorted(spec.items()):
        if sp["kind"] == "plain":
            continue
        for a, t in sorted(sp["attrs"].items()):
            attrs.append("(%s, %s, %s)" % (c_obj_id(n), cm.cN(nm.id(a)), c_obj_id(t)))
    return "run_finder %s %s %s" % (loaded, cm.clist(attrs), cm.clist(qs))


MODULE_LEVEL_NODES = None


def predicted_calls(code):
    """independent prediction of the finder's question list for the module-level fragment (expression
    statements and assignments to plain names built from names, attributes, calls, operators, subscripts,
    tuples, constants - no def / lambda / comprehension / class / import): one question per maximal
    dotted read, in evaluation order.  None outside the fragment."""
    import ast
    try:
        tree = ast.parse(code)
    except SyntaxError:
        return None
    ok = (ast.Module, ast.Expr, ast.Assign, ast.Name, ast.Attribute, ast.Call, ast.BinOp, ast.UnaryOp, ast.Subscript,
          ast.Tuple, ast.Constant, ast.Load, ast.Store, ast.operator, ast.unaryop, ast.keyword)
    for n in ast.walk(tree):
        if not isinstance(n, ok):
            return None
        if isinstance(n, ast.Assign) and not all(isinstance(t, ast.Name) for t in n.targets):
            return None
    out = []

    def chain(n):
        if isinstance(n, ast.Name):
            return n.id
        if isinstance(n, ast.Attribute):
            b = chain(n.value)
            return None if b is None else b + "." + n.attr
        return None

    def visit(n):
        if isinstance(n, (ast.Name, ast.Attribute)) and isinstance(n.ctx, ast.Load):
            c = chain(n)
            if c is not None:
                out.append(c)
                return
        if isinstance(n, ast.Assign):
            visit(n.value)                      # the finder visits the value before the targets
            return
        for ch in ast.iter_child_nodes(n):
            visit(ch)
    visit(tree)
    return out


def model_events(case, nm, mv):
    """the model's trace restricted to what the real objects can record"""
    spec = {int(k): v for k, v in case["objs"].items()}
    ev = []
    for o, a in mv["trace"]:
        n = o[1]
        if o[0] != "e" or n not in spec:
            continue
        an = nm.name(a)
        if recordable(spec[n]["kind"], an in spec[n]["attrs"], an):
            ev.append(["get", n, an])
    return ev


# ---------------------------------------------------------------------------------------------
# oracle

BAD_KINDS = {"eq", "ne", "hash", "bool", "len", "call", "iter", "repr", "set", "del"}


def oracle_events(case, names, events):
    """names: the dotted names analysed; every event must be getattr(o, a) with o registered in
    sys.modules under a dotted prefix d of one of the names and d.a also a prefix of that name"""
    bad = []
    reg = case["registered"]
    for kind, n, a in events:
        if kind in BAD_KINDS:
            bad.append(("no_import_no_call", "%s on user object %d" % (kind, n)))
            continue
        ok = False
        for name in names:
            parts = name.split(".")
            for k in range(1, len(parts)):
                d = ".".join(parts[:k])
                if reg.get(d) == n and parts[k] == a:
                    ok = True
        if not ok:
            bad.append(("getattr_only_on_registered_modules",
                        "getattr(obj %d, %r): the object is not the sys.modules entry of a dotted prefix of %r followed by that attribute" % (n, a, names)))
    return bad


def is_f20a(detail):
    """classifier of F20a: isinstance(var, _UseChecker) reads var.__class__"""
    return "'__class__'" in detail


def attr_names_in(code):
    import ast
    try:
        tree = ast.parse(code)
    except SyntaxError:
        return []
    out = set()

    def chain(n):
        if isinstance(n, ast.Name):
            return n.id
        if isinstance(n, ast.Attribute):
            b = chain(n.value)
            return None if b is None else b + "." + n.attr
        return None
    for n in ast.walk(tree):
        c = chain(n)
        if c:
            out.add(c)
        if isinstance(n, (ast.Import, ast.ImportFrom)):
            for al in n.names:
                out.add(al.name)
    return sorted(out)


# ---------------------------------------------------------------------------------------------

def run(ctx):
    cm.check_anchors(ctx, ANCHORS)
    n = int(os.environ.get("VERIF_C20_N", 0)) or (1400 if ctx.quick else 30000) * ctx.scale
    ctx.coverage["rule"] = ("generated namespaces (1-3 levels) holding tripwire objects (recording __getattribute__, module subclasses, "
                            "__getattr__-only, property classes, plain modules, strings) linked into attribute chains of depth 1-8, some registered "
                            "in sys.modules under the dotted path (same / different object / not at all), dotted keys in the boundary stream; per case "
                            "2-8 direct symbol_needs_import queries and 1-3 snippets through find_missing_imports; non-trivial = at least one attribute "
                            "read was recorded or modelled; distinct by hash of the case")
    ctx.assumptions += [
        "for compound snippets the finder is a black box: the symbol_needs_import calls it makes (name, bindings of the name's prefixes in the stack it passes) are captured from the real run and each is modelled (open mode)",
        "objects that cannot record (plain modules, strings) are compared on the result only",
    ]
    cases = cm.load_corpus("C20") + [gen_case(ctx.seed, i) for i in range(n)]
    impl = cm.run_impl("c20", "impl_case", cases, timeout_case=40)
    exprs, index = [], []
    for ci, (c, im) in enumerate(zip(cases, impl)):
        if "__exc__" in im or "__timeout__" in im:
            continue
        nm = Names()
        c["_nm"] = nm
        for qi, q in enumerate(im["needs"]):
            stack = [{k: v for k, v in ns.items()} for ns in c["nss"]]
            exprs.append(model_needs_expr(c, nm, [{}] + stack, q["name"], im["builtin_names"]))
            index.append((ci, "needs", qi, None))
        for ki, k in enumerate(im["codes"]):
            for cj, call in enumerate(k["calls"]):
                exprs.append(model_needs_expr(c, nm, call["stack"], call["name"]))
                index.append((ci, "call", ki, cj))
            exprs.append(model_finder_expr(c, nm, k["calls"]))
            index.append((ci, "finder", ki, None))
    model = cm.coq_eval_json(REQ, exprs, shard=300)
    got = {}
    for key, mv in zip(index, model):
        got[key] = mv
    for ci, (c, im) in enumerate(zip(cases, impl)):
        nm = c.pop("_nm", None)
        if "__exc__" in im or "__timeout__" in im:
            ctx.violation("harness_child_failed", c, im)
            ctx.count(c, False)
            continue
        nontriv = False
        viol = []
        for qi, q in enumerate(im["needs"]):
            mv = got[(ci, "needs", qi, None)]
            me = model_events(c, nm, mv)
            gets = [e for e in q["events"] if e[0] == "get" and e[2] != "__class__"]
            if q["r"] != mv["needs"] or gets != me:
                ctx.disagreement("symbol_needs_import", {"case": c, "name": q["name"]},
                                 {"r": q["r"], "events": q["events"]}, {"r": mv["needs"], "events": me})
            if not mv["registered"]:
                ctx.disagreement("model trace leaves the registered objects", {"case": c, "name": q["name"]}, None, mv)
            viol += oracle_events(c, [q["name"]], q["events"])
            if q["imports"] or q["newmods"]:
                viol.append(("no_import_no_call", "symbol_needs_import(%r) made the import system look for %r / registered %r" % (q["name"], q["imports"], q["newmods"])))
            if not q["unchanged"]:
                viol.append(("namespaces_unchanged", "symbol_needs_import(%r) changed a namespace" % q["name"]))
            nontriv = nontriv or bool(q["events"]) or bool(mv["trace"])
            ctx.bump("needs:%s" % q["r"])
            ctx.bump("trace_len:%d" % min(len(mv["trace"]), 6))
        for ki, k in enumerate(im["codes"]):
            allm = []
            for cj, call in enumerate(k["calls"]):
                mv = got[(ci, "call", ki, cj)]
                me = model_events(c, nm, mv)
                gets = [e for e in call["events"] if e[0] == "get" and e[2] != "__class__"]
                if call["r"] != mv["needs"] or gets != me:
                    ctx.disagreement("symbol_needs_import inside find_missing_imports", {"case": c, "code": k["code"], "call": call},
                                     {"r": call["r"], "events": call["events"]}, {"r": mv["needs"], "events": me})
                allm += me
            # the whole analysis (C20_analysis_*): the client asking the captured questions in order must give the
            # captured answers, in order, and its trace must be the complete event list of find_missing_imports
            fv = got[(ci, "finder", ki, None)]
            whole = model_events(c, nm, fv)
            real_all = [e for e in k["events"] if e[0] == "get" and e[2] != "__class__"]
            if fv["answers"] != [call["r"] for call in k["calls"]] or whole != real_all or not fv["registered"] \
               or [d_dotted(nm, q) for q in fv["asked"]] != [call["name"] for call in k["calls"]]:
                ctx.disagreement("find_missing_imports as a client of symbol_needs_import", {"case": c, "code": k["code"]},
                                 {"answers": [call["r"] for call in k["calls"]], "events": real_all},
                                 {"answers": fv["answers"], "events": whole})
            pc = predicted_calls(k["code"])
            if pc is not None:
                ctx.bump("module_level_fragment")
                import keyword
                import re
                code_ = k["code"]
                fast = bool(re.fullmatch(r"[A-Za-z_]\w*(\.[A-Za-z_]\w*)*", code_)) and not any(keyword.iskeyword(p_) for p_ in code_.split("."))
                # builtins, _builtins2, the user's namespaces, and (except on the bare-dotted-name fast path) the private scope
                depth = 2 + len(c["nss"]) + (0 if fast else 1)
                got_calls = [(call["name"], len(call["stack"])) for call in k["calls"]]
                if got_calls != [(n_, depth) for n_ in pc]:
                    ctx.disagreement("questions asked by the finder (module-level fragment): order and arguments",
                                     {"case": c, "code": k["code"]}, got_calls, [(n_, depth) for n_ in pc])
            outside = [e for e in k["events"] if e[0] != "get" or e[2] != "__class__"]
            inside = [e for call in k["calls"] for e in call["events"] if e[0] != "get" or e[2] != "__class__"]
            if outside != inside:
                viol.append(("getattr_only_on_registered_modules", "find_missing_imports(%r) touched user objects outside symbol_needs_import: %r" % (k["code"], [e for e in outside if e not in inside][:4])))
            names = attr_names_in(k["code"]) + [call["name"] for call in k["calls"]]
            viol += oracle_events(c, names, k["events"])
            if k["imports"] or k["newmods"]:
                viol.append(("no_import_no_call", "find_missing_imports(%r) made the import system look for %r / registered %r" % (k["code"], k["imports"], k["newmods"])))
            if not k["unchanged"] or not k["src_same"]:
                viol.append(("namespaces_unchanged", "find_missing_imports(%r) changed a namespace or the source" % k["code"]))
            if isinstance(k["r"], str) and k["r"].startswith("EXC"):
                viol.append(("no_internal_error", "find_missing_imports(%r) raised %s" % (k["code"], k["r"])))
            nontriv = nontriv or bool(k["events"])
            ctx.bump("finder_calls", len(k["calls"]))
        seen = set()
        for clause, detail in viol:
            if (clause, detail) in seen:
                continue
            seen.add((clause, detail))
            ctx.violation(clause, c, detail)
        ctx.bump("stream:" + c["stream"])
        ctx.count(c, nontriv)
        if nontriv:
            ctx.sample({"case": c, "first_query": im["needs"][0] if im["needs"] else None}, limit=2)
    ctx.notes["model_evaluations_in_kernel"] = len(exprs)


def replay(payload):
    case = payload.get("case") or payload["disagreements"][0]["case"]
    if "case" in case and "objs" not in case:
        case = case["case"]
    im = impl_case(case) if os.environ.get("VERIF_C20_INPROC") else cm.run_impl("c20", "impl_case", [case], jobs=1)[0]
    out = {"case": case, "impl": im}
    if "__exc__" not in im:
        nm = Names()
        exprs = [model_needs_expr(case, nm, [{}] + case["nss"], q["name"], im["builtin_names"]) for q in im["needs"]]
        mvs = cm.coq_eval_json(REQ, exprs)
        out["model"] = [{"name": q["name"], "needs": mv["needs"], "events": model_events(case, nm, mv)} for q, mv in zip(im["needs"], mvs)]
        orc = []
        for q in im["needs"]:
            orc += oracle_events(case, [q["name"]], q["events"])
        for k in im["codes"]:
            orc += oracle_events(case, attr_names_in(k["code"]) + [c["name"] for c in k["calls"]], k["events"])
        out["oracle"] = orc
    print(json.dumps(out, indent=1, default=str))
    return 0

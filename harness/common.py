"""Shared machinery of the /verif checks (see DESIGN.md sections 1, 3 and Appendix B).

A check = proof audit (Coq build + Print Assumptions transcript + forbidden-word scan)
        + correspondence (implementation in /repo vs the Gallina model evaluated by
          coqc/vm_compute on the same cases)
        + oracle stage (independent property predicate on the implementation)
        + evidence / exit code.
"""
import fcntl
import hashlib
import json
import os
import random
import re
import shutil
import subprocess
import sys
import tempfile
import time
import traceback
from concurrent.futures import ThreadPoolExecutor
from pathlib import Path

VERIF = Path(__file__).resolve().parent.parent
REPO = os.environ.get("VERIF_REPO", "/repo")
PY = os.environ.get("VERIF_PY", "/venv/bin/python")
COQ = VERIF / "coq"
NCPU = int(os.environ.get("VERIF_JOBS", str(os.cpu_count() or 4)))
GUARD = "PYFLYBY_VERIF"

ALLOWED_AXIOMS = set()      # no axiom is needed by any property theorem; see DESIGN section 6

FORBIDDEN = [r"\bAdmitted\b", r"\badmit\b", r"\bAxiom\b", r"\bAxioms\b", r"\bParameter\b", r"\bParameters\b",
             r"\bConjecture\b", r"Unset\s+Guard", r"bypass_check", r"type-in-type", r"impredicative-set",
             r"Admit\s+Obligations", r"Unset\s+Positivity", r"Unset\s+Universe\s+Checking",
             r"\bnative_compute\b"]


# ----------------------------------------------------------------------------------------------
# small utilities

def sh(cmd, timeout=600, cwd=None, env=None, input=None):
    p = subprocess.run(cmd, shell=isinstance(cmd, str), cwd=cwd, env=env, input=input,
                       stdout=subprocess.PIPE, stderr=subprocess.STDOUT, text=True, timeout=timeout)
    return p.returncode, p.stdout


def impl_env(extra=None, home=None):
    """Environment of every implementation-side process: pyflyby is imported from the
    working tree of REPO, nothing is cached, nothing is written into it."""
    env = {k: v for k, v in os.environ.items()
           if k in ("PATH", "LANG", "LC_ALL", "TERM", "TMPDIR", "VERIF_REPO", "VERIF_PY", "VERIF_JOBS")}
    env.setdefault("PATH", "/usr/local/bin:/usr/bin:/bin")
    env["PYTHONPATH"] = "%s/lib/python:%s" % (REPO, VERIF)
    env["PYTHONDONTWRITEBYTECODE"] = "1"
    env["PYTHONHASHSEED"] = "0"
    env["PYFLYBY_LOG_LEVEL"] = "ERROR"
    env["PYFLYBY_PATH"] = "EMPTY"
    env["VERIF_REPO"] = REPO
    env[GUARD] = "1"
    env["HOME"] = home or "/nonexistent-verif-home"
    env["LC_ALL"] = "C.UTF-8"
    env["PYTHONIOENCODING"] = "utf-8"
    if extra:
        env.update(extra)
    return env


def derive_seed(seed, *parts):
    h = hashlib.sha256(("%s|%s" % (seed, "|".join(map(str, parts)))).encode()).hexdigest()
    return int(h[:12], 16)


def rng(seed, *parts):
    return random.Random(derive_seed(seed, *parts))


def canon_hash(obj):
    return hashlib.sha256(json.dumps(obj, sort_keys=True, default=str).encode()).hexdigest()[:16]


# ----------------------------------------------------------------------------------------------
# Coq term rendering and evaluation

def coq_escape(s):
    out = []
    for c in s:
        o = ord(c)
        if 32 <= o <= 126 and c not in '$"\\':
            out.append(c)
        else:
            out.append("$%x;" % o)
    return "".join(out)


def coq_unescape(s):
    return re.sub(r"\$([0-9a-f]+);", lambda m: chr(int(m.group(1), 16)), s)


def cstr(s):
    """Python str -> Gallina term of type str (= list N)."""
    return '(dec "%s")' % coq_escape(s)


def cstring(s):
    """Python str -> Gallina term of type string (ASCII only, escaped)."""
    return '"%s"' % coq_escape(s)


def cN(n):
    return "%d%%N" % n


def cnat(n):
    assert 0 <= n < 5000, "nat literal too large: %r" % (n,)
    return "%d%%nat" % n


def cbool(b):
    return "true" if b else "false"


def clist(items):
    return "[" + "; ".join(items) + "]"


def copt(x, f=lambda v: v):
    return "None" if x is None else "(Some %s)" % f(x)


def cpair(a, b):
    return "(%s, %s)" % (a, b)


def unescape_deep(x):
    if isinstance(x, str):
        return coq_unescape(x)
    if isinstance(x, list):
        return [unescape_deep(v) for v in x]
    if isinstance(x, dict):
        return {k: unescape_deep(v) for k, v in x.items()}
    return x


def _parse_string_list(out):
    """Parse the strings of `= ["..."; "..."] : list string` as printed by coqc."""
    res = []
    i = out.find("= ")
    if i < 0:
        raise RuntimeError("no result in coqc output: %r" % out[:400])
    n = len(out)
    while i < n:
        c = out[i]
        if c == '"':
            i += 1
            buf = []
            while True:
                j = out.index('"', i)
                buf.append(out[i:j])
                if j + 1 < n and out[j + 1] == '"':
                    buf.append('"')
                    i = j + 2
                else:
                    i = j + 1
                    break
            res.append("".join(buf))
        else:
            i += 1
    return res


COQ_HEADER = """From Coq Require Import String List NArith ZArith Bool.
From Verif Require Import Base.Chars Base.Show%s.
Import ListNotations.
Open Scope string_scope.
Set Printing Width 10000000.
Set Printing Depth 10000000.
"""


class CoqEvalError(RuntimeError):
    pass


def _coq_one(args):
    idx, text, tmpdir, timeout = args
    path = os.path.join(tmpdir, "Cases%d.v" % idx)
    with open(path, "w") as f:
        f.write(text)
    cmd = "ulimit -s unlimited 2>/dev/null; exec coqc -q -Q %s/theories Verif -w -all -o %s %s" % (
        COQ, os.path.join(tmpdir, "Cases%d.vo" % idx), path)
    rc, out = sh(["bash", "-c", cmd], timeout=timeout, cwd=tmpdir)
    if rc != 0:
        raise CoqEvalError("coqc failed on %s:\n%s" % (path, out[-3000:]))
    return out


def coq_eval(requires, exprs, prelude="", shard=250, jobs=None, timeout=900, keep=None):
    """Evaluate Gallina expressions of type `string` by vm_compute inside coqc.
    requires: list like ["Imports.Format"].  Returns the list of result strings (wire-escaped
    form undone only by the caller via json + unescape_deep, or coq_unescape)."""
    if not exprs:
        return []
    jobs = jobs or NCPU
    req = "".join(" " + r for r in requires)
    tmpdir = tempfile.mkdtemp(prefix="verif-coq-")
    try:
        tasks = []
        for k in range(0, len(exprs), shard):
            chunk = exprs[k:k + shard]
            text = (COQ_HEADER % req) + prelude + "\nEval vm_compute in [\n" + ";\n".join(chunk) + "\n].\n"
            tasks.append((k // shard, text, tmpdir, timeout))
        with ThreadPoolExecutor(max_workers=jobs) as ex:
            outs = list(ex.map(_coq_one, tasks))
        res = []
        for (k, text, _, _), out in zip(tasks, outs):
            got = _parse_string_list(out)
            want = min(shard, len(exprs) - k * shard)
            if len(got) != want:
                raise CoqEvalError("expected %d results, parsed %d:\n%s" % (want, len(got), out[:2000]))
            res.extend(got)
        return res
    finally:
        if keep:
            shutil.copytree(tmpdir, keep, dirs_exist_ok=True)
        shutil.rmtree(tmpdir, ignore_errors=True)


def coq_eval_json(requires, exprs, **kw):
    """Same, for models whose `show` emits JSON; strings inside are un-escaped."""
    out = []
    for s in coq_eval(requires, exprs, **kw):
        try:
            out.append(unescape_deep(json.loads(s)))
        except Exception as e:
            raise CoqEvalError("model output is not JSON: %r (%s)" % (s[:500], e))
    return out


# ----------------------------------------------------------------------------------------------
# implementation-side workers

def run_impl(module, func, cases, jobs=None, timeout_case=30, env_extra=None, chunk=None):
    """Run harness.<module>.<func>(case) for every case in fresh /venv/bin/python processes
    (pyflyby imported from REPO's working tree).  Returns list of results; a result
    {"__exc__": type, "msg": ...} records an escaped exception, {"__timeout__": true} a timeout."""
    jobs = jobs or NCPU
    if not cases:
        return []
    n = len(cases)
    nchunks = min(jobs, n) if chunk is None else max(1, (n + chunk - 1) // chunk)
    tmpdir = tempfile.mkdtemp(prefix="verif-impl-")
    try:
        parts = [list(range(i, n, nchunks)) for i in range(nchunks)]
        procs = []
        for k, idxs in enumerate(parts):
            inp = os.path.join(tmpdir, "in%d.json" % k)
            outp = os.path.join(tmpdir, "out%d.json" % k)
            with open(inp, "w") as f:
                json.dump([cases[i] for i in idxs], f)
            home = os.path.join(tmpdir, "home%d" % k)
            os.makedirs(home)
            p = subprocess.Popen([PY, "-m", "harness.worker", module, func, inp, outp, str(timeout_case)],
                                 cwd=str(VERIF), env=impl_env(env_extra, home=home),
                                 stdout=subprocess.PIPE, stderr=subprocess.STDOUT, text=True)
            procs.append((k, idxs, outp, p))
        results = [None] * n

        def start(k, idxs):
            inp = os.path.join(tmpdir, "in%d.json" % k)
            outp = os.path.join(tmpdir, "out%d.json" % k)
            if os.path.exists(outp):
                os.unlink(outp)
            return subprocess.Popen([PY, "-m", "harness.worker", module, func, inp, outp, str(timeout_case)],
                                    cwd=str(VERIF), env=impl_env(env_extra, home=os.path.join(tmpdir, "home%d" % k)),
                                    stdout=subprocess.PIPE, stderr=subprocess.STDOUT, text=True)

        for k, idxs, outp, p in procs:
            # A worker that dies (killed, out of memory, interpreter crash) is infrastructure, not a
            # verdict: the cases themselves are guarded inside the worker.  Retry the chunk once.
            for attempt in (1, 2):
                try:
                    out, _ = p.communicate(timeout=timeout_case * (len(idxs) + 5) + 120)
                except subprocess.TimeoutExpired:
                    p.kill()
                    out, _ = p.communicate()
                if p.returncode == 0 and os.path.exists(outp):
                    break
                if attempt == 2:
                    raise RuntimeError("implementation worker failed twice (rc=%s):\n%s" % (p.returncode, out[-3000:]))
                sys.stderr.write("implementation worker %d died (rc=%s); retrying once\n" % (k, p.returncode))
                p = start(k, idxs)
            with open(outp) as f:
                rs = json.load(f)
            for i, r in zip(idxs, rs):
                results[i] = r
        return results
    finally:
        shutil.rmtree(tmpdir, ignore_errors=True)


# ----------------------------------------------------------------------------------------------
# proof audit

def strip_coq_comments(src):
    out = []
    depth = 0
    i = 0
    n = len(src)
    instr = False
    while i < n:
        if not instr and src.startswith("(*", i):
            depth += 1
            i += 2
            continue
        if not instr and depth and src.startswith("*)", i):
            depth -= 1
            i += 2
            continue
        c = src[i]
        if depth == 0:
            if c == '"':
                instr = not instr
            out.append(c)
        i += 1
    return "".join(out)


def scan_forbidden():
    """Forbidden constructs anywhere in the development (comments and string literals ignored)."""
    hits = []
    for p in sorted((COQ / "theories").rglob("*.v")):
        src = strip_coq_comments(p.read_text())
        src_nostr = re.sub(r'"(?:[^"]|"")*"', '""', src)
        for pat in FORBIDDEN:
            for m in re.finditer(pat, src_nostr):
                line = src_nostr.count("\n", 0, m.start()) + 1
                hits.append("%s:%d: %s" % (p.relative_to(COQ), line, m.group(0)))
        # Variable / Hypothesis / Context outside a Section declare axioms
        depth = 0
        for ln, line in enumerate(src_nostr.split("\n"), 1):
            s = line.strip()
            if re.match(r"Section\s+\w+", s):
                depth += 1
            elif re.match(r"End\s+\w+", s) and depth > 0:
                depth -= 1
            elif depth == 0 and re.match(r"(Variable|Variables|Hypothesis|Hypotheses|Context)\b", s):
                hits.append("%s:%d: %s outside a Section" % (p.relative_to(COQ), ln, s.split()[0]))
    return hits


def write_coqproject():
    files = sorted(str(p.relative_to(COQ)) for p in (COQ / "theories").rglob("*.v"))
    text = "-Q theories Verif\n-arg -w -arg -notation-overridden,-deprecated-hint-without-locality,-deprecated\n" + "\n".join(files) + "\n"
    cp = COQ / "_CoqProject"
    if not cp.exists() or cp.read_text() != text:
        cp.write_text(text)
        return True
    return False


def coq_build(clean=False, timeout=3000):
    """Full .vo build of the development under a lock; returns (ok, log)."""
    lock = open(COQ / ".build.lock", "w")
    fcntl.flock(lock, fcntl.LOCK_EX)
    try:
        changed = write_coqproject()
        if changed or not (COQ / "Makefile").exists():
            rc, out = sh("coq_makefile -f _CoqProject -o Makefile", cwd=str(COQ))
            if rc != 0:
                return False, out
        if clean:
            sh("make clean", cwd=str(COQ), timeout=300)
        rc, out = sh("timeout %d make -j%d" % (timeout, NCPU), cwd=str(COQ), timeout=timeout + 60)
        return rc == 0, out
    finally:
        fcntl.flock(lock, fcntl.LOCK_UN)
        lock.close()


def proof_audit(prop, tier="quick"):
    """Build, re-run Properties/<prop>.v capturing Print Assumptions, scan for forbidden words.
    Returns dict(ok, obligations, discharged, theorems=[{name, assumptions}], problems=[...], checker_cmd)."""
    res = {"ok": False, "obligations": 0, "discharged": 0, "theorems": [], "problems": [],
           "checker_cmd": "cd /verif/coq && coq_makefile -f _CoqProject -o Makefile && make -j%d && coqc -Q theories Verif theories/Properties/%s.v  (Print Assumptions under every theorem)" % (NCPU, prop)}
    ok, log = coq_build(clean=False)
    if not ok:
        m = re.findall(r'File "\./([^"]+)", line (\d+)', log)
        res["problems"].append("coq build failed: %s" % (":".join(m[-1]) if m else "see log"))
        res["build_log_tail"] = log[-2500:]
        return res
    pfile = COQ / "theories" / "Properties" / ("%s.v" % prop)
    if not pfile.exists():
        res["problems"].append("missing %s" % pfile)
        return res
    src = strip_coq_comments(pfile.read_text())
    names = re.findall(r"^\s*(?:Theorem|Lemma|Corollary)\s+(\w+)", src, re.M)
    printed = re.findall(r"Print\s+Assumptions\s+(\w+)", src)
    tmp = tempfile.mkdtemp(prefix="verif-audit-")
    try:
        rc, out = sh(["coqc", "-q", "-Q", str(COQ / "theories"), "Verif", "-w", "-all",
                      "-o", os.path.join(tmp, "%s.vo" % prop), str(pfile)], timeout=900, cwd=tmp)
    finally:
        shutil.rmtree(tmp, ignore_errors=True)
    if rc != 0:
        res["problems"].append("coqc failed on Properties/%s.v" % prop)
        res["build_log_tail"] = out[-2500:]
        return res
    # transcript: one block per Print Assumptions, in order
    blocks = re.split(r"(?m)^(?=Closed under the global context|Axioms:)", out)
    blocks = [b for b in blocks if b.startswith("Closed under") or b.startswith("Axioms:")]
    if set(names) - set(printed):
        res["problems"].append("theorems without Print Assumptions: %s" % sorted(set(names) - set(printed)))
    if len(blocks) != len(printed):
        res["problems"].append("Print Assumptions transcript has %d blocks for %d commands" % (len(blocks), len(printed)))
    res["obligations"] = len(names)
    for name, b in zip(printed, blocks):
        if b.startswith("Closed under"):
            ax = []
        else:
            ax = re.findall(r"(?m)^([A-Za-z_][\w.']*)\s*:", b[len("Axioms:"):])
        bad = [a for a in ax if a not in ALLOWED_AXIOMS]
        res["theorems"].append({"name": name, "assumptions": ax or "Closed under the global context"})
        if name in names:
            if bad:
                res["problems"].append("theorem %s depends on axioms %s" % (name, bad))
            else:
                res["discharged"] += 1
    hits = scan_forbidden()
    if hits:
        res["problems"].append("forbidden constructs: " + "; ".join(hits[:10]))
    if tier == "thorough" and not res["problems"]:
        rc, out = sh("timeout 1500 coqchk -silent -o -Q theories Verif Verif.Properties.%s" % prop,
                     cwd=str(COQ), timeout=1600)
        res["coqchk"] = out[-1500:]
        res["checker_cmd"] += " ; coqchk -silent -o -Q theories Verif Verif.Properties.%s" % prop
        if rc != 0:
            res["problems"].append("coqchk failed")
        else:
            m = re.search(r"\* Axioms:(.*?)(?:\n\*|\Z)", out, re.S)
            axs = [a.strip() for a in (m.group(1).strip().split("\n") if m else []) if a.strip() and "<none>" not in a]
            res["coqchk_axioms"] = axs
            if axs:
                res["problems"].append("coqchk reports axioms: %s" % axs)
    res["ok"] = (not res["problems"]) and res["obligations"] > 0 and res["discharged"] == res["obligations"]
    return res


# ----------------------------------------------------------------------------------------------
# known findings

def load_known(prop):
    """known_findings.json (committed, never written at run time); known_findings.d/Cxx.json are the
    per-property sources it is merged from (tools/mkmanifest.py) and are read too, de-duplicated by id."""
    out, seen = [], set()
    paths = [VERIF / "known_findings.json", VERIF / "known_findings.d" / ("%s.json" % prop)]
    for p in paths:
        if not p.exists():
            continue
        data = json.loads(p.read_text())
        for e in data.get("findings", []):
            if e.get("property") == prop and e.get("id") not in seen:
                seen.add(e.get("id"))
                out.append(e)
    return out


# ----------------------------------------------------------------------------------------------
# the check context

class Ctx:
    def __init__(self, prop, tier, seed):
        self.prop, self.tier, self.seed = prop, tier, seed
        self.t0 = time.time()
        self.violations = []          # concrete property failures (stage oracle/model) not in known findings
        self.disagreements = []       # model vs implementation
        self.known_hits = {}          # finding id -> description
        self.coverage = {"evaluations": 0, "distinct_nontrivial": 0, "samples": [], "rule": ""}
        self.assumptions = []
        self.notes = {}
        self.known = load_known(prop)
        self._distinct = set()
        self.quick = (tier != "thorough")
        self.scale = 1                # raised by check_anchors when a modelled function changed

    # -- bookkeeping
    def count(self, case, nontrivial):
        self.coverage["evaluations"] += 1
        if nontrivial:
            self._distinct.add(canon_hash(case))

    def sample(self, x, limit=4):
        if len(self.coverage["samples"]) < limit:
            self.coverage["samples"].append(x)

    def bump(self, key, n=1):
        d = self.coverage.setdefault("distribution", {})
        d[key] = d.get(key, 0) + n

    def open_findings(self):
        return [e for e in self.known if e.get("status") == "open"]

    # -- outcomes
    def violation(self, name, case, detail, stage="oracle"):
        self.violations.append({"stage": stage, "name": name, "case": case, "detail": detail})

    def disagreement(self, name, case, impl, model):
        self.disagreements.append({"stage": "correspondence", "name": name, "case": case, "impl": impl, "model": model})

    def known_hit(self, fid, what):
        self.known_hits.setdefault(fid, what)


def write_replay(prop, payload, tag):
    d = VERIF / "replays"
    d.mkdir(exist_ok=True)
    path = d / ("%s-%s-%s.json" % (prop, tag, canon_hash(payload)))
    path.write_text(json.dumps(payload, indent=1, sort_keys=True, default=str))
    return str(path)


def finish(ctx, audit):
    """Decide, write evidence, print VIOLATION / KNOWN-FINDING lines, return the exit code."""
    prop = ctx.prop
    lines = []
    rc = 0
    for fid, what in sorted(ctx.known_hits.items()):
        lines.append("KNOWN-FINDING: property=%s %s %s" % (prop, fid, what))
    nviol = 0
    if ctx.violations:
        for v in ctx.violations[:5]:
            path = write_replay(prop, dict(v, property=prop, seed=ctx.seed, tier=ctx.tier), "violation")
            lines.append("VIOLATION property=%s replay=%s" % (prop, path))
            nviol += 1
        rc = 1
    elif ctx.disagreements or not audit["ok"]:
        payload = {"property": prop, "seed": ctx.seed, "tier": ctx.tier}
        if not audit["ok"]:
            payload.update(stage="proof", name="proof obligations of Properties/%s.v" % prop,
                           problems=audit["problems"], build_log_tail=audit.get("build_log_tail"))
        if ctx.disagreements:
            payload.setdefault("stage", "correspondence")
            payload["name"] = payload.get("name", "") + " correspondence:" + ",".join(sorted({d["name"] for d in ctx.disagreements}))
            payload["disagreements"] = ctx.disagreements[:5]
            payload["n_disagreements"] = len(ctx.disagreements)
        path = write_replay(prop, payload, "unproved")
        lines.append("VIOLATION property=%s replay=%s no-failing-input-found" % (prop, path))
        nviol = 1
        rc = 1
    cov = ctx.coverage
    cov["distinct_nontrivial"] = len(ctx._distinct)
    cov["obligations"] = audit["obligations"]
    cov["discharged"] = audit["discharged"]
    cov["checker_cmd"] = audit["checker_cmd"]
    cov["theorems"] = audit["theorems"]
    cov["trusted_base"] = [
        "Coq 8.16.1 kernel (coqc; vm_compute used in closed proofs by computation and in the correspondence evaluation; no native_compute)",
        "axioms: none (every property theorem is reported 'Closed under the global context' by Print Assumptions)",
        "hand-written Gallina model tied to /repo by the correspondence check on generated cases only",
        "Python harness: generators, canonicalisers, comparison; CPython 3.12.1 as the oracle for Python semantics",
    ] + list(ctx.notes.get("trusted_base", []))
    cov["disagreements"] = len(ctx.disagreements)
    cov["known_findings_reproduced"] = sorted(ctx.known_hits)
    if audit.get("coqchk_axioms") is not None:
        cov["coqchk_axioms"] = audit["coqchk_axioms"]
    for k, v in ctx.notes.items():
        if k != "trusted_base":
            cov[k] = v
    ev = {"property_id": prop, "tier": ctx.tier, "seed": ctx.seed, "level": "proof", "coverage": cov,
          "assumptions": ctx.assumptions, "wall_s": round(time.time() - ctx.t0, 2), "violations": nviol}
    # VERIF_EVIDENCE_DIR: used only by tools/run_seeds.py so that runs against mutated scratch trees do not
    # overwrite the evidence of the registered checks (which always write /verif/evidence)
    evdir = Path(os.environ.get("VERIF_EVIDENCE_DIR") or (VERIF / "evidence"))
    evdir.mkdir(exist_ok=True)
    (evdir / ("%s.json" % prop)).write_text(json.dumps(ev, indent=1, default=str))
    for l in lines:
        print(l)
    print("%s %s: obligations %d/%d, evaluations %d (distinct non-trivial %d), disagreements %d, violations %d, known findings %d, %.1fs"
          % (prop, ctx.tier, audit["discharged"], audit["obligations"], cov["evaluations"], cov["distinct_nontrivial"],
             len(ctx.disagreements), len(ctx.violations), len(ctx.known_hits), time.time() - ctx.t0))
    sys.stdout.flush()
    return rc


# ----------------------------------------------------------------------------------------------
# source anchors: which of the modelled Python functions changed since the model was last validated

def anchor_hashes(names):
    """(runs in an implementation worker) names like "pyflyby._importstmt:Import.replace" ->
    sha256 of the function's AST dump (formatting/comment changes do not count)."""
    import ast
    import importlib
    import inspect
    import textwrap
    out = {}
    for n in names:
        try:
            modname, qual = n.split(":")
            obj = importlib.import_module(modname)
            for part in qual.split("."):
                obj = inspect.getattr_static(obj, part) if not inspect.ismodule(obj) else getattr(obj, part)
                obj = getattr(obj, "__func__", obj)
                obj = getattr(obj, "fget", obj) if isinstance(obj, property) else obj
                if type(obj).__name__ == "cached_property":      # functools.cached_property (pyflyby's cached_attribute)
                    obj = obj.func
            obj = getattr(obj, "__wrapped__", obj)
            src = textwrap.dedent(inspect.getsource(obj))
            out[n] = hashlib.sha256(ast.dump(ast.parse(src)).encode()).hexdigest()[:16]
        except Exception as e:
            out[n] = "unavailable:%s" % type(e).__name__
    return out


def _anchor_worker(case):
    return anchor_hashes(case["names"])


def check_anchors(ctx, names):
    """Compare the modelled functions of REPO with anchors/<prop>.json (recorded when the model was last
    validated against the code, `./check anchors Cxx`).  A change is not a violation: it multiplies the
    exploration budget (ctx.scale) and is written into the evidence."""
    cur = run_impl("common", "_anchor_worker", [{"names": names}], jobs=1)[0]
    p = VERIF / "anchors" / ("%s.json" % ctx.prop)
    rec = json.loads(p.read_text()) if p.exists() else {}
    changed = sorted(n for n in names if rec.get(n) != cur.get(n))
    ctx.notes["modelled_functions"] = names
    ctx.notes["modelled_functions_changed_since_validation"] = changed
    ctx.scale = 4 if (changed and rec) else 1
    return cur, changed


def record_anchors(prop, names):
    cur = run_impl("common", "_anchor_worker", [{"names": names}], jobs=1)[0]
    (VERIF / "anchors").mkdir(exist_ok=True)
    (VERIF / "anchors" / ("%s.json" % prop)).write_text(json.dumps(cur, indent=1, sort_keys=True))
    return cur


def load_corpus(prop):
    d = VERIF / "corpus" / prop
    out = []
    if d.is_dir():
        for p in sorted(d.glob("*.json")):
            out.append(json.loads(p.read_text()))
    return out

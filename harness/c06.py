"""C06 - auto-import adds only needed names and never clobbers   (C07 shares these runs, see c07.py)

Correspondence: pyflyby.auto_import(code, namespaces, db=..., autoimported=cell) on a synthetic
universe written to disk, one fresh interpreter state per case (fork of a worker that has only
imported pyflyby), against AutoImp/*.v: namespaces by object identity class, return value,
`autoimported`, `_IMPORT_FAILED`, sys.modules, module attributes, executed module bodies and executed
import statements after EVERY call of a generated call sequence.
Oracle (independent of the model): snapshot diff of the real dicts, recording wrappers around
`_try_import` / `exec`, and (C07) execution of the snippet after a True result."""
import ast
import json
import os
import select
import shutil
import sys
import tempfile
import traceback

from . import common as cm

REQ = ["AutoImp.World", "AutoImp.Needs", "AutoImp.TryImport", "AutoImp.AutoImport", "AutoImp.Wire"]

ANCHORS = ["pyflyby._autoimp:symbol_needs_import", "pyflyby._autoimp:get_known_import", "pyflyby._autoimp:_try_import",
           "pyflyby._autoimp:auto_import_symbol", "pyflyby._autoimp:auto_import", "pyflyby._autoimp:find_missing_imports",
           "pyflyby._autoimp:ScopeStack.__init__", "pyflyby._importdb:ImportDB.by_fullname_or_import_as.func",
           "pyflyby._modules:ModuleHandle.exists.func", "pyflyby._modules:ModuleHandle.ancestors.func"]

TOPS = ["pa", "pb", "qa", "ma"]
SUBS = ["sa", "sb"]
ATTR = ["xa", "xb"]
NEVER = "zz"
ALIAS = ["al", "xa", "pa"]
BUILTINS_USED = ["len", "id"]


# ---------------------------------------------------------------------------------------------
# generators

# what the body of a module that "raises" does.  _try_import / ModuleHandle.exists catch `Exception`:
# every kind below must be treated alike (recorded in _IMPORT_FAILED, never attempted again)
RAISE_KINDS = ["RuntimeError", "SyntaxError", "SyntaxError", "ImportError", "ModuleNotFoundError", "ZeroDivisionError",
               "badsibling", "badfile", "AttributeError", "KeyError",
               # exceptions that cannot be printed: str(e) / repr(e) raise (a message formatted eagerly inside the
               # `except` block would escape before the failure is recorded)
               "BadStr", "BadRepr", "BadStrRepr", "Unprintable",
               # "resource" exceptions (all are Exception subclasses: recorded like any other failure)
               "MemoryError", "RecursionError", "deeprec", "ENOSPC", "TimeoutError", "BufferError"]
LAZY = ["la", "lb"]                         # attributes served by a module-level __getattr__ (PEP 562)
DUNDERS = ["__class__", "__dict__", "__name__", "__doc__"]   # attributes every module has (some live on the module TYPE)


def rk(r, p):
    return r.choice(RAISE_KINDS) if r.random() < p else False


def gen_world(r, clash):
    mods = {}
    for top in TOPS:
        if r.random() < 0.8:
            pkg = r.random() < 0.6
            mods[top] = dict(pkg=pkg, attrs=[a for a in ATTR if r.random() < .5], raises=rk(r, .15))
            if pkg:
                for s in SUBS:
                    if r.random() < .6:
                        pk2 = r.random() < .3
                        d = top + "." + s
                        mods[d] = dict(pkg=pk2, attrs=[a for a in ATTR if r.random() < .5], raises=rk(r, .17))
                        if pk2 and r.random() < .7:
                            mods[d + ".sb"] = dict(pkg=False, attrs=["xa"], raises=rk(r, .1))
                        if clash and r.random() < .5:
                            mods[top]["attrs"].append(s)        # static attribute spelled like the submodule
            elif r.random() < .15:
                # a file below a non-package: never importable
                mods[top + ".sa"] = dict(pkg=False, attrs=["xa"], raises=False)
    return mods


def add_lazy(r, mods):
    for d, m in mods.items():
        if r.random() < .2:
            m["lazy"] = [a for a in LAZY if r.random() < .7] or ["la"]
            m["attrs"] = list(m["attrs"]) + m["lazy"]
    return mods


def close_world(mods):
    """drop entries whose parent is not in the universe (a directory without __init__.py would be a
    namespace package on disk, which the World model does not have)"""
    for d in sorted(mods, key=lambda x: x.count(".")):
        if "." in d and d.rsplit(".", 1)[0] not in mods:
            del mods[d]
    return mods


def rand_name(r):
    n = r.choice(TOPS + [NEVER])
    for _ in range(r.choice([0, 1, 1, 2, 3])):
        n += "." + r.choice(SUBS + ATTR)
    return n


def rand_db(r, mods):
    db = []
    for _ in range(r.randint(0, 5)):
        k = r.random()
        base = r.choice(sorted(mods)) if (mods and r.random() < .6) else rand_name(r)
        if k < .35:
            db.append([base, base])
        elif k < .75:
            d = base + "." + r.choice(ATTR + SUBS)
            db.append([d, d.rsplit(".", 1)[1]])
        elif k < .9:
            db.append([base, r.choice(ALIAS)])
        else:                                                   # an ambiguous pair
            a = r.choice(ALIAS + ATTR)
            db.append([base + "." + r.choice(ATTR), a])
            db.append([rand_name(r) + "." + r.choice(ATTR), a])
    out = []
    for e in db:
        if e not in out:
            out.append(e)
    return out


def pick_name(r, mods, db):
    k = r.random()
    if k < .45 and mods:
        d = r.choice(sorted(mods))
        a = mods[d]["attrs"]
        return (d + ("." + r.choice(a) if a and r.random() < .6 else "") + ("." + NEVER if r.random() < .1 else "")
                + ("." + r.choice(DUNDERS) if r.random() < .06 else ""))
    if k < .7 and db:
        return r.choice(db)[1] + ("." + r.choice(ATTR) if r.random() < .3 else "")
    if k < .75:
        return r.choice(BUILTINS_USED) + ("." + r.choice(ATTR) if r.random() < .5 else "")
    return rand_name(r)


WRAP = ["%s", "%s", "%s", "(%s)", "f(%s)" , "(lambda: %s)", "[%s for _ in ()]", "%s + 1", "%s[0]", "-%s"]


def gen_code(r, mods, db):
    names = [pick_name(r, mods, db) for _ in range(r.randint(1, 3))]
    if r.random() < .3:
        # several missing names that resolve to ONE import statement (db `import widget`, code
        # `widget.alpha + widget.beta`): a failure for the first must not be attempted for the second
        base = None
        raising = [d for d in sorted(mods) if mods[d]["raises"]]
        if db and r.random() < .5:
            base = r.choice(db)[1]
        elif raising and r.random() < .7:
            base = r.choice(raising)
        elif mods:
            base = r.choice(sorted(mods))
        if base:
            tails = r.sample(ATTR + SUBS + [NEVER], r.randint(2, 3))
            names = [base + "." + t for t in tails] + names[:1]
            return r.choice([" + ", " , "]).join(names)
    parts = []
    for n in names:
        w = r.choice(WRAP)
        if w.startswith("f("):
            w = "len(%s)" if r.random() < .5 else "(%s).real"
        parts.append(w % n)
    return " , ".join(parts)


# statement shapes: every one READS %(a)s (and %(b)s) unconditionally at module level when executed; helper names
# (_x, _w, _f ...) are only stored.  After a True result the C07 oracle executes the snippet for real.
STMT = ["%(a)s += 1", "%(a)s.zq += 1", "%(a)s[0] += 1", "%(a)s[0] = 1", "%(a)s.zq = 1", "del %(a)s.zq", "del %(a)s[0]",
        "with %(a)s as _w:\n    pass", "with %(a)s, %(b)s as _w:\n    pass", "@%(a)s\ndef _f():\n    pass",
        "@%(a)s(1)\nclass _K:\n    pass", "_x = f'{%(a)s}'", "_x = f'{%(a)s!r:>{%(b)s}}'", "assert %(a)s, %(b)s",
        "_x = %(a)s if %(b)s else 0", "for _i in %(a)s:\n    pass", "for _i in ():\n    pass\nelse:\n    %(b)s",
        "class _K(%(a)s):\n    pass", "class _K:\n    _y = %(a)s", "def _g(_p=%(a)s):\n    pass",
        "def _g(_p: %(a)s = 0) -> %(b)s:\n    pass", "_x: %(a)s = 1", "_x = [%(a)s for _i in (1,)]", "_x = {%(a)s: %(b)s}",
        "_x = (%(a)s)(%(b)s)", "_x = %(a)s and %(b)s", "_x = -%(a)s", "_x = %(a)s[%(b)s:]", "_x = [*%(a)s]", "print(%(a)s, file=None)",
        "while %(a)s:\n    break", "if %(a)s:\n    pass\nelif %(b)s:\n    pass", "_x = lambda _q=%(a)s: _q", "_x = (_y := %(a)s)",
        "import os as _o\n%(a)s", "raise_ = %(a)s; _x = %(b)s", "%(a)s.zq: int = 1", "%(a)s @= %(b)s", "_x = %(a)s < %(b)s < 3",
        "try:\n    pass\nfinally:\n    %(a)s", "_x = yield_ = %(a)s", "_x, _z = %(a)s, %(b)s", "_x = await_ = [%(b)s, %(a)s][0]"]


# import statements of every form inside the snippet, followed by reads of the package root (%(rm)s); a method
# default / annotation naming something the snippet binds only further down (%(ra)s = root of %(a)s);
# global / nonlocal / del / match / async / walrus constructs (for the frame oracle: analysing them must not
# touch the namespaces).  %(m)s = a dotted module name of the universe, %(pm)s.%(lm)s its parent / last component.
STMT2 = ["import %(m)s\n%(rm)s.xa", "import %(m)s as _al\n%(rm)s.xa\n_al", "import %(m)s as _al\n%(rm)s.zq()",
         "from %(pm)s import %(lm)s\n%(rm)s.xb\n%(lm)s", "from %(pm)s import %(lm)s as _al\n%(rm)s", "from %(pm)s import %(lm)s as _al\n%(lm)s",
         "from . import %(lm)s\n%(a)s", "from .%(rm)s import xa\n%(a)s", "import %(m)s, %(rb)s as _al2\n%(a)s\n%(rb)s",
         "import %(m)s.zq as _al\n%(rm)s", "def _g():\n    import %(m)s as _al\n%(rm)s",
         "class _K:\n    def _m(self, _p=%(a)s):\n        pass\n%(ra)s = 1",
         "class _K:\n    def _m(self, _p: %(a)s = 0) -> %(b)s:\n        pass\nimport %(ra)s",
         "class _K:\n    class _L:\n        def _m(self, *, _p=%(a)s):\n            pass\n%(ra)s = 1",
         # (a def nested in a def, CALLED before the later binding, is outside the finder's design: function bodies
         #  are checked against the final module scope - flow-insensitive, DESIGN F34 - so the outer def is not called)
         "def _o():\n    def _i(_p=%(a)s):\n        pass\n    return _i\n%(ra)s = 1",
         "def _o():\n    def _i(_p: %(a)s = 0):\n        pass\n    return _i\nimport %(ra)s\n_o()",
         "class _K:\n    _y = lambda _s, _p=%(a)s: _p\n%(ra)s = 1", "_x = %(a)s\n%(ra)s = 1",
         "def _g():\n    global %(ra)s\n    %(ra)s = 1", "def _g():\n    global zq_\n    zq_ = %(a)s\n%(b)s",
         "def _g():\n    global %(ra)s\n_x = %(a)s", "global %(ra)s\n_x = %(b)s",
         "def _o():\n    _v = 0\n    def _i():\n        nonlocal _v\n        _v = %(a)s\n    return _i\n%(b)s",
         "_x = 1\ndel _x\n%(a)s", "match %(a)s:\n    case %(b)s.zq:\n        pass\n    case _:\n        pass",
         "match 0:\n    case %(a)s() as _m:\n        pass", "match 0:\n    case %(a)s(zq=%(b)s.zq) | 1:\n        pass",
         "match 0:\n    case [_p, *_q] if %(a)s:\n        pass\n    case _ if %(b)s:\n        pass",
         "async def _c():\n    await %(a)s", "async def _c(_p=%(a)s):\n    async with %(b)s as _w:\n        pass",
         "if (_y := %(a)s):\n    pass", "_x = [_z for _i in (1,) if (_z := %(a)s)]", "type_ = %(a)s; lambda_ = %(b)s",
         "from %(rm)s import *\n%(a)s", "from %(pm)s import *\n_x = %(b)s",
         "_x = [%(ad)s for %(ra)s in ()]\n%(ad)s", "_x = {%(ra)s: %(ad)s for %(ra)s in ()}\n_y = %(ad)s", "_x = list(%(ad)s for %(ra)s in ())\n%(ad)s",
         "class _K:\n    %(ra)s = ''\n    _y = %(ad)s\n%(ad)s", "_f = lambda %(ra)s: %(ad)s\n%(ad)s", "def _g(%(ra)s):\n    return %(ad)s\n%(ad)s",
         "def _g():\n    %(ra)s = 1\n    return %(ad)s\n_x = %(ad)s", "%(ad)s\n_x = [%(ad)s for %(ra)s in ()]\n%(ad)s",
         "def _g():\n    for %(ra)s in ():\n        %(ad)s\ndef _h():\n    return %(ad)s\n%(ad)s",
         "class _K:\n    def _m(self, %(ra)s):\n        return %(ad)s\n    _y = %(ad)s",
         "_x = __file__", "%(ad)s\nclass %(ra)s:\n    pass"]


def gen_stmt_code(r, mods, db):
    parts = []
    for _ in range(r.randint(1, 2)):
        a, b = pick_name(r, mods, db), pick_name(r, mods, db)
        dotted = [d for d in sorted(mods) if "." in d]
        m = r.choice(dotted) if dotted and r.random() < .8 else (r.choice(sorted(mods)) if mods and r.random() < .7 else rand_name(r))
        pm, _, lm = m.rpartition(".")
        sub = {"a": a, "b": b, "ra": a.split(".")[0], "rb": b.split(".")[0], "m": m, "rm": m.split(".")[0],
               "ad": a if "." in a else a + "." + r.choice(ATTR),
               "pm": pm or m, "lm": lm}
        parts.append(r.choice(STMT if r.random() < .5 else STMT2) % sub)
    return "\n".join(parts) + r.choice(["", "\n"])


BAD_CODE = ["pa.sa +", "(", "pa qa", "import", "pa..sa", "1 +* 2", "def"]

# near-valid forms: an otherwise valid snippet that does not compile only because of its surroundings
BAD_WRAP = [" %s", "\t%s", "  %s", "\n %s", "%s\n  %s", "%s \\", "(%s", "%s)", "[%s", "%s]", "%s +", "%s,,", "%s = ",
            ";%s", "%s.", ".%s", "%s if", "if %s", "while", "%s\n\tx", " %s\n", "%s $", "%s ?", "return %s\n )"]
# harmless surroundings: these DO compile and must behave like the bare snippet
OK_WRAP = ["%s ", "%s\n", "%s;", "%s  # c", "\n%s", "%s\n\n", "(%s)\n", "%s\t", "\\\n%s"]


KEYWORDS = ["async", "await", "class", "import", "None", "True", "False", "for", "lambda", "def", "is", "in", "not",
            "global", "nonlocal", "yield", "with", "as", "from", "print", "match", "case", "type", "_"]   # the last five are valid names


def gen_bad_code(r, mods, db):
    if r.random() < .25:
        return r.choice(BAD_CODE)
    if r.random() < .3:
        # the WHOLE snippet is a bare dotted name with a keyword as a non-first component: find_missing_imports'
        # fast path for dotted identifiers must reject it (it does not compile), not import its head
        head = pick_name(r, mods, db).split(".")
        k = r.randint(1, len(head))
        return ".".join(head[:k] + [r.choice(KEYWORDS)] + ([r.choice(ATTR)] if r.random() < .4 else []))
    w = r.choice(BAD_WRAP)
    base = gen_code(r, mods, db)
    return w.replace("%s", base)


def gen_ns(r, mods, nlevels, exotic):
    """values: 'ext:<n>' (an arbitrary non-module object), 'mod:<d>' (that universe module, imported
    beforehand), 'val:<d>.<k>' (the value of attribute k of module d, d imported beforehand)"""
    nss = [dict() for _ in range(nlevels)]
    ext = [0]

    def fresh():
        ext[0] += 1
        return "ext:%d" % ext[0]
    loadable = [d for d in sorted(mods) if loadable_static(mods, d)]
    for _ in range(r.choice([0, 0, 1, 1, 2, 3])):
        lvl = r.randrange(nlevels)
        k = r.random()
        if k < .3:
            nss[lvl][r.choice(TOPS + ALIAS)] = fresh()                       # same-named non-module object
        elif k < .6 and loadable:
            d = r.choice(loadable)
            nss[lvl][d.split(".")[0] if r.random() < .7 else d.split(".")[-1]] = "mod:" + d.split(".")[0] \
                if r.random() < .7 else "mod:" + d
        elif k < .75 and loadable:
            d = r.choice(loadable)
            nss[lvl][r.choice(TOPS)] = "mod:" + d                             # a different module under a package name
        elif k < .9 and loadable:
            d = r.choice(loadable)
            if mods[d]["attrs"]:
                a = r.choice(mods[d]["attrs"])
                nss[lvl][r.choice([a, r.choice(ALIAS)])] = "val:%s.%s" % (d, a)
        elif exotic:
            nss[lvl][rand_name(r)] = fresh() if r.random() < .5 or not loadable else "mod:" + r.choice(loadable)
    if mods and r.random() < .06:
        # a non-module object with a permissive __eq__ under the name of a package
        nss[r.randrange(nlevels)][r.choice(sorted(mods)).split(".")[0]] = "anyeq:%d" % int(fresh()[4:])
    if mods and r.random() < .12:
        # a hand-made / stale module object: right __name__, but not the sys.modules entry
        d = r.choice(sorted(mods))
        nss[r.randrange(nlevels)][d.split(".")[0]] = "fake:%d:%s" % (int(fresh()[4:]), d.split(".")[0] if r.random() < .8 else d)
    return nss


def loadable_static(mods, d):
    parts = d.split(".")
    for i in range(1, len(parts) + 1):
        p = ".".join(parts[:i])
        if p not in mods or mods[p]["raises"]:
            return False
        if i < len(parts) and not mods[p]["pkg"]:
            return False
    return True


def gen_case(seed, i):
    r = cm.rng(seed, "c06", i)
    stream = "main" if i % 5 else "boundary"
    boundary = stream == "boundary"
    mods = add_lazy(r, gen_world(r, clash=boundary and r.random() < .5))
    db = rand_db(r, mods)
    forget = []
    nlev = r.choice([1, 2, 2, 2, 3])
    nss = gen_ns(r, mods, nlev, exotic=boundary)
    preload = []
    for ns in nss:
        for v in ns.values():
            if v.startswith("mod:"):
                preload.append(v[4:])
            elif v.startswith("val:"):
                preload.append(v[4:].rsplit(".", 1)[0])
    if boundary and r.random() < .3:
        preload += [d for d in sorted(mods) if r.random() < .4]          # may raise / be unimportable: tolerated
    ops = []
    for _ in range(r.randint(1, 4)):
        k = r.random()
        if k < .1:
            ops.append({"op": "newcell"})
        elif k < .14:
            ops.append({"op": "clearfailed"})
        if ops and r.random() < .15:
            # the user deletes a name between two calls (`del x`), same cell or not
            ops.append({"op": "del", "lvl": r.randrange(nlev), "key": r.choice(TOPS + ALIAS + ATTR)})
        if r.random() < (.2 if boundary else .1):
            ops.append({"op": "call", "code": gen_bad_code(r, mods, db)})
        elif ops and r.random() < .2 and any(o["op"] == "call" for o in ops):
            ops.append(dict(r.choice([o for o in ops if o["op"] == "call"])))      # same code again (same cell or not)
        else:
            if r.random() < .3:
                code = gen_stmt_code(r, mods, db)
            else:
                code = gen_code(r, mods, db)
            if r.random() < .15 and "\n" not in code:
                code = r.choice(OK_WRAP) % code
            ops.append({"op": "call", "code": code})
    extra_db = []
    if db and r.random() < .2:
        k_ = r.randint(1, len(db))
        db, extra_db = db[:k_], db[k_:] + ([[rand_name(r) + "." + r.choice(ATTR), r.choice(db)[1]]] if r.random() < .5 else [])
    return {"i": i, "stream": stream, "mods": mods, "db": db, "extra_db": extra_db, "forget": forget, "nss": nss,
            "preload": preload, "ops": ops,
            "loglevel": r.choice(["ERROR", "ERROR", "WARNING", "INFO", "DEBUG"])}


def gen_large_case(seed, i, ncalls=70):
    """size is part of the quantifier: many failing DB imports in one cell, many names in one snippet,
    many calls in one cell"""
    r = cm.rng(seed, "c06-large", i)
    k = i % 3
    if k == 0:
        # 140 distinct DB imports that all fail (the module they come from raises), then, in the same cell,
        # early ones again under other dotted names: nothing may be executed a second time
        mods = {"pa": dict(pkg=False, attrs=[], raises=r.choice(["RuntimeError", "BadStr", "SyntaxError"])),
                "qa": dict(pkg=True, attrs=["xa"], raises=False)}
        n = 140
        db = [["pa.n%03d" % j, "k%03d" % j] for j in range(n)] + [["qa.xa", "xa"]]
        names = ["k%03d" % j for j in range(n)]
        ops = [{"op": "call", "code": " , ".join(names)},
               {"op": "call", "code": "k000.xa , k001.xb + 1 , k%03d.zz" % (n - 1)},
               {"op": "call", "code": "xa , k002.xa.xb"}]
        return {"i": i, "stream": "large-failed-cache", "mods": mods, "db": db, "forget": [], "nss": [{}, {}],
                "preload": [], "ops": ops, "loglevel": "ERROR"}
    mods = add_lazy(r, gen_world(r, clash=False))
    db = rand_db(r, mods)
    if k == 1:
        ops = [{"op": "call", "code": " , ".join(pick_name(r, mods, db) for _ in range(300))},
               {"op": "call", "code": "\n".join("_x%d = %s" % (j, pick_name(r, mods, db)) for j in range(150))}]
        stream = "large-snippet"
    else:
        ops = [{"op": "call", "code": gen_code(r, mods, db)} for _ in range(ncalls)]
        stream = "large-cell"
    return {"i": i, "stream": stream, "mods": mods, "db": db, "forget": [], "nss": [{}, {}],
            "preload": [], "ops": ops, "loglevel": "ERROR"}


def gen_shadow_case(seed, i):
    """an OUTER namespace binds N to the real module N, the code reads an attribute the module lacks,
    and the DB offers a different object under the name N (`from compat import N`): nothing may be
    bound in the target namespace (it would shadow N with a different object)."""
    r = cm.rng(seed, "c06-shadow", i)
    mods = gen_world(r, clash=False)
    N = r.choice(TOPS)
    M = r.choice([t for t in TOPS if t != N])
    mods[N] = dict(pkg=r.random() < .5, attrs=[a for a in ATTR if r.random() < .4], raises=False)
    for d in [d for d in mods if d.startswith(N + ".")]:
        if not mods[N]["pkg"] or r.random() < .5:
            del mods[d]
    close_world(mods)
    mods[M] = dict(pkg=True, attrs=sorted(set(mods.get(M, {}).get("attrs", [])) | {"xa"}), raises=False)
    k = r.random()
    if k < .4:
        db = [[M + ".xa", N]]                                   # from M import xa as N
    elif k < .7:
        mods[M + "." + N] = dict(pkg=False, attrs=["xa"], raises=False)
        db = [[M + "." + N, N]]                                 # from M import N   (a submodule called N)
    else:
        db = [[M, N]]                                           # import M as N
    if r.random() < .4:
        db += [e for e in rand_db(r, mods) if e[1] != N and not e[0].startswith(N + ".") and e[0] != N][:2]
    nlev = r.choice([2, 2, 3])
    nss = [dict() for _ in range(nlev)]
    nss[r.randrange(nlev - 1)][N] = "mod:" + N                   # an outer level, never the target
    if r.random() < .3:
        nss[-1][r.choice(ALIAS + ATTR)] = "ext:1"
    missing_attr = [a for a in ATTR + SUBS + [NEVER] if a not in mods[N]["attrs"] and (N + "." + a) not in mods]
    a = r.choice(missing_attr)
    codes = [N + "." + a, "%s.%s + 1 , %s" % (N, a, r.choice([M, N, "len"])), "(lambda: %s.%s.xb)" % (N, a)]
    ops = [{"op": "call", "code": r.choice(codes)}]
    if r.random() < .5:
        ops += [{"op": "newcell"}, {"op": "call", "code": r.choice(codes)}]
    return {"i": i, "stream": "shadow", "mods": mods, "db": db, "forget": [], "nss": nss,
            "preload": [N], "ops": ops}


def gen_stale_case(seed, i):
    """an OUTER (or the target) namespace binds the package name to a module OBJECT with the right __name__
    that is not the sys.modules entry (hand-made types.ModuleType / stale copy); the code reads a submodule the
    stale object lacks but that is importable: the stale object takes the name - nothing may be imported."""
    r = cm.rng(seed, "c06-stale", i)
    mods = gen_world(r, clash=False)
    N = r.choice(TOPS)
    mods[N] = dict(pkg=True, attrs=[a for a in ATTR if r.random() < .4], raises=False)
    sub = r.choice(SUBS)
    mods[N + "." + sub] = dict(pkg=False, attrs=["xa"], raises=False)
    close_world(mods)
    db = rand_db(r, mods) if r.random() < .4 else []
    db = [e for e in db if e[1] != N]
    nlev = r.choice([2, 2, 3])
    nss = [dict() for _ in range(nlev)]
    lvl = r.randrange(nlev - 1) if r.random() < .75 else nlev - 1
    nss[lvl][N] = ("fake:1:" + N) if r.random() < .5 else "anyeq:%d" % r.choice([1, 2])
    preload = [N] if r.random() < .5 else []                    # the real package may or may not be loaded
    if r.random() < .3:
        preload.append(N + "." + sub)
    codes = ["%s.%s" % (N, sub), "%s.%s.xa + 1" % (N, sub), "(lambda: %s.%s.xa)" % (N, sub), "%s.%s , %s" % (N, sub, N),
             "_x = %s.%s\n" % (N, sub)]
    ops = [{"op": "call", "code": r.choice(codes)}]
    if r.random() < .4:
        ops += [{"op": "call", "code": r.choice(codes)}]
    return {"i": i, "stream": "stale", "mods": mods, "db": db, "forget": [], "nss": nss, "preload": preload, "ops": ops}


def gen_starforget_case(seed, i):
    """__forget_imports__ with a star forget (`from pa import *`): it removes the from-imports of pa and of the
    packages BELOW pa (dotted prefix) - not those of a look-alike sibling such as `pab`; a name that keeps two
    live candidates stays ambiguous"""
    r = cm.rng(seed, "c06-starforget", i)
    P = r.choice(["pa", "qa"])
    L = P + r.choice(["b", "x", "_"])                      # string-prefix look-alike of P
    O = r.choice([t for t in TOPS if t != P])
    mods = {P: dict(pkg=True, attrs=["xa", "xb"], raises=False), P + ".sa": dict(pkg=False, attrs=["xa"], raises=False),
            L: dict(pkg=r.random() < .5, attrs=["xa", "xb"], raises=False), O: dict(pkg=False, attrs=["xa", "xb"], raises=False)}
    db = [[L + ".xa", "xa"], [O + ".xa", "xa"],              # still ambiguous after the forget
          [P + ".xb", "xb"], [P + ".sa.xa", "al"]]            # removed by the star forget
    if r.random() < .5:
        db.append([P + ".xa", "xa"])                           # a third candidate, removed
    if r.random() < .5:
        db.append([L + ".xb", "xb"])                           # xb: the look-alike's entry survives alone
    if r.random() < .4:
        db.append([P + ".sa", P + ".sa"])                      # a plain import is not touched by a star forget
    r.shuffle(db)
    forget = [[P + ".*", "*"]]
    if r.random() < .3:
        forget.append([P + ".sa.*", "*"])
    codes = ["xa", "xa.zz , xb", "xb , xa", "al , xa + 1", "_x = xa\n_y = al.xb"]
    ops = [{"op": "call", "code": r.choice(codes)}, {"op": "call", "code": r.choice(codes)}]
    return {"i": i, "stream": "starforget", "mods": mods, "db": db, "forget": forget, "nss": [{}, {}][:r.choice([1, 2])],
            "preload": [], "ops": ops}


def gen_extradb_case(seed, i):
    """auto_import(..., db=DB1, extra_db=DB2): the index is built over DB1 | DB2; a name with one candidate in
    each is ambiguous (never bound, failure reported), one with the same candidate in both is not"""
    r = cm.rng(seed, "c06-extradb", i)
    mods = add_lazy(r, gen_world(r, clash=False))
    P, O = r.sample(TOPS, 2)
    mods[P] = dict(pkg=r.random() < .5, attrs=["xa", "xb"], raises=False)
    mods[O] = dict(pkg=r.random() < .5, attrs=["xa", "xb"], raises=False)
    close_world(mods)
    db = [[P + ".xa", "xa"]] + [e for e in rand_db(r, mods) if e[1] not in ("xa", "xb", "al")][:2]
    extra = [[O + ".xa", "xa"]]                                   # a DIFFERENT candidate for xa
    if r.random() < .5:
        db.append([P + ".xb", "xb"])
        extra.append([P + ".xb", "xb"])                           # the SAME candidate in both: still unique
    if r.random() < .5:
        extra.append([O, "al"])                                   # only in extra_db: unique
    if r.random() < .3:
        extra.append([O + ".sa.xa", O + ".sa.xa"])                # implied parent entries come from extra_db too
    codes = ["xa", "xa.zz , xb", "xb , al.xa", "_x = xa\n_y = xb", "al , xa + 1", O + ".sa.xa , xa"]
    ops = [{"op": "call", "code": r.choice(codes)}, {"op": "call", "code": r.choice(codes)}]
    return {"i": i, "stream": "extradb", "mods": mods, "db": db, "extra_db": extra, "forget": [], "nss": [{}, {}][:r.choice([1, 2])],
            "preload": [], "ops": ops}


def gen_f21_case(seed, i):
    """DB with __forget_imports__ entries that empty a derived key (finding F21)."""
    r = cm.rng(seed, "c06-f21", i)
    mods = gen_world(r, clash=False)
    mods.setdefault("pa", dict(pkg=True, attrs=[], raises=False))["pkg"] = True
    mods["pa"]["raises"] = False
    mods.setdefault("pa.sa", dict(pkg=True, attrs=["xa"], raises=False))["pkg"] = True
    mods["pa.sa.sb"] = dict(pkg=False, attrs=["xa"], raises=False)
    db = [["pa.sa.sb", "pa.sa.sb"]] + rand_db(r, mods)
    forget = [["pa.sa", "pa.sa"]] if i % 2 == 0 else [r.choice(db)]
    code = r.choice(["pa.sa.zz", "pa.sa.sb.xa", "pa.sa.xa , pa", "pa.sa.zz , qa"])
    return {"i": i, "stream": "f21", "mods": mods, "db": db, "forget": forget, "nss": [{}],
            "preload": [], "ops": [{"op": "call", "code": code}, {"op": "call", "code": "pa.sa.sb"}]}


# ---------------------------------------------------------------------------------------------
# implementation side: runs in a forked child of the worker (fresh sys.modules / pyflyby caches)

EQ_CALLS = []         # (kind, n): ==, != or hash evaluated on a harness object with a permissive __eq__


class AnyEq(object):
    """a NON-module object that compares equal to everything (like unittest.mock.ANY) and has no attributes"""
    __slots__ = ("n",)

    def __init__(self, n):
        self.n = n

    def __eq__(self, other):
        EQ_CALLS.append(["eq", self.n])
        return True

    def __ne__(self, other):
        EQ_CALLS.append(["ne", self.n])
        return False

    def __hash__(self):
        EQ_CALLS.append(["hash", self.n])
        return 0

    def __repr__(self):
        return "<anyeq %d>" % self.n


class Ext(object):
    __slots__ = ("n",)

    def __init__(self, n):
        self.n = n

    def __repr__(self):
        return "<ext %d>" % self.n


def write_world(root, mods):
    with open(os.path.join(root, "vbadsyn.py"), "w") as f:
        f.write("x = (\n")
    for d, m in mods.items():
        path = os.path.join(root, *d.split("."))
        src = "__import__('builtins')._verif_log.append(['exec', __name__])\n"
        lazy = m.get("lazy", [])
        src += "".join("%s = 'val:%s.%s'\n" % (a, d, a) for a in m["attrs"] if a not in lazy)
        if lazy:
            src += "__lazy__ = {%s}\n" % ", ".join("%r: 'val:%s.%s'" % (a, d, a) for a in lazy)
            src += ("def __getattr__(name):\n    try:\n        return __lazy__[name]\n    except KeyError:\n"
                    "        raise AttributeError(name)\ndef __dir__():\n    return sorted(list(globals()) + list(__lazy__))\n")
        kind = m["raises"]
        if kind is True:
            kind = "RuntimeError"
        if kind == "badsibling":
            src += "import vbadsyn\n"                       # a sibling that does not compile: SyntaxError
        elif kind == "badfile":
            src = "def (:\n"                                 # the file itself does not compile (body never runs)
        elif kind in ("BadStr", "BadRepr", "BadStrRepr"):
            src += "class _E(Exception):\n"
            if kind != "BadRepr":
                src += "    def __str__(self):\n        raise RuntimeError('str of the exception fails')\n"
            if kind != "BadStr":
                src += "    def __repr__(self):\n        raise RuntimeError('repr of the exception fails')\n"
            src += "raise _E('boom')\n"
        elif kind == "deeprec":
            src += "def _f(n):\n    return _f(n + 1) + 1\n_f(0)\n"          # a genuinely too deep recursion
        elif kind == "ENOSPC":
            src += "raise OSError(28, 'No space left on device')\n"
        elif kind == "Unprintable":
            src += "class _A(object):\n    def __repr__(self):\n        raise RuntimeError('unprintable argument')\nraise ValueError(_A())\n"
        elif kind:
            src += "raise %s('boom')\n" % kind
        if m["pkg"]:
            os.makedirs(path, exist_ok=True)
            with open(os.path.join(path, "__init__.py"), "w") as f:
                f.write(src)
        else:
            os.makedirs(os.path.dirname(path), exist_ok=True)
            if not os.path.isdir(path):
                with open(path + ".py", "w") as f:
                    f.write(src)


def universe_roots(case):
    roots = set(TOPS + [NEVER] + ALIAS + ATTR + SUBS)
    for d in case["mods"]:
        roots.add(d.split(".")[0])
    return roots


fakes = {}          # id(module object made by the harness) -> "ext:n"


def _canon(v, case_vals):
    import types
    if id(v) in fakes:
        return fakes[id(v)]
    if isinstance(v, Ext):
        return "ext:%d" % v.n
    if isinstance(v, types.ModuleType):
        nm = v.__name__
        return ("mod:" if sys.modules.get(nm) is v else "stalemod:") + nm
    if isinstance(v, str) and v.startswith("val:"):
        return v if case_vals.get(v) is v or v not in case_vals else "copy-of-" + v
    return "other:%s" % type(v).__name__


def child_main(case, root):
    import builtins
    import importlib
    import pyflyby._autoimp as A
    from pyflyby._importclns import ImportSet
    from pyflyby._importdb import ImportDB
    from pyflyby._importstmt import Import
    builtins._verif_log = log = []
    sys.path.insert(0, root)
    roots = universe_roots(case)
    known = ImportSet([Import.from_parts(f, a) for f, a in case["db"]])
    forget = ImportSet([Import("from %s import *" % f[:-2]) if a == "*" else Import.from_parts(f, a) for f, a in case["forget"]])
    db = ImportDB._from_data(known, [], [], forget) if case["forget"] else ImportDB(known)
    from pyflyby._log import logger as _pfl
    _pfl.set_level(case.get("loglevel", "ERROR"))
    for d in case["preload"]:
        try:
            importlib.import_module(d)
        except Exception:
            pass
    vals = {}                       # identity of the attribute values seen so far

    def note_vals():
        for nm, m in list(sys.modules.items()):
            if nm.split(".")[0] in roots and m is not None:
                for k, v in list(getattr(m, "__dict__", {}).items()):
                    if isinstance(v, str) and v.startswith("val:"):
                        vals.setdefault(v, v)
    note_vals()
    nss = []
    import types
    keep = []
    for ns in case["nss"]:
        d = {}
        for k, v in ns.items():
            if v.startswith("ext:"):
                d[k] = Ext(int(v[4:]))
            elif v.startswith("anyeq:"):
                n_ = int(v.split(":")[1])
                ob = AnyEq(n_) if n_ % 2 else __import__("unittest.mock").mock.ANY
                if not isinstance(ob, AnyEq):
                    keep.append(ob)
                fakes[id(ob)] = "ext:%d" % n_
                keep.append(ob)
                d[k] = ob
            elif v.startswith("fake:"):
                _, n_, nm_ = v.split(":")
                fm = types.ModuleType(nm_)
                fm.__file__ = os.path.join(root, *nm_.split(".")) + ".py"
                if nm_ in case["mods"]:
                    for a_ in case["mods"][nm_]["attrs"]:
                        setattr(fm, a_, "stale-%s" % a_)
                fakes[id(fm)] = "ext:%d" % int(n_)
                keep.append(fm)
                d[k] = fm
            elif v.startswith("mod:"):
                if v[4:] in sys.modules:
                    d[k] = sys.modules[v[4:]]
            elif v.startswith("val:"):
                md, at = v[4:].rsplit(".", 1)
                if md in sys.modules and hasattr(sys.modules[md], at):
                    d[k] = getattr(sys.modules[md], at)
        nss.append(d)
    cell = {}
    holder = {"cell": cell}

    # recording wrappers (the oracle's eyes; pyflyby looks these names up in its module globals)
    rec = {"try": [], "exec": [], "missing": None, "sym": []}
    orig_try, orig_fmi, orig_sym = A._try_import, A.find_missing_imports, A.auto_import_symbol

    def rec_exec(stmt, g):
        try:
            exec(stmt, g)
        except BaseException:
            rec["exec"].append([stmt, False])
            log.append(["try", stmt, False])
            raise
        rec["exec"].append([stmt, True])
        log.append(["try", stmt, True])

    def rec_try(imp, namespace):
        before = dict(namespace)
        n_exec = len(rec["exec"])
        res = orig_try(imp, namespace)
        same = (list(before.keys()) == list(namespace.keys())[:len(before)]
                and all(namespace[k] is v for k, v in before.items()))
        added = [k for k in namespace if k not in before]
        yielded = True
        if res and added:
            # C06 oracle: the new binding is what executing this very statement yields (checked now, in
            # a forked copy: a later import of the same call may change what the statement would yield)
            stmt = str(Import(imp))

            def probe():
                scratch = {}
                exec(stmt, scratch)
                for k in added:
                    if k not in scratch or scratch[k] is not namespace.get(k):
                        return "binding %r is not what %r yields" % (k, stmt)
                return True
            yielded = _in_grandchild(probe)
        rec["try"].append({"imp": str(Import(imp)), "res": bool(res), "preserved": same, "added": added, "yielded": yielded,
                           "executed": len(rec["exec"]) - n_exec,
                           "in_failed": Import(imp) in A._IMPORT_FAILED,
                           "target_is_last": namespace is nss[-1]})
        return res

    def rec_fmi(arg, namespaces):
        res = orig_fmi(arg, namespaces)
        rec["missing"] = [str(x) for x in res]
        return res

    def rec_sym(fullname, namespaces, db=None, autoimported=None, post_import_hook=None):
        n_try = len(rec["try"])
        needed = bool(A.symbol_needs_import(fullname, namespaces))      # at this name's turn (pure: C20)
        res = orig_sym(fullname, namespaces, db, autoimported, post_import_hook=post_import_hook)
        rec["sym"].append({"name": str(fullname), "res": bool(res), "tries": len(rec["try"]) - n_try, "needed": needed})
        return res
    A._try_import, A.find_missing_imports, A.auto_import_symbol = rec_try, rec_fmi, rec_sym
    A.exec = rec_exec

    def snapshot():
        note_vals()
        loaded = {}
        attrs = {}
        for nm, m in list(sys.modules.items()):
            if nm.split(".")[0] in roots:
                loaded[nm] = _canon(m, vals)
                md = getattr(m, "__dict__", None)
                if isinstance(md, dict):
                    attrs[nm] = {k: _canon(v, vals) for k, v in md.items()
                                 if not k.startswith("__")}
                    for a in case["mods"].get(nm, {}).get("lazy", []):
                        try:
                            attrs[nm][a] = _canon(getattr(m, a), vals)
                        except Exception:
                            pass
        return {"nss": [{k: _canon(v, vals) for k, v in ns.items() if k != "__builtins__"} for ns in nss],
                "loaded": loaded, "attrs": attrs,
                "cell": {str(k): bool(v) for k, v in holder["cell"].items()},
                "failed": sorted([str(i.fullname), str(i.import_as)] for i in A._IMPORT_FAILED),
                "log": [list(e) for e in log]}

    names = set()
    out = {"builtin_names": None, "index": None, "init": snapshot(), "steps": [],
           # the import sets as the DB object holds them (C12 owns how they are composed)
           "known": sorted([str(i.fullname), str(i.import_as)] for i in db.known_imports.imports),
           "forgotten": sorted([str(i.fullname), str(i.import_as)] for i in db.forget_imports.imports)}
    extra_db = ImportDB(ImportSet([Import.from_parts(f, a) for f, a in case["extra_db"]])) if case.get("extra_db") else None
    try:
        idx = (db | extra_db if extra_db else db).by_fullname_or_import_as       # what auto_import(db=, extra_db=) indexes
        out["index"] = {k: sorted([str(i.fullname), str(i.import_as)] for i in v) for k, v in idx.items()}
    except Exception as e:
        out["index"] = "EXC " + type(e).__name__
    for o in case["ops"]:
        step = {"op": o["op"]}
        if o["op"] == "newcell":
            holder["cell"] = {}
        elif o["op"] == "clearfailed":
            A.clear_failed_imports_cache()
        elif o["op"] == "del":
            nss[o["lvl"]].pop(o["key"], None)
        else:
            code = o["code"]
            ids = [(id(ns), {k: id(v) for k, v in ns.items()}) for ns in nss]
            pre_cell = dict(holder["cell"])
            pre_failed = set(A._IMPORT_FAILED)
            rec["try"], rec["exec"], rec["missing"], rec["sym"] = [], [], None, []
            del EQ_CALLS[:]
            step["imprecise"] = precise_probe(orig_fmi, code, nss)
            try:
                r = A.auto_import(code, nss, db=db, autoimported=holder["cell"], extra_db=extra_db)
                step["r"] = bool(r)
                if r is not True and r is not False:
                    step["r"] = "nonbool:%r" % (r,)
            except BaseException as e:
                step["r"] = "EXC " + type(e).__name__
            step["missing"] = rec["missing"]
            step["try"], step["exec"], step["sym"] = rec["try"], rec["exec"], rec["sym"]
            # oracle data: identity of every pre-existing value, added keys per level
            kept = all(id(ns) == i0 and all(k in ns and id(ns[k]) == iv for k, iv in m0.items())
                       for ns, (i0, m0) in zip(nss, ids))
            step["kept"] = kept
            step["eqcalls"] = [list(e) for e in EQ_CALLS]
            del EQ_CALLS[:]
            step["added"] = [sorted(k for k in ns if k not in m0 and k != "__builtins__")
                             for ns, (i0, m0) in zip(nss, ids)]
            step["cell_changed"] = pre_cell != dict(holder["cell"])
            step["failed_changed"] = pre_failed != set(A._IMPORT_FAILED)
            step["nameerror"] = None
            step["missing_after"] = None
            if step["r"] is True:
                step["nameerror"] = exec_probe(code, nss)
                try:
                    step["missing_after"] = [str(x) for x in orig_fmi(code, nss)]
                except BaseException as e:
                    step["missing_after"] = "EXC " + type(e).__name__
            bad_y = [t["yielded"] for t in rec["try"] if t["yielded"] is not True]
            step["values_ok"] = bad_y[0] if bad_y else True
        step["st"] = snapshot()
        out["steps"].append(step)
        for ns in nss:
            names.update(ns)
    import builtins as B
    out["builtin_names"] = sorted(n for n in (set(BUILTINS_USED) | roots | names) if n in B.__dict__)
    return out


def _in_grandchild(fn):
    """run fn() in a forked copy of this process (its side effects on sys.modules are thrown away)"""
    rfd, wfd = os.pipe()
    pid = os.fork()
    if pid == 0:
        try:
            os.close(rfd)
            try:
                res = fn()
            except BaseException as e:
                res = {"__probe_exc__": type(e).__name__, "msg": str(e)[:200]}
            os.write(wfd, json.dumps(res).encode())
        finally:
            os._exit(0)
    os.close(wfd)
    buf = b""
    while True:
        b = os.read(rfd, 65536)
        if not b:
            break
        buf += b
    os.close(rfd)
    os.waitpid(pid, 0)
    return json.loads(buf.decode()) if buf else {"__probe_exc__": "nothing"}


def precise_probe(fmi, code, nss):
    """names find_missing_imports reports although the dotted read succeeds right now in the merged
    namespaces (root bound, every getattr succeeds) - evaluated in a forked copy"""
    try:
        missing = [str(x) for x in fmi(code, nss)]
    except BaseException:
        return []
    if not missing or len(missing) > 40:
        return []

    def fn():
        g = {}
        for ns in nss:
            g.update(ns)
        bad = []
        for name in missing:
            parts = name.split(".")
            if parts[0] not in g:
                continue
            v = g[parts[0]]
            try:
                for p_ in parts[1:]:
                    v = getattr(v, p_)
            except BaseException:
                continue
            bad.append(name)
        return bad
    res = _in_grandchild(fn)
    return res if isinstance(res, list) else []


def exec_probe(code, nss):
    """C07 oracle: execute the snippet in the merged namespaces; only NameError counts."""
    def fn():
        g = {}
        for ns in nss:
            g.update(ns)
        # statement by statement, so that an AttributeError / TypeError of one statement does not hide the
        # NameError of the next (the generated statements never read a name another statement stores)
        try:
            body = ast.parse(code).body
        except SyntaxError:
            return None
        for stmt in body:
            try:
                exec(compile(ast.Module(body=[stmt], type_ignores=[]), "<snippet>", "exec"), g)
            except NameError as e:
                return "%s (statement %d)" % (e, body.index(stmt))
            except BaseException:
                if isinstance(stmt, (ast.Import, ast.ImportFrom)):
                    return None         # the snippet's own import failed: what follows is not auto-import's business
        return None
    return _in_grandchild(fn)


def impl_case(case):
    root = tempfile.mkdtemp(prefix="verif-c06-")
    try:
        write_world(root, case["mods"])
        rfd, wfd = os.pipe()
        pid = os.fork()
        if pid == 0:
            try:
                os.close(rfd)
                import io
                sys.stdout = io.StringIO()
                sys.stderr = io.StringIO()
                try:
                    res = child_main(case, root)
                except BaseException as e:
                    res = {"__exc__": type(e).__name__, "msg": str(e)[:300], "tb": traceback.format_exc()[-1500:]}
                data = json.dumps(res).encode()
                while data:
                    n = os.write(wfd, data)
                    data = data[n:]
            finally:
                os._exit(0)
        os.close(wfd)
        buf = b""
        while True:
            rl, _, _ = select.select([rfd], [], [], 25)
            if not rl:
                os.kill(pid, 9)
                os.waitpid(pid, 0)
                os.close(rfd)
                return {"__timeout__": True}
            b = os.read(rfd, 1 << 16)
            if not b:
                break
            buf += b
        os.close(rfd)
        os.waitpid(pid, 0)
        if not buf:
            return {"__exc__": "ChildDied", "msg": "no output from the forked interpreter"}
        return json.loads(buf.decode())
    finally:
        shutil.rmtree(root, ignore_errors=True)


# ---------------------------------------------------------------------------------------------
# model side

class Names(object):
    def __init__(self):
        self.ids = {}
        self.rev = []

    def id(self, s):
        if s not in self.ids:
            self.ids[s] = len(self.rev) + 1
            self.rev.append(s)
        return self.ids[s]

    def name(self, n):
        return self.rev[n - 1]


def c_dotted(nm, d):
    return cm.clist([cm.cN(nm.id(p)) for p in d.split(".")])


def c_obj(nm, v):
    if v.startswith("ext:"):
        return "(OExt %s)" % cm.cN(int(v[4:]))
    if v.startswith("mod:"):
        return "(OMod %s)" % c_dotted(nm, v[4:])
    if v.startswith("val:"):
        md, at = v[4:].rsplit(".", 1)
        return "(OVal %s %s)" % (c_dotted(nm, md), cm.cN(nm.id(at)))
    raise ValueError(v)


def c_imp(nm, e):
    return cm.cpair(c_dotted(nm, e[0]), c_dotted(nm, e[1]))


def c_mods(nm, mods):
    return cm.clist([cm.cpair(c_dotted(nm, d), "(%s, %s, %s)" % (
        cm.cbool(m["pkg"]), cm.clist([cm.cN(nm.id(a)) for a in m["attrs"] + DUNDERS]), cm.cbool(m["raises"])))
        for d, m in sorted(mods.items())])


def model_expr(case, im, drop_empty=False):
    nm = Names()
    init = im["init"]
    # the initial namespaces as the real run built them (a pre-import may have failed)
    levels = [cm.clist([cm.cpair(cm.clist([cm.cN(nm.id(b))]), "(OExt %s)" % cm.cN(9000 + nm.id(b)))
                        for b in im["builtin_names"]]), "[]"]
    for ns in init["nss"]:
        levels.append(cm.clist([cm.cpair(c_dotted(nm, k), c_obj(nm, v)) for k, v in sorted(ns.items())]))
    ops = []
    for o, st in zip(case["ops"], im["steps"]):
        if o["op"] == "newcell":
            ops.append("(WOp ONewCell)")
        elif o["op"] == "clearfailed":
            ops.append("(WOp OClearFailed)")
        elif o["op"] == "del":
            ops.append("(WDel %s %s)" % (cm.cnat(o["lvl"] + 2), c_dotted(nm, o["key"])))
        else:
            ms = st.get("missing")
            ops.append("(WOp (OCall %s))" % cm.copt(ms, lambda l: cm.clist([c_dotted(nm, m) for m in l])))
    expr = "run_seq %s %s %s %s %s [] [] %s %s" % (
        c_mods(nm, case["mods"]),
        # db | extra_db = union of the import sets, taken from the case text (not from ImportSet.__or__)
        cm.clist([c_imp(nm, e) for e in im["known"] + [e2 for e2 in case.get("extra_db", []) if list(e2) not in [list(x) for x in im["known"]]]]),
        cm.clist([c_imp(nm, e) for e in im["forgotten"]]),
        cm.cbool(drop_empty),
        cm.clist(levels),
        cm.clist([c_dotted(nm, d) for d in case["preload"]]),
        cm.clist(ops))
    return expr, nm


def d_dotted(nm, l):
    return ".".join(nm.name(n) for n in l)


def d_obj(nm, o):
    if o[0] == "m":
        return "mod:" + d_dotted(nm, o[1])
    if o[0] == "v":
        return "val:%s.%s" % (d_dotted(nm, o[1]), nm.name(o[2]))
    n = o[1]
    return "ext:%d" % n if n < 9000 else "builtin:" + nm.name(n - 9000)


def first_wins(pairs):
    d = {}
    for k, v in pairs:
        d.setdefault(k, v)
    return d


def d_state(nm, st):
    loaded = first_wins((d_dotted(nm, k), d_obj(nm, v)) for k, v in st["loaded"])
    attrs = {}
    for o, k, v in st["attrs"]:
        if o[0] == "m" and not nm.name(k).startswith("__"):
            attrs.setdefault(d_dotted(nm, o[1]), {}).setdefault(nm.name(k), d_obj(nm, v))
    log = []
    for e in st["log"]:
        if e[0] == "exec":
            log.append(["exec", d_dotted(nm, e[1]), e[2]])
        else:
            log.append(["try", imp_stmt(d_dotted(nm, e[1]), d_dotted(nm, e[2])), e[3]])
    return {"nss": [first_wins((d_dotted(nm, k), d_obj(nm, v)) for k, v in ns) for ns in st["nss"][2:]],
            "loaded": loaded,
            "attrs": {k: attrs.get(k, {}) for k, v in loaded.items() if v == "mod:" + k},
            "cell": first_wins((d_dotted(nm, k), v) for k, v in st["cell"]),
            "failed": sorted({(d_dotted(nm, a), d_dotted(nm, b)) for a, b in st["failed"]}),
            "log": log}


def imp_stmt(full, as_):
    if as_ == full:
        return "import %s" % full
    if "." not in full:
        return "import %s as %s" % (full, as_)
    md, mem = full.rsplit(".", 1)
    return "from %s import %s" % (md, mem) + ("" if as_ == mem else " as %s" % as_)


def canon_impl_state(case, st):
    log = []
    for e in st["log"]:
        if e[0] == "exec":
            log.append(["exec", e[1], not case["mods"].get(e[1], {}).get("raises", False)])
        else:
            log.append(["try", e[1], e[2]])
    return {"nss": st["nss"], "loaded": st["loaded"],
            "attrs": {k: v for k, v in st["attrs"].items()},
            "cell": st["cell"], "failed": sorted(tuple(x) for x in st["failed"]), "log": log}


def d_index(nm, idx):
    return {d_dotted(nm, k): sorted([d_dotted(nm, a), d_dotted(nm, b)] for a, b in v) for k, v in idx}


# ---------------------------------------------------------------------------------------------
# oracle (independent of the model)

def spelled_names(code):
    """maximal dotted chains rooted at a Name, and the ids of all names the snippet READS (Load context)"""
    try:
        tree = ast.parse(code)
    except SyntaxError:
        return None, None
    chains, ids = set(), set()

    def chain(n):
        if isinstance(n, ast.Name):
            return n.id
        if isinstance(n, ast.Attribute):
            b = chain(n.value)
            return None if b is None else b + "." + n.attr
        return None
    for n in ast.walk(tree):
        if isinstance(n, ast.Name) and isinstance(n.ctx, ast.Load):
            ids.add(n.id)
        if isinstance(n, ast.AugAssign) and isinstance(n.target, ast.Name):
            ids.add(n.target.id)                         # `x += 1` reads x
        c = chain(n)
        if c:
            chains.add(c)
    return chains, ids


def compiles(code):
    """does CPython compile the ORIGINAL string?  ("does not parse" = ast.parse, i.e. CPython's parser, on the
    original string - see spelled_names; compile() additionally runs the symbol-table pass)"""
    try:
        compile(code, "<snippet>", "exec", dont_inherit=True)
        return True
    except (SyntaxError, ValueError):
        return False


def prefixes(d):
    p = d.split(".")
    return [".".join(p[:i]) for i in range(1, len(p) + 1)]


def spec_index(case, im):
    """by_fullname_or_import_as as the property describes it, computed from the DB text itself:
    __forget_imports__ removes the listed imports, and a star forget `from P import *` removes every
    from-import whose module is P or lies below P (dotted components, never a plain string prefix);
    then every import under its local name and `import p` under every proper dotted prefix p of a full
    name, minus the forgotten imports; keys without candidate are dropped."""
    forgotten = [list(e) for e in case.get("forget", [])]
    stars = [f[:-2] for f, a in forgotten if a == "*"]

    def star_removed(full, as_):
        if as_ == full or "." not in full:
            return False                       # `import a.b` / `import a as b`: no module part
        return any(p in stars for p in prefixes(full.rsplit(".", 1)[0]))
    known = [list(e) for e in list(case["db"]) + list(case.get("extra_db", [])) if list(e) not in forgotten and not star_removed(*e)]
    d = {}
    for full, as_ in known:
        d.setdefault(as_, [])
        if [full, as_] not in d[as_]:
            d[as_].append([full, as_])
        for p in prefixes(full)[:-1]:
            d.setdefault(p, [])
            if [p, p] not in d[p]:
                d[p].append([p, p])
    out = {}
    for k, v in d.items():
        v = sorted(e for e in v if e not in forgotten)
        if v:
            out[k] = v
    return out


def is_f21(case, step):
    """classifier of known finding F21: AssertionError because a derived key of
    by_fullname_or_import_as kept an empty candidate tuple after __forget_imports__"""
    return bool(case.get("forget")) and step.get("r") == "EXC AssertionError"


def is_f07a(case, step):
    """classifier of F07a: after a True result a name needs import again because a module attribute
    that was a plain value has been replaced by the same-named submodule (loaded by another import
    of the same call): only possible where a module has a static attribute spelled like one of its
    submodule files"""
    mods = case["mods"]
    return any(("%s.%s" % (d, a)) in mods for d, m in mods.items() for a in m["attrs"])


def attr_store_roots(code):
    """roots of the attribute chains that are plain store targets (`a.b = v`, `a.b: T = v`, `for a.b in ...`,
    `with x as a.b`); the target of an augmented assignment is read first and does not count"""
    roots = set()
    try:
        tree = ast.parse(code)
    except SyntaxError:
        return roots
    aug = {id(n.target) for n in ast.walk(tree) if isinstance(n, ast.AugAssign)}
    for n in ast.walk(tree):
        if isinstance(n, ast.Attribute) and isinstance(n.ctx, ast.Store) and id(n) not in aug:
            b = n
            while isinstance(b, ast.Attribute):
                b = b.value
            if isinstance(b, ast.Name):
                roots.add(b.id)
    return roots


def is_attrstore(code, nameerror):
    """classifier of C05's open finding F10-attrstore seen through C07: the NameError is for the root of
    a plain attribute-store target of the snippet (`a.b = v` with `a` unbound is not reported missing)"""
    import re
    m = re.match(r"name '([^']+)' is not defined", nameerror or "")
    return bool(m) and m.group(1) in attr_store_roots(code)


def has_star_import(code):
    """classifier of F07c: a `from m import *` anywhere in the snippet"""
    try:
        return any(isinstance(n, ast.ImportFrom) and any(a.name == "*" for a in n.names) for n in ast.walk(ast.parse(code)))
    except SyntaxError:
        return False


def is_dunder_file(nameerror):
    """classifier of F07e: `_builtins2 = {"__file__": None}` makes __file__ always count as defined"""
    return (nameerror or "").startswith("name '__file__' is not defined")


def is_class_later(code, nameerror):
    """classifier of C05's F10-class seen through C07: the NameError is for a name that a LATER `class`
    statement of the snippet defines (visit_ClassDef removes it from the missing list)"""
    import re
    m = re.match(r"name '([^']+)' is not defined", nameerror or "")
    try:
        return bool(m) and any(isinstance(n, ast.ClassDef) and n.name == m.group(1) for n in ast.walk(ast.parse(code)))
    except SyntaxError:
        return False


def has_dotted_key(case, prev):
    """classifier of F07b (outside the hypothesis plain_keys of C07_success_resolves_partial):
    some namespace of the stack has a key that is not a plain identifier"""
    return any("." in k for ns in prev["nss"] for k in ns)


def is_rebind_same(case, step, prev):
    """classifier of the 'same object re-bound at the last level' finding: the added key is bound,
    to the identical object, in an earlier namespace"""
    for k in step["added"][-1]:
        v = step["st"]["nss"][-1][k]
        for ns in prev["nss"][:-1]:
            if k in ns and ns[k] != v:
                return False
    return True


def oracle(ctx, prop, case, im, wfp=False):
    """returns list of (clause, detail); known findings are reported through ctx.known_hit"""
    bad = []
    prev = im["init"]
    failed_stmts = set()
    index = spec_index(case, im)
    for k, (o, st) in enumerate(zip(case["ops"], im["steps"])):
        if o["op"] == "clearfailed":
            failed_stmts = set()
        if o["op"] != "call":
            prev = st["st"]
            continue
        code = o["code"]
        chains, ids = spelled_names(code)
        if chains is not None and not compiles(code):
            # parses, but the symbol-table pass rejects it ("name 'x' is used prior to global declaration",
            # "'return' outside function"): NOT "code that does not parse" - pyflyby's ast.parse accepts it
            ctx.bump("parses_but_does_not_compile")
        cur = st["st"]
        if isinstance(st["r"], str):
            if is_f21(case, st):
                ctx.known_hit("F21", "auto_import dies with AssertionError: a forgotten derived import leaves an empty candidate tuple in by_fullname_or_import_as")
            else:
                bad.append(("no_internal_error", "call %d (%r) raised %s" % (k, code, st["r"])))
            prev = cur
            continue
        if st.get("eqcalls"):
            bad.append(("no_user_eq", "call %d (%r): auto_import evaluated %r on a namespace value (only `is` and string-keyed dict lookups are allowed)" % (k, code, st["eqcalls"][:3])))
        if st.get("imprecise") and not has_dotted_key(case, prev):
            bad.append(("missing_precise", "call %d (%r): %r reported missing although the dotted read succeeds in the given namespaces" % (k, code, st["imprecise"])))
        if prop == "C06":
            # frame: every pre-existing binding is still there with the identical object
            if not st["kept"]:
                bad.append(("frame_ns", "call %d (%r): a pre-existing binding was rebound or deleted" % (k, code)))
            for lvl, add in enumerate(st["added"]):
                if add and lvl != len(st["added"]) - 1:
                    bad.append(("only_needed", "call %d (%r): %r added at level %d, not the last" % (k, code, add, lvl)))
            if chains is None:
                if st["r"] is not False or any(st["added"]) or st["cell_changed"] or st["failed_changed"] or st["exec"]:
                    bad.append(("unparsable_noop", "call %d: unparsable %r gave %r / changed state" % (k, code, st["r"])))
            else:
                via_try = {k2 for t in st["try"] if t["res"] for k2 in t["added"]}
                for key in st["added"][-1]:
                    if key not in via_try:
                        bad.append(("only_needed", "call %d (%r): %r was bound (to %s) although no successful _try_import bound it" % (k, code, key, cur["nss"][-1].get(key))))
                    if key not in ids:
                        bad.append(("only_needed", "call %d (%r): added %r which the code does not read" % (k, code, key)))
                    for lvl, ns in enumerate(prev["nss"]):
                        if key in ns:
                            if ns[key] == cur["nss"][-1][key]:
                                ctx.known_hit("F06a", "a name bound in an outer namespace is bound again (same object) in the target namespace")
                            else:
                                bad.append(("only_needed", "call %d (%r): added %r shadows a different object at level %d" % (k, code, key, lvl)))
                if st["values_ok"] is not True:
                    bad.append(("only_needed", "call %d (%r): %s" % (k, code, st["values_ok"])))
            # failure_atomic
            for t in st["try"]:
                if not t["target_is_last"]:
                    bad.append(("only_needed", "call %d: _try_import into a namespace that is not namespaces[-1]" % k))
                if not t["res"]:
                    if not t["preserved"] or t["added"]:
                        bad.append(("failure_atomic", "call %d (%r): failed %r changed the namespace" % (k, code, t["imp"])))
                if t["executed"] > 1:
                    bad.append(("failure_atomic", "call %d: %r executed %d statements" % (k, t["imp"], t["executed"])))
            for stmt, ok in st["exec"]:
                if stmt in failed_stmts:
                    bad.append(("failure_atomic", "call %d (%r): %r attempted again after it had raised" % (k, code, stmt)))
                if not ok:
                    failed_stmts.add(stmt)
                    fa = [imp_stmt(a, b) for a, b in cur["failed"]]
                    if stmt not in fa:
                        bad.append(("failure_atomic", "call %d: %r raised but is not in _IMPORT_FAILED" % (k, stmt)))
        if prop == "C07" and chains is not None:
            if st["r"] is True and st["nameerror"]:
                if has_star_import(code):
                    ctx.known_hit("F07c", "a `from m import *` in the code switches missing-import reporting off (by design: the names it provides are unknown): True result, undefined names raise NameError")
                elif is_dunder_file(st["nameerror"]):
                    ctx.known_hit("F07e", "__file__ always counts as defined (_builtins2 = {'__file__': None}): True result, NameError in a namespace without __file__")
                elif is_class_later(code, st["nameerror"]):
                    ctx.known_hit("F10-class", "a module-level use of a name before a later `class` statement of that name is removed from the missing list (open finding of C05)")
                elif is_attrstore(code, st["nameerror"]):
                    ctx.known_hit("F10-attrstore", "`a.b = v` with `a` unbound: find_missing_imports does not report `a` (open finding of C05), so auto_import returns True and executing raises NameError")
                elif has_dotted_key(case, prev):
                    ctx.known_hit("F07b", "a namespace holding a dotted key 'a.b' makes a.b 'not need import' while a is unbound: True result, then NameError")
                else:
                    bad.append(("success_resolves", "call %d: auto_import(%r) returned True but executing it raises NameError: %s" % (k, code, st["nameerror"])))
            if st["r"] is True and st["missing_after"]:
                if has_star_import(code):
                    pass
                elif wfp:
                    # C07_success_resolves_wf applies (initial state WF, world without clash; WF is preserved)
                    bad.append(("success_resolves_wf", "call %d: well-formed state, auto_import(%r) returned True but afterwards %r still need import" % (k, code, st["missing_after"])))
                elif has_dotted_key(case, prev):
                    pass
                elif is_f07a(case, st) and not isinstance(st["missing_after"], str):
                    ctx.known_hit("F07a", "after a True result find_missing_imports(code) is not empty: a value attribute was replaced by the same-named submodule during the call")
                else:
                    bad.append(("success_resolves", "call %d: auto_import(%r) returned True but afterwards %r still need import" % (k, code, st["missing_after"])))
            # provenance
            for t in st["try"]:
                if t["res"] and t["added"]:
                    ok = False
                    for c in chains:
                        for p in prefixes(c):
                            if t["imp"] == "import " + p:
                                ok = True
                            ent = index.get(p)
                            if ent and len(ent) == 1 and imp_stmt(*ent[0]) == t["imp"]:
                                ok = True
                    if not ok:
                        bad.append(("provenance", "call %d (%r): binding %r came from %r: neither a unique DB entry for a prefix of a read name nor a module path spelled in the code" % (k, code, t["added"], t["imp"])))
            # ambiguity / unknown
            for s in st["sym"]:
                ent = None
                for p in reversed(prefixes(s["name"])):
                    if p in index:
                        ent = index[p]
                        break
                if not s["needed"]:
                    continue            # resolved meanwhile by the import made for another name of the call
                if ent is not None and len(ent) > 1:
                    if s["res"] or s["tries"] or st["r"] is not False:
                        bad.append(("ambiguous_or_unknown_fails", "call %d (%r): %r has %d candidates but result=%r tries=%d call=%r" % (k, code, s["name"], len(ent), s["res"], s["tries"], st["r"])))
                if ent is None and s["name"].split(".")[0] not in case["mods"]:
                    rt = s["name"].split(".")[0]
                    if s["res"] or st["r"] is not False or any(rt in a for a in st["added"]):
                        bad.append(("ambiguous_or_unknown_fails", "call %d (%r): unknown %r but result=%r call=%r" % (k, code, s["name"], s["res"], st["r"])))
        prev = cur
    return bad


# ---------------------------------------------------------------------------------------------

def drop_badfile(case, st):
    bad = {d for d, m in case["mods"].items() if m["raises"] == "badfile"}
    if bad:
        st = dict(st, log=[e for e in st["log"] if not (e[0] == "exec" and e[1] in bad)])
    return st


def compare_case(ctx, prop, case, im, mv, nm):
    ok = True
    if "__exc__" in im or "__timeout__" in im:
        ctx.violation("harness_child_failed", case, im)
        return False
    mi = d_index(nm, mv["index"])
    if im["index"] != mi:
        ctx.disagreement("by_fullname_or_import_as", case, im["index"], mi)
        ok = False
    a, b = drop_badfile(case, canon_impl_state(case, im["init"])), drop_badfile(case, d_state(nm, mv["init"]))
    if a != b:
        ctx.disagreement("initial state (World.load)", case, a, b)
        return False
    for k, (st, ms) in enumerate(zip(im["steps"], mv["steps"])):
        a = drop_badfile(case, canon_impl_state(case, st["st"]))
        b = drop_badfile(case, d_state(nm, ms["st"]))
        ra = {True: "true", False: "false", "EXC AssertionError": "crash"}.get(st.get("r"), st.get("r")) if st["op"] == "call" else None
        rb = ms["r"]
        if ra != rb or a != b:
            diff = {f: [a[f], b[f]] for f in a if a[f] != b[f]}
            ctx.disagreement("auto_import step %d" % k, case, {"r": ra, "diff(impl,model)": diff}, {"r": rb})
            ok = False
            break
    return ok


def run_shared(ctx, prop, n=None, nf21=None):
    cm.check_anchors(ctx, ANCHORS)
    n = n if n is not None else int(os.environ.get("VERIF_C06_N", 0)) or (1200 if ctx.quick else 20000) * ctx.scale
    nf21 = nf21 if nf21 is not None else (12 if ctx.quick else 200)
    nshadow = max(4, n // 12)
    ctx.coverage["rule"] = ("call sequences from one seeded PRNG over a synthetic universe on disk (4/5 main stream, 1/5 boundary "
                            "stream: attribute/submodule clashes, dotted keys in namespaces, failing pre-imports, more unparsable code) "
                            "+ a stream where an outer namespace binds a module and the DB offers a different object under that name "
                            "+ a small stream with __forget_imports__ (F21); modules raise RuntimeError / SyntaxError (raised, from a sibling that does "
                            "not compile, or their own file not compiling) / ImportError / ModuleNotFoundError / ZeroDivisionError / AttributeError / KeyError; "
                            "several missing names resolving to one import statement; near-valid unparsable snippets (leading indentation, trailing "
                            "backslash, unbalanced brackets, dangling operators); non-trivial = some call imported something or reported failure; "
                            "distinct by hash of the case")
    ctx.assumptions += [
        "World (load / exec_import / find_spec) is an oracle for CPython's import system on a universe of plain modules; it is compared with the real import system after every call (sys.modules, module attributes, executed bodies)",
        "the list of missing names of each call is an oracle argument captured from the real find_missing_imports on that very call (Scope/ models the finder)",
        "which alphabet names are builtins is taken from the running interpreter",
    ]
    ctx.notes["trusted_base"] = ["one interpreter state per case is obtained by fork() of a worker that has imported only pyflyby and the harness"]
    cases = (cm.load_corpus(prop) + [gen_case(ctx.seed, i) for i in range(n)]
             + [gen_shadow_case(ctx.seed, i) for i in range(nshadow)] + [gen_stale_case(ctx.seed, i) for i in range(nshadow // 2)]
             + [gen_large_case(ctx.seed, i, 70 if ctx.quick else 200) for i in range(3 * ctx.scale if n >= 600 else 0)]
             + [gen_f21_case(ctx.seed, i) for i in range(nf21)] + [gen_starforget_case(ctx.seed, i) for i in range(nf21)]
             + [gen_extradb_case(ctx.seed, i) for i in range(2 * nf21)])
    impl = cm.run_impl("c06", "impl_case", cases, timeout_case=40)
    exprs, nms, idxs = [], [], []
    for ci, (c, im) in enumerate(zip(cases, impl)):
        if "__exc__" in im or "__timeout__" in im:
            continue
        variants = [False, True] if c["forget"] else [False]
        for de in variants:
            e, nm = model_expr(c, im, drop_empty=de)
            exprs.append(e)
            nms.append(nm)
            idxs.append((ci, de))
    model = cm.coq_eval_json(REQ, exprs, shard=40)
    per = {}
    for (ci, de), nm, mv in zip(idxs, nms, model):
        per.setdefault(ci, []).append((de, nm, mv))
    for ci, (c, im) in enumerate(zip(cases, impl)):
        if ci not in per:
            ctx.violation("harness_child_failed", c, im)
            ctx.count(c, False)
            continue
        # the tree's index builder decides which variant of `index` applies (F21 repaired or not)
        chosen = per[ci][0]
        if len(per[ci]) > 1 and isinstance(im["index"], dict):
            for de, nm, mv in per[ci]:
                if d_index(nm, mv["index"]) == im["index"]:
                    chosen = (de, nm, mv)
                    break
        de, nm, mv = chosen
        ctx.bump("index_variant:" + ("repaired" if de else "as-is"))
        compare_case(ctx, prop, c, im, mv, nm)
        if not mv["wf"]:
            ctx.bump("initial_state_not_wf")
        if mv.get("wfp"):
            ctx.bump("initial_state_wfp")
        for clause, detail in oracle(ctx, prop, c, im, wfp=bool(mv.get("wfp"))):
            ctx.violation(clause, c, detail)
        nontriv = False
        for st in im["steps"]:
            if st["op"] == "call":
                ctx.bump("call_result:%s" % st.get("r"))
                ctx.bump("missing_names:%d" % (len(st["missing"]) if st.get("missing") is not None else -1))
                ctx.bump("try_imports", len(st["try"]))
                ctx.bump("try_imports_failed", sum(1 for t in st["try"] if not t["res"]))
                if st["try"] or st.get("r") is False:
                    nontriv = True
            else:
                ctx.bump("op:" + st["op"])
        ctx.bump("stream:" + c["stream"])
        ctx.count(c, nontriv)
        if nontriv:
            ctx.sample({"case": {k: c[k] for k in ("mods", "db", "nss", "ops")},
                        "results": [s.get("r") for s in im["steps"]]}, limit=2)
    ctx.notes["model_evaluations_in_kernel"] = len(exprs)


def run(ctx):
    run_shared(ctx, "C06")


def replay_shared(payload, prop):
    case = payload.get("case") or payload["disagreements"][0]["case"]
    impl = cm.run_impl("c06", "impl_case", [case], jobs=1)
    im = impl[0]
    out = {"case": case, "impl": im}
    if "__exc__" not in im and "__timeout__" not in im:
        e, nm = model_expr(case, im, drop_empty=False)
        mv = cm.coq_eval_json(REQ, [e])[0]
        out["model"] = {"index": d_index(nm, mv["index"]), "wf": mv["wf"],
                        "steps": [{"r": s["r"], "st": d_state(nm, s["st"])} for s in mv["steps"]]}
        ctx = cm.Ctx(prop, "quick", 0)
        out["oracle"] = oracle(ctx, prop, case, im, wfp=bool(mv.get("wfp")))
        out["known"] = ctx.known_hits
    print(json.dumps(out, indent=1, default=str))
    return 0


def replay(payload):
    return replay_shared(payload, "C06")

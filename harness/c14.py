"""C14 - enabling and disabling the auto-importer is reversible and idempotent.

Correspondence: operation sequences (enable / enable-again / disable / %load_ext / %unload_ext / %reload_ext /
direct load_ipython_extension / unload_ipython_extension / run-cell / complete) on one real
TerminalIPythonApp per sequence, full snapshot after every operation (identity of every patched slot and of
every entry of the hook lists, state, _errored, the disabler stack) against Interactive/Enable.v + SafeCall.v.
Oracle: the property restated on the snapshots alone (pre-enable values back after every disable, one hook per
joinpoint/list while enabled, nothing accumulating), the behavioural clause against a pyflyby-free shell."""
import itertools
import json
import os
import subprocess
import sys

from . import common as cm

REQ = ["Interactive.Enable", "Interactive.SafeCall", "Interactive.Wire"]

OPS = ["Enable", "EnableAgain", "Disable", "LoadExt", "UnloadExt", "ReloadExt", "LoadFn", "UnloadFn"]
PRE_OPS = ["Enable", "EnableAgain", "Disable"]      # what can be called before the shell exists
JPS = ["JSplitterReset", "JOfind", "JRunAstNodes", "JCompile", "JTime", "JTimeit", "JProfiler", "JPrun",
       "JMatchersProp", "JGlobalMatches", "JAttrMatches", "JExecfile", "JDebugger", "JRunWithDebugger",
       "JInitShell", "JInitSubcommand"]
NAME_ID = {"b64decode": 1, "zzmod_ok": 2, "badname": 3, "zz_unknown": 4, "zzmod_bad": 5, "zz_reg": 6}
EXC_ID = {"AttributeError": 1, "AssertionError": 2, "ValueError": 10, "OSError": 11, "KeyError": 12, "ImportError": 13,
          "RuntimeError": 14, "TypeError": 15, "ZeroDivisionError": 16, "CustomError": 17, "MemoryError": 18,
          "RecursionError": 19, "NameError": 20, "StrRaises": 21, "ReprRaises": 22, "UnprintableArgs": 23,
          "NeedsArgs": 24, "OSErrorErrno": 11, "UnicodeDecodeError": 26, "StrFailure": 27, "IsADirectoryError": 28,
          "FileNotFoundError": 29}
REAL_CLASS = {"OSErrorErrno": "OSError"}      # harness names of exception *objects* -> their class
BASE_ID = {"KeyboardInterrupt": 1, "SystemExit": 2, "GeneratorExit": 3, "CustomBase": 4}
ACTS = {"run": "ARunCell", "inspect": "AInspect", "cglobal": "ACompleteGlobal", "cattr": "ACompleteAttr",
        "runfile": "ARunFile", "prun": "APrun", "debugstmt": "ADebugStmt"}

# the code variant the model describes: the repaired tree (fixes/F06, F14, F30)
FIXED = {"f6": True, "f14": True, "f30": True, "f35": True}
LEGACY = {"f6": False, "f14": False, "f30": False, "f35": False}

CELL_IMPORT = {"op": "cell", "act": "run", "text": "zz_v = b64decode('aGk=')\ndel b64decode", "names": [["ok", "b64decode"]],
               "del": True}
CELL_PLAIN = {"op": "cell", "act": "run", "text": "zz_w = 41 + 1", "names": [], "del": False}
CELL_COMPLETE = {"op": "cell", "act": "cglobal", "text": "b64d", "names": [], "del": False}
# a name known only through pyflyby.add_import() (the session-local database)
# (the cell forgets the module too, so that every use needs pyflyby's in-memory module finder again)
CELL_REG = {"op": "cell", "act": "run", "names": [["reg", "zz_reg"]], "del": True,
            "text": "zz_q = zz_reg + 1\ndel zz_reg\nimport sys as zz_sys\nzz_sys.modules.pop('pyflyby_autoimport_zz_reg', None)\ndel zz_sys"}
# a known import whose module raises when imported: a failing import is not an internal error
CELL_BAD = {"op": "cell", "act": "run", "text": "zz_b = badname", "names": [["bad", "badname"]], "del": False}
# %run of a valid PEP 263 latin-1 script: pyflyby's own (UTF-8) read of it fails, which is the user's file's business
CELL_RUN_LATIN1 = {"op": "cell", "act": "runfile", "text": "", "names": [], "del": False, "script": "latin1"}
CELLS = [CELL_IMPORT, CELL_PLAIN, CELL_COMPLETE, CELL_REG, CELL_BAD, CELL_RUN_LATIN1]


# ---------------------------------------------------------------------------------------------
# generators

def gen_cases(ctx, n):
    cases = []
    alphabet = [{"op": o} for o in OPS] + [CELL_IMPORT, CELL_COMPLETE, {"op": "AddImport"}, CELL_REG, CELL_BAD, CELL_RUN_LATIN1,
                                            {"op": "BreakDb"}, {"op": "RepairDb"}]
    for i in range(n):
        r = cm.rng(ctx.seed, "c14", i)
        k = r.choice([1, 2, 3, 4, 5, 6, 6, 6])
        pre = []
        db_broken = False
        if i % 7 == 3:          # cycles: the F6 shape
            ops = [{"op": r.choice(["LoadExt", "Enable", "LoadFn"])}, {"op": r.choice(["UnloadExt", "Disable", "UnloadFn"])}] * 3
            ops = ops[:6]
        elif i % 7 == 5:        # registered names across off/on cycles
            # off/on cycles through the extension path, the direct API path, and MIXED (unload_ext then the API enable, ...)
            cyc = r.choice([[{"op": "Disable"}, {"op": "Enable"}], [{"op": "UnloadExt"}, {"op": "LoadExt"}], [{"op": "ReloadExt"}],
                            [{"op": "UnloadFn"}, {"op": "LoadFn"}], [{"op": "UnloadExt"}, {"op": "Enable"}],
                            [{"op": "UnloadFn"}, {"op": "Enable"}], [{"op": "Disable"}, {"op": "LoadFn"}],
                            [{"op": "UnloadExt"}, {"op": "EnableAgain"}], [{"op": "UnloadExt"}, {"op": "Enable"}]])
            ops = [{"op": r.choice(["LoadExt", "LoadFn"])}, {"op": "AddImport"}] + cyc + [CELL_REG] + \
                  ([r.choice(alphabet)] if r.random() < .5 else []) + [CELL_REG]
        else:
            ops = [r.choice(alphabet + ([CELL_PLAIN] if r.random() < .2 else [])) for _ in range(k)]
        if i % 7 == 1 or i % 7 == 6:
            # a cell whose processing makes pyflyby fail and withdraw (unparsable database file), between enables /
            # disables / reloads; the API enable is refused afterwards, %load_ext forces; repairing the file
            first = r.choice([{"op": "Enable"}, {"op": "LoadExt"}, {"op": "LoadFn"}])
            mid = [r.choice([{"op": "Enable"}, {"op": "EnableAgain"}, {"op": "ReloadExt"}, {"op": "UnloadExt"}, {"op": "LoadExt"},
                             {"op": "Disable"}, CELL_IMPORT, {"op": "RepairDb"}, {"op": "BreakDb"}]) for _ in range(r.randint(1, 4))]
            ops = [first, r.choice([CELL_IMPORT, CELL_COMPLETE])] + mid + \
                  [{"op": "RepairDb"}, {"op": r.choice(["LoadExt", "ReloadExt", "LoadFn"])}, CELL_IMPORT]
            db_broken = True
        elif i % 7 == 2:
            # user-level problems that must leave the enabled state alone
            ops = [{"op": r.choice(["LoadExt", "Enable"])}] + \
                  [r.choice([CELL_RUN_LATIN1, CELL_BAD, CELL_IMPORT, CELL_PLAIN]) for _ in range(r.randint(1, 3))] + [CELL_IMPORT]
        if i % 4 == 1:          # start-up order of ipython_config.py / `py`: enable before the shell exists
            pre = [{"op": r.choice(PRE_OPS)} for _ in range(r.choice([0, 1, 1, 2, 2, 3]))] + [{"op": "Initialize"}]
            if r.random() < .6:
                ops = [r.choice([{"op": "Enable"}, CELL_IMPORT, CELL_IMPORT, {"op": "Disable"}])] + ops[:5]
        jedi = (i % 10 == 9)    # the environment of F14
        level = "DEBUG" if (i % 25 == 24) else "ERROR"
        # process-level dispositions an application may have installed before pyflyby is first loaded
        signals = ["sigterm_handler", "sigterm_ign", "sigint_handler", "sigquit_ign", "faulthandler"][(i // 3) % 5] if i % 3 == 0 else None
        cases.append({"kind": "seq", "i": i, "ops": pre + ops + [{"op": "Disable"}], "jedi": jedi, "level": level, "signals": signals,
                      "preshell": bool(pre), "db_broken_at_start": db_broken})
    return cases


def gen_preshell_exhaustive(maxlen):
    """every sequence of enable / disable calls before app.initialize(), then the shell, an optional enable, a
    cell reading a known name, a final disable"""
    cases = []
    for k in range(0, maxlen + 1):
        for tup in itertools.product(["Enable", "Disable", "EnableAgain"], repeat=k):
            for after in ([], ["Enable"], ["Disable", "Enable"]):
                cases.append({"kind": "preshell", "i": len(cases), "preshell": True, "jedi": False, "level": "ERROR",
                              "ops": [{"op": o} for o in tup] + [{"op": "Initialize"}] + [{"op": o} for o in after]
                                     + [CELL_IMPORT, {"op": "Disable"}]})
    return cases


def gen_exhaustive(maxlen):
    alphabet = [{"op": o} for o in OPS]
    cases = []
    for k in range(1, maxlen + 1):
        for tup in itertools.product(alphabet, repeat=k):
            cases.append({"kind": "exh", "i": len(cases), "ops": list(tup) + [CELL_IMPORT, {"op": "Disable"}],
                          "jedi": False, "level": "ERROR"})
    return cases


# ---------------------------------------------------------------------------------------------
# implementation side (worker process; the shell itself lives in a child of the worker)

def run_child(case, with_pyflyby=True, pre_imports=None, timeout=120):
    env = dict(os.environ)
    env["PYFLYBY_LOG_LEVEL"] = case.get("level", "ERROR")
    payload = dict(case, with_pyflyby=with_pyflyby, pre_imports=pre_imports or {})
    p = subprocess.run([sys.executable, "-m", "harness.c14_shell"], input=json.dumps(payload), env=env,
                       stdout=subprocess.PIPE, stderr=subprocess.PIPE, text=True, timeout=timeout,
                       cwd=os.path.dirname(os.path.dirname(os.path.abspath(__file__))))
    for line in p.stdout.splitlines():
        if line.startswith("RESULT"):
            return json.loads(line[6:])
    return {"__child_error__": "no result (rc=%s)" % p.returncode, "tb": (p.stderr or "")[-1500:]}


def impl_case(case):
    impl = run_child(case)
    if "__child_error__" in impl:
        return impl
    ref = None
    if any(o["op"] == "cell" for o in case["ops"]):
        # the pyflyby-free shell runs the same cells; names the real run auto-imported in a cell are
        # imported explicitly before that cell ("apart from names that were successfully auto-imported")
        pre = {}
        for idx, (o, ent) in enumerate(zip(case["ops"], impl["trace"][1:])):
            if o["op"] == "cell":
                stmts = list(ent["cell"].get("auto_imported", []))
                if stmts:
                    pre[str(idx)] = stmts
        ref = run_child(case, with_pyflyby=False, pre_imports=pre)
    return {"impl": impl, "ref": ref}


IMPORT_STMT = {"b64decode": "from base64 import b64decode", "zzmod_ok": "import zzmod_ok"}


# ---------------------------------------------------------------------------------------------
# model side

def c_exc(name):
    if name == "SyntaxError":
        return "ESyntax"
    if name in BASE_ID:
        return "(EBase %s)" % cm.cN(BASE_ID[name])
    return "(EExc %s)" % cm.cN(EXC_ID[name])


def c_nm(kind, name, bad_exc):
    i = cm.cN(NAME_ID[name])
    if kind == "ok":
        return "(NKnownOk %s)" % i
    if kind == "bad":
        return "(NKnownRaises %s %s)" % (i, c_exc(bad_exc))
    if kind == "reg":
        return "(NRegistered %s)" % i
    return "(NUnknown %s)" % i


def c_sop(o, bad_exc="ValueError"):
    if o["op"] in ("BreakDb", "RepairDb", "UserAst"):
        return "(SOp UserFileOp)"
    if o["op"] == "AddImport":
        return "(SOp (AddImport %s))" % cm.cN(NAME_ID["zz_reg"])
    if o["op"] != "cell":
        return "(SOp %s)" % o["op"]
    names = cm.clist([c_nm(k, n, bad_exc) for k, n in o.get("names", [])])
    faults = cm.clist([cm.cpair(f[0], c_exc(f[1])) for f in o.get("faults", [])])
    return "(SCell (mkCell %s %s %s %s))" % (ACTS[o["act"]], names, faults, cm.cbool(o.get("del", False)))


def c_val(v):
    if v == "U":
        return "VUnset"
    return "(%s %s)" % ("VAdvice" if v[0] == "A" else "VPlain", cm.cN(int(v[1:])))


def c_env(e, variant):
    return "(mkEnv %s %s %s %s %s %s %s %s %s %s %s %s %s %s %s %s)" % (
        e["reset"], cm.cbool(e["ofind"]), e["ast"], cm.cbool(e["magics"]), cm.cbool(e["profiler"]), e["compl"],
        cm.cbool(e["jedi"]), e["pm"], cm.cbool(e["execfile"]), cm.cbool(e.get("ipdb", True)), cm.cbool(e["tb_debugger"]),
        cm.cbool(e["rwd"]), cm.cN(e.get("level", 40)), cm.cbool(variant["f6"]), cm.cbool(variant["f14"]),
        cm.cbool(e.get("init_subcmd", True)))


def c_io(e, variant):
    return "(mkIo %s %s %s %s %s %s)" % (cm.cbool(bool(e.get("stdout_proxy"))), cm.cbool(e["prompts_class"]),
                                         cm.cbool(e["pt_cli"]), cm.cbool(variant["f30"]), cm.cbool(variant["f35"]),
                                         cm.cbool(e.get("stderr_closed", False)))


NXT = 1000


def with_natural(o, ent, case):
    """oracle arguments of the model taken from this very run:
    * %run: what pyflyby's own (unarmed) read / parse of the script raised is a fault at SParse; raised while
      constructing the PythonBlock it precedes an armed SParse stub (which sits in ast_node), otherwise it follows it;
    * a stub on symbol_needs_import armed from its k-th call on: where the call that raised sat - inside
      find_missing_imports (mid-visit of the user's AST: the model's SAnalysis), in auto_import_symbol (the
      model's SNeedsImport), or nowhere (fewer than k calls);
    * what an (unarmed) load of the import database does right now - it raises when the database file is
      unparsable and no earlier load is cached (SDbLoad);
    * a sys.path entry whose finder cannot enumerate its modules: ModuleHandle.list() raises OSError in every
      global-name completion pyflyby answers (SModuleList)."""
    if o.get("op") != "cell":
        return o
    c = ent.get("cell") or {}
    o = dict(o)
    faults = []
    for f in o.get("faults", []):
        if f[0] == "SNeedsImport":
            where = c.get("fired_in", {}).get("SNeedsImport")
            if where == "analysis":
                faults.append(["SAnalysis", f[1]])
            elif where is not None:
                faults.append(["SNeedsImport", f[1]])
        else:
            faults.append([f[0], f[1]])
    nat = c.get("natural_parse")
    if nat:
        faults = ([["SParse", nat[0]]] + faults) if nat[1] == "construct" else (faults + [["SParse", nat[0]]])
    if c.get("natural_db"):
        # loading the import database fails right now (a broken database file, nothing cached)
        faults.append(["SDbLoad", c["natural_db"]])
    if case.get("bad_finder") and o.get("act") == "cglobal":
        faults.append(["SModuleList", "OSError"])
    o["faults"] = faults
    return o


def base_snapshot(impl):
    """the shell before pyflyby touched it: the first snapshot in which the shell exists, minus what pyflyby
    has already installed by then (enable before app.initialize())"""
    first = next((e["snap"] for e in impl["trace"] if e["snap"].get("has_shell", True)), impl["trace"][0]["snap"])
    s0 = impl["trace"][0]["snap"]
    slots = [v if v[0] == "P" else "U" for v in first["slots"][:14]] + list(s0["slots"][14:])
    own_a = first.get("ast_own", [False] * len(first["ast"]))
    own_c = first.get("cleanup_own", [False] * len(first["cleanup"]))
    return {"slots": slots, "ast": [x for x, o in zip(first["ast"], own_a) if not o],
            "cleanup": [x for x, o in zip(first["cleanup"], own_c) if not o], "line": [],
            "has_shell": s0.get("has_shell", True)}


def model_expr(case, impl, variant):
    s0 = base_snapshot(impl)
    ops = [with_natural(o, ent, case) for o, ent in zip(case["ops"], impl["trace"][1:])]
    slots = cm.clist([cm.cpair(j, c_val(v)) for j, v in zip(JPS, s0["slots"]) if v != "U"])
    return "run_session %s %s %s %s %s %s %s %s %s" % (
        c_env(impl["env"], variant), c_io(dict(impl["env"], stderr_closed=(case.get("stdio") == "err:closed")), variant), slots,
        cm.clist([cm.cN(x) for x in s0["ast"]]), cm.clist([cm.cN(x) for x in s0["cleanup"]]),
        cm.clist([cm.cN(x) for x in s0["line"]]), cm.cbool(s0["has_shell"]), cm.cN(NXT),
        cm.clist([c_sop(o, case.get("bad_exc", "ValueError")) for o in ops]))


# ---------------------------------------------------------------------------------------------
# canonical form of a trace: identities renamed by first appearance

class Renamer:
    def __init__(self):
        self.m = {}

    def __call__(self, x):
        if x not in self.m:
            self.m[x] = len(self.m)
        return self.m[x]


def canon_val(v, rn):
    return "U" if v == "U" else v[0] + str(rn(int(v[1:])))


def exc_name_of_model(x):
    if x is None or x == "SyntaxError":
        return x
    table = EXC_ID if x[0] == "E" else BASE_ID
    for k, v in table.items():
        if v == int(x[1:]):
            return k
    return x


def masked_slots(slots, shell, rn):
    """the fourteen slots of the shell do not exist before the shell does (identities are renamed after masking)"""
    return [canon_val(v, rn) for v in slots] if shell else ["-"] * 14 + [canon_val(v, rn) for v in slots[14:]]


def without_user(snap):
    """ip.ast_transformers without the transformers the user registered (operation UserAst)"""
    return [x for x, u in zip(snap["ast"], snap.get("ast_user", [False] * len(snap["ast"]))) if not u]


def canon_impl(impl, case=None):
    rn = Renamer()
    out = []
    names_bound = set()
    ops = [None] + (case["ops"] if case else [None] * len(impl["trace"]))
    for ent, o in zip(impl["trace"], ops):
        s = ent["snap"]
        c = ent.get("cell")
        if c:
            names_bound |= {n for n in c.get("ns_added", []) if n in NAME_ID}
            names_bound -= set(c.get("ns_removed", []))
        shell = s.get("has_shell", True)
        s = dict(s, ast=without_user(s))
        snap = {"st": s["st"], "errored": s["errored"],
                "disablers": [[d[0], d[1], canon_val(d[2], rn), canon_val(d[3], rn)] if d[0] == "unadvise"
                              else [d[0], d[1], rn(d[2])] for d in s["disablers"]],
                "slots": masked_slots(s["slots"], shell, rn),
                "ast": [rn(x) for x in s["ast"]] if shell else [], "cleanup": [rn(x) for x in s["cleanup"]] if shell else [],
                "line": [rn(x) for x in s["line"]] if shell else [],
                "ast_tr": None if s["ast_tr"] is None else rn(s["ast_tr"]),
                "attempted": sorted([NAME_ID.get(k, k), v] for k, v in s["attempted"]),
                "user_ns": sorted(NAME_ID[n] for n in names_bound),
                "log_pre": s["log_pre"], "log_dirty": s["log_dirty"],
                "has_shell": shell, "registered": sorted(NAME_ID.get(n, n) for n in s.get("registered", [])),
                "attr": s.get("attr", False),
                "loaded": s["loaded"], "escaped": ent.get("escaped")}
        co = None
        if c:
            esc = c.get("escaped")
            if esc is None and o is not None and c.get("error") is not None:
                # run_cell reports an exception that left a hook as the cell's error
                injected = {REAL_CLASS.get(f[1], f[1]) for f in o.get("faults", [])} | ({case.get("bad_exc")} if case else set()) | {"StrFailure"} | \
                           ({"ValueError"} if case and case.get("stdio") == "err:closed" else set())
                # (an injected NameError is told from the cell's own NameError by its message)
                if c["error"] in injected and (c["error"] != "NameError" or c.get("error_injected")):
                    esc = c["error"]
            co = {"path": c["pf_calls"] > 0, "escaped": esc}
            if c["act"] in ("run", "runfile", "prun"):
                co["ok"] = (c.get("error") != "NameError" and "NameError" not in c.get("stdout", "")) if esc is None else False
            elif c["act"] == "inspect":
                co["ok"] = bool(c.get("result")) if "escaped" not in c else False
        out.append([snap, co])
    return out


def canon_model(mtrace, case):
    rn = Renamer()
    out = []
    for (sh, co), o in zip(mtrace, [None] + case["ops"]):
        s = sh["ai"]
        shell = s["has_shell"]
        snap = {"st": s["st"], "errored": s["errored"],
                "disablers": [[d[0], d[1], canon_val(d[2], rn), canon_val(d[3], rn)] if d[0] == "unadvise"
                              else [d[0], d[1], rn(d[2])] for d in s["disablers"]],
                "slots": masked_slots(s["slots"], shell, rn),
                "ast": [rn(x) for x in s["ast"]] if shell else [], "cleanup": [rn(x) for x in s["cleanup"]] if shell else [],
                "line": [rn(x) for x in s["line"]] if shell else [],
                "ast_tr": None if s["ast_tr"] is None else rn(s["ast_tr"]),
                "attempted": sorted([k, v] for k, v in s["attempted"]),
                "user_ns": sorted(s["user_ns"]),
                "log_pre": s["log_pre"], "log_dirty": s["log_dirty"],
                "has_shell": shell, "registered": sorted(set(s["registered"])), "attr": sh["attr"],
                "loaded": sh["loaded"], "escaped": exc_name_of_model(sh["escaped"])}
        c = None
        if co is not None:
            c = {"path": co["path"], "escaped": exc_name_of_model(co["escaped"])}
            if o["act"] in ("run", "runfile", "prun", "inspect"):
                c["ok"] = co["ok"]
        out.append([snap, c])
    return out


def first_diff(a, b):
    for k, (x, y) in enumerate(zip(a, b)):
        if x != y:
            keys = [f for f in x[0] if x[0][f] != y[0].get(f)] if x[0] != y[0] else ["cell"]
            return {"step": k, "fields": keys, "impl": x, "model": y}
    if len(a) != len(b):
        return {"step": min(len(a), len(b)), "fields": ["length"], "impl": len(a), "model": len(b)}
    return None


# ---------------------------------------------------------------------------------------------
# oracle: the property on the snapshots alone

EXPECTED_ADVISED = [1, 6, 9, 10, 11, 12, 13]     # the seven joinpoints of a terminal IPython >= 7


def oracle(case, impl, ref):
    """list of (clause, detail)"""
    bad = []
    tr = impl["trace"]
    base = base_snapshot(impl)          # what the shell looks like without pyflyby
    plain_ids = set(base["ast"]) | set(base["cleanup"])
    eff_base = None

    def opname(k):
        return "init" if k == 0 else case["ops"][k - 1].get("op")

    for k, ent in enumerate(tr):
        s = ent["snap"]
        shell = s.get("has_shell", True)
        if s["st"] == "DISABLED":
            if shell:
                if eff_base is None:
                    eff_base = s["eff"]
                for f, want in (("slots", base["slots"]), ("eff", eff_base), ("ast", base["ast"]), ("cleanup", base["cleanup"])):
                    if s[f] != want:
                        bad.append(("disable_restores", "step %d (%s): %s is %r, was %r before pyflyby was enabled"
                                    % (k, opname(k), f, s[f], want)))
                        break
            elif s["slots"][14:] != base["slots"][14:]:
                bad.append(("disable_restores", "step %d (%s): app.init_shell / app.initialize_subcommand are %r after a disable "
                            "before the shell exists, initially %r" % (k, opname(k), s["slots"][14:], base["slots"][14:])))
            if s["disablers"]:
                bad.append(("disable_restores", "step %d: %d disablers left in state DISABLED" % (k, len(s["disablers"]))))
        elif s["st"] == "ENABLED":
            if not shell:
                bad.append(("state_machine", "step %d: ENABLED although no shell exists" % k))
                continue
            own_ast = [x for x in s["ast"] if x not in plain_ids]
            own_cl = [x for x in s["cleanup"] if x not in plain_ids]
            if len(own_ast) != 1 or len(own_cl) != 1:
                bad.append(("enable_once", "step %d: %d AST transformers and %d cleanup transformers of pyflyby installed"
                            % (k, len(own_ast), len(own_cl))))
            for j in EXPECTED_ADVISED:
                if not s["slots"][j].startswith("A"):
                    bad.append(("enable_once", "step %d: joinpoint %s not advised while ENABLED" % (k, JPS[j])))
            per_jp = {}
            for d in s["disablers"]:
                if d[0] == "unadvise":
                    per_jp[d[1]] = per_jp.get(d[1], 0) + 1
                    if d[3].startswith("A"):
                        bad.append(("enable_once", "step %d: advice stacked on advice at %s" % (k, JPS[d[1]])))
            if any(v > 1 for v in per_jp.values()):
                bad.append(("enable_once", "step %d: a joinpoint is advised more than once: %r" % (k, per_jp)))
        elif s["st"] == "ENABLING" and not shell and s["slots"][14].startswith("A"):
            pass      # enabled before the shell exists: waiting for app.init_shell(), which is advised
        else:
            bad.append(("state_machine", "step %d (%s): state %s visible between operations (shell exists: %s)"
                        % (k, opname(k), s["st"], shell)))
    # an enable that is entitled to succeed does (F14 is the counter-example on the unrepaired code)
    for k, (o, ent) in enumerate(zip(case["ops"], tr[1:]), 1):
        prev, s = tr[k - 1]["snap"], ent["snap"]
        if not prev.get("has_shell", True):
            if o["op"] == "Initialize" and prev["st"] == "ENABLING" and s["st"] != "ENABLED" and case.get("level") != "DEBUG":
                bad.append(("enable_succeeds", "step %d: enabled before the shell existed, but state %s (errored=%s) once "
                            "app.initialize() has run" % (k, s["st"], s["errored"])))
            continue
        forced = o["op"] in ("LoadFn", "ReloadExt") or (o["op"] == "LoadExt" and not prev["loaded"])
        plain = o["op"] in ("Enable", "EnableAgain") and not prev["errored"]
        if (forced or plain) and s["st"] != "ENABLED" and case.get("level") != "DEBUG":
            bad.append(("enable_succeeds", "step %d (%s): state %s, errored=%s after an enable that should succeed (%s)"
                        % (k, o["op"], s["st"], s["errored"], ent.get("escaped") or ent.get("escaped_msg") or "no exception")))
    last = tr[-1]["snap"]
    if case["ops"] and case["ops"][-1].get("op") == "Disable":
        want = dict(base, disablers=[], ast_tr=None)
        if not last.get("has_shell", True):
            want.update(slots=["U"] * 14 + base["slots"][14:], ast=[], cleanup=[])
        for f in ("slots", "ast", "cleanup", "disablers", "ast_tr"):
            if last[f] != want[f]:
                bad.append(("no_residue", "after the final disable %s is %r, initially %r" % (f, last[f], want[f])))
                break
    # the two-state reference model: whether the importer is on is decided by the enable / disable / load / unload
    # calls alone; a cell changes it only when pyflyby itself fails on it (here: the import database cannot be
    # loaded); a problem of the user's files (%run of a latin-1 script, a known import that raises) does not
    ref_on, ref_err, ref_pending = False, False, False
    for k, (o, ent) in enumerate(zip(case["ops"], tr[1:]), 1):
        prev, s = tr[k - 1]["snap"], ent["snap"]
        shell = prev.get("has_shell", True)
        name = o["op"]
        if name in ("Enable", "EnableAgain"):
            if not ref_on and not ref_pending and not ref_err:
                ref_on, ref_pending = (True, False) if shell else (False, True)
        elif name in ("LoadFn", "ReloadExt") or (name == "LoadExt" and not prev["loaded"]):
            if name == "ReloadExt" and prev["loaded"]:
                ref_on = ref_pending = False
            if not ref_on and not ref_pending:
                ref_on, ref_err = True, False
        elif name in ("Disable", "UnloadFn") or (name == "UnloadExt" and prev["loaded"]):
            ref_on = ref_pending = False
        elif name == "Initialize" and not shell:
            ref_on, ref_pending = ref_on or ref_pending, False
        elif name == "cell":
            c = ent["cell"]
            needs_db = c["act"] in ("cglobal", "cattr") or any(True for _ in o.get("names", []))
            if ref_on and c.get("natural_db") and needs_db:
                ref_on, ref_err = False, True          # an internal error: pyflyby withdraws
        if case.get("level") == "DEBUG" or case.get("jedi") and not impl["env"].get("pm") != "PmMissing":
            continue
        got_on = s["st"] == "ENABLED" or (s["st"] == "ENABLING" and not s.get("has_shell", True))
        want_on = ref_on or ref_pending
        if got_on != want_on:
            bad.append(("two_state_model", "step %d (%s%s): the importer is %s (state %s, errored=%s) where the enable/disable "
                        "history says %s" % (k, name, "/" + o["act"] + ("/" + o["script"] if o.get("script") else "") if name == "cell" else "",
                                             "on" if got_on else "off", s["st"], s["errored"], "on" if want_on else "off")))
            break
    # reversibility presupposes that the operations themselves work: none of them may raise (an exception out of
    # %load_ext after the hooks are in leaves them patched with IPython believing the extension is not loaded)
    for k, (o, ent) in enumerate(zip(case["ops"], tr[1:]), 1):
        if o["op"] in OPS + ["Initialize"] and "escaped" in ent and case.get("level") != "DEBUG":
            bad.append(("operation_must_not_raise", "step %d (%s): %s: %s (state now %s, extension recorded as loaded: %s, "
                        "process dispositions: %s)" % (k, o["op"], ent["escaped"], ent.get("escaped_msg"), ent["snap"]["st"],
                                                      ent["snap"]["loaded"], case.get("signals"))))
    # while a name is registered and the importer is ENABLED, pyflyby's in-memory module finder is on sys.meta_path
    for k, ent in enumerate(tr):
        s = ent["snap"]
        if s.get("registered") and s["st"] == "ENABLED" and not s.get("dynimp_finder"):
            bad.append(("registered_kept", "step %d: ENABLED with %r registered through add_import(), but pyflyby's module finder "
                        "is not on sys.meta_path" % (k, s["registered"])))
            break
    # names registered with add_import() stay known across every off/on cycle
    reg_ok = False
    for k, (o, ent) in enumerate(zip(case["ops"], tr[1:]), 1):
        before = tr[k - 1]["snap"]
        if o["op"] == "AddImport" and "escaped" not in ent:
            reg_ok = True
        if o["op"] == "cell" and o.get("text") == CELL_REG["text"] and reg_ok and before["st"] == "ENABLED" \
           and not before["errored"]:
            c = ent["cell"]
            if c.get("natural_db"):
                continue      # the import database cannot be loaded: the importer rightly withdraws instead
            if c.get("error") is not None or "escaped" in c:
                bad.append(("registered_kept", "step %d: a name registered with add_import() is no longer auto-imported while "
                            "ENABLED: %r" % (k, {x: c.get(x) for x in ("error", "escaped")})))
    # behavioural clause
    if ref is not None and "__child_error__" not in ref:
        for k, (o, ent, rent) in enumerate(zip(case["ops"], tr[1:], ref["trace"][1:])):
            if o["op"] != "cell":
                continue
            c, rc = ent["cell"], rent["cell"]
            before = tr[k]["snap"]
            if o is CELL_IMPORT or o.get("text") == CELL_IMPORT["text"]:
                if before["st"] == "ENABLED" and not before["errored"] and not c.get("natural_db"):
                    # (with an unloadable import database the importer rightly withdraws instead)
                    if c.get("error") is not None or "escaped" in c:
                        bad.append(("enabled_autoimports", "step %d: cell reading a known name failed while ENABLED: %r"
                                    % (k + 1, {x: c.get(x) for x in ("error", "escaped", "stdout")})))
                elif before["st"] == "DISABLED":
                    for f in ("result", "error", "stdout", "ns_added", "escaped", "globals_delta"):
                        if c.get(f) != rc.get(f):
                            bad.append(("disabled_is_plain", "step %d: %s is %r, plain IPython gives %r"
                                        % (k + 1, f, c.get(f), rc.get(f))))
                            break
            elif before["st"] == "DISABLED":
                for f in ("result", "error", "stdout", "ns_added", "escaped", "matches", "globals_delta"):
                    if c.get(f) != rc.get(f):
                        bad.append(("disabled_is_plain", "step %d: %s is %r, plain IPython gives %r"
                                    % (k + 1, f, c.get(f), rc.get(f))))
                        break
    return bad


def is_F6(case, clause, detail):
    """classifier of known finding F6 (only used while fixes/F06 is not applied)"""
    return clause in ("disable_restores", "no_residue") and "cleanup" in detail


def is_F14(case, clause, detail):
    return bool(case.get("jedi"))


# ---------------------------------------------------------------------------------------------

def evaluate(ctx, cases, results):
    exprs, idx = [], []
    for ci, (c, r) in enumerate(zip(cases, results)):
        if "__exc__" in r or "__timeout__" in r or "__child_error__" in r or "__child_error__" in r.get("impl", {}):
            continue
        exprs.append(model_expr(c, r["impl"], FIXED))
        idx.append(ci)
    model = cm.coq_eval_json(REQ, exprs, shard=40)
    mtr = dict(zip(idx, model))
    legacy_needed = []
    for ci, (c, r) in enumerate(zip(cases, results)):
        if ci not in mtr:
            ctx.violation("harness", c, {"error": r})
            ctx.count(c, False)
            continue
        impl, ref = r["impl"], r["ref"]
        if not impl["env"].get("app_ok"):
            ctx.disagreement("environment hypothesis: initialised terminal app", c, impl["env"], None)
        a, b = canon_impl(impl, c), canon_model(mtr[ci], c)
        d = first_diff(a, b)
        if d:
            ctx.disagreement("session trace", c, d["impl"], dict(model=d["model"], step=d["step"], fields=d["fields"]))
            legacy_needed.append(ci)
        for clause, detail in oracle(c, impl, ref):
            ctx.violation(clause, c, detail)
        sts = [e["snap"]["st"] for e in impl["trace"]]
        if c.get("preshell"):
            ctx.bump("preshell")
        if "ENABLING" in sts:
            ctx.bump("enabling_observed")
        ctx.count(c, "ENABLED" in sts)
        ctx.bump("len=%d" % (len(c["ops"]) - 1))
        for o in c["ops"]:
            ctx.bump("op:" + (o["op"] if o["op"] != "cell" else "cell/" + o["act"]))
        if c.get("jedi"):
            ctx.bump("env:jedi")
        if c.get("signals"):
            ctx.bump("env:signals:" + c["signals"])
        if c.get("level") == "DEBUG":
            ctx.bump("env:debug")
        if any(e["snap"]["errored"] for e in impl["trace"]):
            ctx.bump("errored_reached")
        ctx.sample({"ops": [o["op"] if o["op"] != "cell" else o["act"] for o in c["ops"]],
                    "states": sts}, limit=3)
    # a disagreeing trace that matches the model of the unrepaired code is labelled as such
    if legacy_needed:
        lex = [model_expr(cases[ci], results[ci]["impl"], LEGACY) for ci in legacy_needed]
        for ci, m in zip(legacy_needed, cm.coq_eval_json(REQ, lex, shard=40)):
            if first_diff(canon_impl(results[ci]["impl"], cases[ci]), canon_model(m, cases[ci])) is None:
                ctx.bump("matches_model_of_unrepaired_code")
    ctx.notes["model_evaluations_in_kernel"] = len(exprs)


ANCHORS = ["pyflyby._util:Aspect.__init__", "pyflyby._util:Aspect.advise", "pyflyby._util:Aspect.unadvise",
           "pyflyby._interactive:AutoImporter.enable", "pyflyby._interactive:AutoImporter._enable_internal",
           "pyflyby._interactive:AutoImporter._enable_initializer_hooks", "pyflyby._interactive:AutoImporter._enable_kernel_manager_hook",
           "pyflyby._interactive:AutoImporter._enable_shell_hooks", "pyflyby._interactive:AutoImporter._enable_reset_hook",
           "pyflyby._interactive:AutoImporter._enable_ofind_hook", "pyflyby._interactive:AutoImporter._enable_ast_hook",
           "pyflyby._interactive:AutoImporter._enable_time_hook", "pyflyby._interactive:AutoImporter._enable_timeit_hook",
           "pyflyby._interactive:AutoImporter._enable_prun_hook", "pyflyby._interactive:AutoImporter._enable_completer_hooks",
           "pyflyby._interactive:AutoImporter._enable_completion_hook", "pyflyby._interactive:AutoImporter._enable_run_hook",
           "pyflyby._interactive:AutoImporter._enable_debugger_hook", "pyflyby._interactive:AutoImporter.disable",
           "pyflyby._interactive:AutoImporter._safe_call", "pyflyby._interactive:AutoImporter._advise",
           "pyflyby._interactive:AutoImporter.reset_state_new_cell", "pyflyby._interactive:enable_auto_importer",
           "pyflyby._interactive:disable_auto_importer", "pyflyby._interactive:load_ipython_extension",
           "pyflyby._interactive:unload_ipython_extension", "pyflyby._interactive:AutoImporter._continue_enable",
           "pyflyby._interactive:AutoImporter._from_app", "pyflyby._interactive:AutoImporter._construct",
           "pyflyby._dynimp:add_import", "pyflyby._dynimp:_add_import"]


def run(ctx):
    cm.check_anchors(ctx, ANCHORS)
    n = (150 if ctx.quick else 400) * ctx.scale
    ctx.coverage["rule"] = ("operation sequences of length 1-6 over {Enable, EnableAgain, Disable, LoadExt, UnloadExt, ReloadExt, "
                            "LoadFn, UnloadFn, add_import, run-cell (known name / name registered with add_import), complete} + a final Disable, "
                            "one fresh real shell per sequence, every 4th sequence starting BEFORE app.initialize() (enable / disable calls, then "
                            "Initialize), every 7th an add_import followed by an off/on cycle, "
                            "10% under the jedi completer, 4% at PYFLYBY_LOG_LEVEL=DEBUG; thorough adds every sequence of "
                            "length <= 3 (<= 4 with 12 or more jobs) over the eight operations; non-trivial = the sequence reached ENABLED")
    ctx.assumptions += [
        "IPython 9.17 itself (ExtensionManager bookkeeping, which hook lists run_cell consults) is modelled, not verified",
        "the set of joinpoints the shell offers is probed with hasattr on the very shell driven (env record of the model)",
        "the application is an initialised terminal app (shell present, no kernel manager): checked on every run (app_ok)",
        "nobody but pyflyby writes the patched slots during the sequence",
    ]
    ctx.notes["trusted_base"] = ["IPython 9.17.1 as the environment of the hooks (modelled, not verified)"]
    cases = cm.load_corpus("C14") + gen_cases(ctx, n)
    if not ctx.quick:
        # every sequence of length <= 3 (584); of length <= 4 (4680, ~12 min) when there are cores for it
        cases += gen_exhaustive(4 if cm.NCPU >= 12 else 3) + gen_preshell_exhaustive(3)
    results = cm.run_impl("c14", "impl_case", cases, timeout_case=300)
    evaluate(ctx, cases, results)


def replay(payload):
    case = payload.get("case") or payload["disagreements"][0]["case"]
    results = cm.run_impl("c14", "impl_case", [case], jobs=1, timeout_case=300)
    r = results[0]
    impl = r.get("impl", r)
    m = cm.coq_eval_json(REQ, [model_expr(case, impl, FIXED)])[0] if "trace" in impl else None
    print(json.dumps({"case": case,
                      "impl": canon_impl(impl, case) if "trace" in impl else impl,
                      "model": canon_model(m, case) if m else None,
                      "oracle": oracle(case, impl, r.get("ref")) if "trace" in impl else None}, indent=1))
    return 0

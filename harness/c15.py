"""C15 - `py` delivers arguments faithfully and never evaluates literals.

Correspondence: pyflyby._py._parse_auto_apply_args(_get_argspec(f), argv, ns, mode) in-process,
inspect.signature(f).bind, _interpret_arg_mode and bin/py subprocess runs, against
PyArgs/Parse.v and PyArgs/BindSpec.v (through PyArgs/Wire.v).
Oracle: the property re-stated with Python only: string identity, value-or-string in auto mode,
and "the equivalent Python keyword call" through inspect.signature(f).bind."""
import itertools
import json
import os
import re
import shutil
import subprocess
import sys
import tempfile

from . import common as cm

ANCHORS = ["pyflyby._idents:is_identifier", "pyflyby._py:_parse_auto_apply_args", "pyflyby._py:UserExpr._infer_and_evaluate", "pyflyby._py:_get_argspec",
           "pyflyby._py:_interpret_arg_mode", "pyflyby._py:auto_apply", "pyflyby._py:_Namespace.auto_eval",
           "pyflyby._py:_PyMain._parse_global_opts", "pyflyby._py:_PyMain._run_action", "pyflyby._py:_PyMain.apply",
           "pyflyby._py:_PyMain.eval", "pyflyby._py:_PyMain.execfile", "pyflyby._py:_PyMain.exec_stdin",
           "pyflyby._py:_PyMain.heuristic_cmd", "pyflyby._py:_PyMain.run_module", "pyflyby._py:_PyMain.heuristic_run_module"]

REQ = ["Base.StrX", "PyArgs.Parse", "PyArgs.BindSpec", "PyArgs.Wire"]
MODES = ["string", "eval", "auto"]
KINDS = ["function", "method", "class", "opaque"]

# ---------------------------------------------------------------------------------------------
# generators

HELPISH = ["?", "-?", "--?", "??", "-??", "--??"]

PNAMES = ["foo", "foobar", "fo", "bar", "baz", "b", "key", "k", "x_y", "help", "h", "source", "\u00e9t\u00e9", "\u00e9",
          # identifiers that are not letters-only: combining marks / vowel signs (Devanagari, Thai), U+00B7 (Other_ID_Continue),
          # U+2118 (Other_ID_Start), a base letter + combining acute; "file"/"full" are what NFKC makes of the ligature / full-width spellings
          "\u0928\u093e\u092e", "\u0928\u093e\u092e\u0915", "\u0e0a\u0e37\u0e48\u0e2d", "paral\u00b7lel", "\u2118x", "x\u0301y", "file", "full"]
ONAMES = PNAMES + ["zz", "fooba", "x-y", "f", "ba", "ke", "sourc", "hel", "1x", "if", "-x", "", "\u00e9t", "x.y", "a b",
                   # prefixes cut inside a combining sequence, NFKC-normalising spellings, a leading combining mark, a lone middle dot
                   "\u0928\u093e", "\u0928", "\u0e0a\u0e37", "\u0e0a", "paral\u00b7", "\u2118", "x\u0301", "\ufb01le", "\uff46\uff55\uff4c\uff4c",
                   "\u0301x", "\u00b7x", "\u093e\u092e"]

PLAIN = ["abc", "q", "hello", "a b", "", " ", "x\ty", "\u65e5\u672c", "Barrow"]
EXPRS = ["1", "1+2", "-5", "[1, 2]", "'x'", "\"o'q\"", "1/0", "None", "os.sep", "sys.maxsize", "math.pi", "(1,)",
         "{'a': 1}", "0x10", "1e3", "7_", "1+", "True", "foo", "zzzq.w", "len", "int('3')", "v_=1", "import os",
         "(yield)", "5;6", "#c", "2 #c", "\n3", " 4", "raise", "sys.exit(3)", "[][0]", "...", "1 .real", "abc",
         "zzzq", "{**1}", "1if 1else 2", "0777", "b'x'", "2**10", "'a' 'b'", "(w_:=1)", "not 1", "str", "lambda: 0",
         "__import__('os').sep", "os.path.join('a', 'b')", "undefined_name_1 + 1", "print(end='')",
         # values for which `==` is useless (equal to anything / a comparison result without a truth value): the delivered
         # object is identified by type and repr, never compared with ==
         "unittest.mock.ANY", "unittest.mock.ANY", "c15eq.W", "c15eq.arange(3)", "c15eq.ANYTHING", "[unittest.mock.ANY]", "c15eq.W.n"]
SHELL = ["o'q", "$HOME", "a;b", "*.py", "~/x", "a|b", "`ls`", "--x", "-5", "=", "fq_=1", "/usr/bin", "a\\b", "\u00e9",
         "*a", "a&&b", ">out", "-", "--", "-x=1", "--foo", "--foo=1", "?", "??", "a=b=c", "$(id)", "!ls", "%time", "'",
         "\"", "rm -rf /tmp/x", "a\nb", "--=", "---"]
VALS = PLAIN + EXPRS + SHELL


def gen_sig(r, small=False):
    names = r.sample(PNAMES if not small else PNAMES[:9], r.randint(0, 5))
    if r.random() < .35 and not small:        # force shared prefixes
        base = r.choice(["foo", "ba", "k", "\u0928\u093e"])
        names = [n for n in names if not n.startswith(base)] + [x for x in PNAMES if x.startswith(base)][:r.randint(2, 3)]
        r.shuffle(names)
    npos = r.randint(0, len(names))
    args, kwonly = names[:npos], names[npos:]
    ndef = r.randint(0, len(args))
    return {"args": args, "ndefaults": ndef, "varargs": r.random() < .3, "kwonly": kwonly,
            "kwdefaults": [k for k in kwonly if r.random() < .5], "varkw": r.random() < .35}


def gen_value(r):
    k = r.random()
    if k < .3:
        return r.choice(PLAIN)
    if k < .75:
        return r.choice(EXPRS)
    return r.choice(SHELL)


def gen_argv(r, sig):
    params = sig["args"] + sig["kwonly"]
    av = []
    for _ in range(r.choice([0, 1, 1, 2, 2, 3, 3, 4, 5, 6])):
        k = r.random()
        if params and r.random() < .7:
            p = r.choice(params)
            n = r.choice([p, p, p, p[:r.randint(1, len(p))], p.replace("_", "-"), p + "x"])
        else:
            n = r.choice(ONAMES)
        if k < .30:
            av.append(gen_value(r))
        elif k < .55:
            av.append("--%s=%s" % (n, gen_value(r)))
        elif k < .68:
            av += ["--" + n, gen_value(r)]
        elif k < .78:
            av += ["-" + n, gen_value(r)]
        elif k < .82:
            av.append("-%s=%s" % (n, gen_value(r)))
        elif k < .86:
            av.append("--")
        elif k < .89:
            av.append("-")
        elif k < .92:
            av.append(r.choice(["?", "-?", "--?", "??", "-??", "--??", "--help", "-h", "--source", "-help", "--h", "--help=1"]))
        elif k < .95:
            av.append("--%s=" % n)
        else:
            av.append(r.choice(SHELL))
    return av


def unique_prefix(r, p, params):
    """a spelling of option p that the property says must reach p"""
    if r.random() < .55:
        return p
    ok = [p[:k] for k in range(1, len(p) + 1)
          if p[:k] not in params and sum(1 for q in params if q.startswith(p[:k])) == 1]
    return r.choice(ok) if ok else p


def gen_valid_argv(r, sig):
    """mostly-valid stream: every required parameter is supplied once, positionally or by option"""
    params = sig["args"] + sig["kwonly"]
    nreq = len(sig["args"]) - sig["ndefaults"]
    npos = r.randint(0, len(sig["args"])) if r.random() < .8 else nreq
    if sig["varargs"] and r.random() < .4:
        npos = len(sig["args"]) + r.randint(1, 2)
    items = [[gen_value(r)] for _ in range(npos)]
    for v in items:
        if v[0].startswith("-") or v[0] in HELPISH:
            v[0] = r.choice(PLAIN + EXPRS)
    opts = []
    for j, p in enumerate(sig["args"]):
        if j >= npos and (j < nreq or r.random() < .5):
            opts.append(p)
    for p in sig["kwonly"]:
        if p not in sig["kwdefaults"] or r.random() < .5:
            opts.append(p)
    if sig["varkw"] and r.random() < .5:
        opts.append(r.choice(["zz", "extra", "x-y", "w"]))
    if opts and r.random() < .25:
        opts.append(r.choice(opts))          # repeated option: the last occurrence wins
    r.shuffle(opts)
    for p in opts:
        n = unique_prefix(r, p, params) if p in params else p
        if r.random() < .3:
            n = n.replace("_", "-")
        v = gen_value(r)
        k = r.random()
        if k < .55:
            items.append(["--%s=%s" % (n, v)])
        elif k < .75:
            items.append(["--" + n, v if not v.startswith("--") else "x"])
        elif k < .9:
            items.append(["-" + n, v if not v.startswith("--") else "x"])
        else:
            items.append(["-%s=%s" % (n, v)])
    # options may be interspersed with positionals; the relative order of positionals is kept
    posi = items[:npos]
    rest = items[npos:]
    out = []
    while posi or rest:
        if posi and (not rest or r.random() < .5):
            out += posi.pop(0)
        else:
            out += rest.pop(0)
    if r.random() < .15 and sig["varargs"]:
        out += ["--"] + [r.choice(VALS) for _ in range(r.randint(0, 2))]
    return out


def gen_parse_case(r, i):
    sig = gen_sig(r)
    kind = r.choice(["function"] * 7 + ["method", "class", "opaque"])
    if r.random() < .55:
        return {"kind": "parse", "i": i, "sig": sig, "ckind": kind, "argv": gen_valid_argv(r, sig),
                "mode": r.choice(MODES + ["string", "auto"]), "stdin": "STDIN"}
    return {"kind": "parse", "i": i, "sig": sig, "ckind": kind, "argv": gen_argv(r, sig),
            "mode": r.choice(MODES + ["string", "auto"]), "stdin": r.choice(["STDIN", "", "1+2", "line1\nline2\n"])}


def gen_bind_case(r, i):
    sig = gen_sig(r)
    params = sig["args"] + sig["kwonly"]
    npos = r.randint(0, len(sig["args"]) + 2)
    pos = ["p%d" % k for k in range(npos)]
    kw = {}
    for _ in range(r.randint(0, 4)):
        n = r.choice(params) if params and r.random() < .75 else r.choice(["zz", "fooba", "f", "extra"])
        kw[n] = "v_" + n
    if r.random() < .7:       # steer towards successful calls
        if not sig["varargs"]:
            pos = pos[:len(sig["args"])]
            npos = len(pos)
        kw = {k: v for k, v in kw.items() if k not in sig["args"][:npos] and (sig["varkw"] or k in params)}
        for p in sig["args"][npos:len(sig["args"]) - sig["ndefaults"]]:
            kw.setdefault(p, "v_" + p)
        for p in sig["kwonly"]:
            if p not in sig["kwdefaults"]:
                kw.setdefault(p, "v_" + p)
    return {"kind": "bind", "i": i, "sig": sig, "pos": pos, "kw": [[k, v] for k, v in kw.items()]}


# ---- size extremes: long flat evaluable arguments (no deep nesting), long non-expressions, many arguments, many options

SIZES_QUICK = [1000, 4000, 4090, 4096, 4097, 5000, 5000, 9000, 16000]


def long_text(r, size, form):
    if form == "list":
        k = max(1, (size - 2) // 2)
        return "[" + ",".join(["0"] * k) + "]"
    if form == "tuple":
        k = max(1, (size - 2) // 3)
        return "(" + "".join("1, " for _ in range(k)).rstrip() + ")"
    if form == "str":
        return "'" + "a" * max(1, size - 2) + "'"
    if form == "sum":
        return "+".join(["1"] * max(2, min(size, 240) // 2))     # nesting depth stays small: deep chains already fail on the agreed tree (RecursionError in the analysis)
    if form == "call":
        return "len([" + "1," * max(1, (size - 7) // 2) + "])"
    return ("a b " * (size // 4 + 1))[:size]        # not an expression: must arrive as the string


def gen_extreme_case(r, i, size=None):
    size = size or r.choice(SIZES_QUICK)
    form = r.choice(["list", "list", "tuple", "str", "sum", "call", "raw"]) if size < 30000 else "str"
    s = long_text(r, size, form)
    sig = {"args": r.choice([["a"], ["a", "b"], []]), "ndefaults": 0, "varargs": True, "kwonly": ["key", "k2"],
           "kwdefaults": ["key", "k2"], "varkw": r.random() < .7}
    sig["ndefaults"] = len(sig["args"])
    small = lambda: r.choice(["1", "abc", "1+2", "'x'", "a b", "None"])
    where = r.choice(["pos", "pos_last", "opt_eq", "opt_next", "opt_prefix", "dash_opt", "after_dd", "stdin", "kw_extra"]) if size < 30000 \
        else r.choice(["pos", "opt_eq"])
    stdin = "STDIN"
    if where == "pos":
        argv = [s] + [small() for _ in range(r.randint(0, 2))]
    elif where == "pos_last":
        argv = [small() for _ in range(r.randint(1, 3))] + [s]
    elif where == "opt_eq":
        argv = [small(), "--key=" + s]
    elif where == "opt_next":
        argv = ["--key", s, small()]
    elif where == "opt_prefix":
        argv = ["--ke=" + s, "--k2", s] if size <= 5000 else ["--ke=" + s]
    elif where == "dash_opt":
        argv = ["-key", s]
    elif where == "after_dd":
        argv = [small(), "--", s, small()]
    elif where == "stdin":
        argv = ["-", small()]
        stdin = s
    else:
        argv = ["--extra=" + s] if sig["varkw"] else ["--key=" + s]
    return {"kind": "parse", "i": i, "big": True, "sig": sig, "ckind": "function", "argv": argv,
            "mode": r.choice(MODES + ["auto", "auto"]), "stdin": stdin}


def gen_many_case(r, i):
    """hundreds of arguments / options"""
    n = r.choice([60, 120, 250, 400])
    sig = {"args": ["a", "b"], "ndefaults": 1, "varargs": True, "kwonly": ["key"], "kwdefaults": ["key"], "varkw": True}
    vals = ["1", "abc", "1+2", "'x'", "a b", "None", "-5", "[1, 2]", "zzzq", ""]
    argv = []
    style = r.choice(["positionals", "options", "mixed", "repeated"])
    for j in range(n):
        k = r.random()
        if style == "positionals" or (style == "mixed" and k < .5):
            v = r.choice(vals)
            argv.append(v if not v.startswith("-") and v else "q")
        elif style == "repeated":
            argv.append("--%s=%s" % (r.choice(["key", "ke", "k", "zz"]), r.choice(vals)))
        else:
            name = "o%d" % r.randint(0, n // 2)
            if r.random() < .7:
                argv.append("--%s=%s" % (name, r.choice(vals)))
            else:
                v = r.choice(vals)
                argv += ["--" + name, v if not v.startswith("--") else "x"]
    if style != "options" and r.random() < .5:
        argv = ["first"] + argv
    return {"kind": "parse", "i": i, "big": True, "sig": sig, "ckind": "function", "argv": argv,
            "mode": r.choice(MODES + ["auto"]), "stdin": "STDIN"}


def gen_big_cases(ctx):
    out = []
    nx, nm = (10, 4) if ctx.quick else (60, 20)
    for j in range(nx * ctx.scale):
        out.append(gen_extreme_case(cm.rng(ctx.seed, "c15big", j), "x%d" % j))
    for j in range((1 if ctx.quick else 4) * ctx.scale):
        out.append(gen_extreme_case(cm.rng(ctx.seed, "c15huge", j), "h%d" % j, size=64000))
    for j in range(nm * ctx.scale):
        out.append(gen_many_case(cm.rng(ctx.seed, "c15many", j), "n%d" % j))
    return out


ARGMODES = ["eval", "evaluate", "exprs", "expr", "expressions", "expression", "e", "strings", "string", "str", "strs",
            "literal", "literals", "s", "auto", "automatic", "a", " Str ", "EVAL", "Auto", "x", "", "stringy", "ev", None]


def gen_cases(ctx, n):
    cases = []
    for i in range(n):
        r = cm.rng(ctx.seed, "c15", i)
        k = i % 10
        if k < 8:
            cases.append(gen_parse_case(r, i))
        elif k < 9:
            cases.append(gen_bind_case(r, i))
        else:
            cases.append({"kind": "argmode", "i": i, "arg": r.choice(ARGMODES), "default": r.choice(MODES)})
    return cases


# bounded-exhaustive enumeration (thorough): all argv of length <= 3 over a small token alphabet
# x a fixed family of signatures x the three modes
ENUM_TOKENS = ["1", "a b", "--foo=1", "--foo", "--fo=2", "--foobar=x", "-f", "--", "-", "--zz=3", "--foo=", "1/0", "?", "--bar"]
ENUM_SIGS = [
    {"args": ["foo", "foobar"], "ndefaults": 1, "varargs": False, "kwonly": [], "kwdefaults": [], "varkw": False},
    {"args": ["foo"], "ndefaults": 0, "varargs": True, "kwonly": ["bar"], "kwdefaults": ["bar"], "varkw": False},
    {"args": ["bar"], "ndefaults": 1, "varargs": False, "kwonly": ["foo", "fo"], "kwdefaults": ["fo"], "varkw": True},
    {"args": [], "ndefaults": 0, "varargs": True, "kwonly": [], "kwdefaults": [], "varkw": True},
    {"args": ["foo", "bar", "baz"], "ndefaults": 2, "varargs": False, "kwonly": [], "kwdefaults": [], "varkw": False},
]


def enum_cases():
    out = []
    i = 0
    for sig in ENUM_SIGS:
        for n in range(0, 4):
            for av in itertools.product(ENUM_TOKENS, repeat=n):
                for mode in MODES:
                    out.append({"kind": "parse", "i": "e%d" % i, "sig": sig, "ckind": "function", "argv": list(av),
                                "mode": mode, "stdin": "STDIN"})
                    i += 1
    return out


# ---------------------------------------------------------------------------------------------
# implementation side (worker process, pyflyby from REPO)

def render_sig(sig, first=None):
    parts = [first] if first else []
    n = len(sig["args"])
    for i, a in enumerate(sig["args"]):
        parts.append(a + ('=("default", %r)' % a if i >= n - sig["ndefaults"] else ""))
    if sig["varargs"]:
        parts.append("*rest")
    elif sig["kwonly"]:
        parts.append("*")
    for k in sig["kwonly"]:
        parts.append(k + ('=("default", %r)' % k if k in sig["kwdefaults"] else ""))
    if sig["varkw"]:
        parts.append("**kws")
    return ", ".join(parts)


def make_callable(sig, ckind):
    """(callable handed to _get_argspec, plain function with the same user-visible signature)"""
    ns = {}
    exec("def plain(%s): return None" % render_sig(sig), ns)
    if ckind == "function":
        return ns["plain"], ns["plain"]
    if ckind == "method":
        exec("class C:\n    def m(%s): return None" % render_sig(sig, "self"), ns)
        return ns["C"]().m, ns["plain"]
    if ckind == "class":
        exec("class D:\n    def __init__(%s): pass" % render_sig(sig, "self"), ns)
        return ns["D"], ns["plain"]
    exec("class E:\n    def __call__(self, *a, **k): return None", ns)
    exec("def anyf(*args, **kwargs): return None", ns)
    return ns["E"](), ns["anyf"]


def canon(v):
    if isinstance(v, str):
        return "str:" + v
    if type(v) is tuple and len(v) == 2 and type(v[0]) is str and v[0] == "default" and type(v[1]) is str:
        return "default:" + v[1]
    return type(v).__name__ + ":" + re.sub(r"0x[0-9a-f]+", "0x?", repr(v))


_ORACLE_CACHE = {}


def oracle_entry(s):
    """What the real environment answers for the string s: [syn, run, payload]
    syn 0 blank / 1 not parsable as an expression / 2 expression;
    run 0 UnimportableNameError / 1 other Exception / 2 value / 3 SystemExit(code)."""
    if s in _ORACLE_CACHE:
        return _ORACLE_CACHE[s]
    from pyflyby._parse import PythonBlock
    from pyflyby._py import FLAGS, _Namespace, UnimportableNameError
    block = PythonBlock(s, flags=FLAGS)
    if not str(block).strip():
        syn = 0
    elif not block.parsable_as_expression:
        syn = 1
    else:
        syn = 2
    ns = _Namespace()
    err, out = sys.stderr, sys.stdout
    sys.stderr = sys.stdout = _Sink()
    try:
        try:
            v = ns.auto_eval(PythonBlock(s, flags=FLAGS))
            run = [2, canon(v)]
        except UnimportableNameError:
            run = [0, ""]
        except SystemExit as e:
            run = [3, str(e.code)]
        except Exception:
            run = [1, ""]
    finally:
        sys.stderr, sys.stdout = err, out
    _ORACLE_CACHE[s] = [syn] + run
    return _ORACLE_CACHE[s]


class _Sink:
    def write(self, s):
        return len(s)

    def flush(self):
        pass


def candidate_strings(argv):
    out = []
    for a in argv:
        out.append(a)
        if a.startswith("-") and "=" in a:
            out.append(a.split("=", 1)[1])
    seen, res = set(), []
    for s in out:
        if s not in seen:
            seen.add(s)
            res.append(s)
    return res


PERR = [("Invalid option name", "invalid"), ("Unknown option name", "unknown"), ("Ambiguous", "ambiguous"),
        ("Missing argument to", "missingarg"), ("missing required argument", "missing"),
        ("missing required keyword argument", "missingkw"), ("Too many positional", "toomany"),
        ("Error parsing value for", "badvalue")]


def classify_parse_error(msg):
    for pre, k in PERR:
        if msg.startswith(pre):
            return k
    if "specified both as positional argument" in msg:
        return "both"
    return "other:" + msg[:60]


def spec_of(argspec):
    return {"args": list(argspec.args), "ndefaults": len(argspec.defaults or ()), "varargs": argspec.varargs is not None,
            "kwonly": list(argspec.kwonlyargs), "kwdefaults": list(argspec.kwonlydefaults or {}),
            "varkw": argspec.varkw is not None}


def run_parser(f, argv, mode, stdin, calls=None):
    import io
    import pyflyby._py as P
    ns = P._Namespace()
    real_eval = ns.auto_eval

    def recording_eval(block, *a, **k):
        try:
            v = real_eval(block, *a, **k)
        except P.UnimportableNameError:
            calls.append([str(block), 0, ""])
            raise
        except SystemExit as e:
            calls.append([str(block), 3, str(e.code)])
            raise
        except Exception:
            calls.append([str(block), 1, ""])
            raise
        calls.append([str(block), 2, canon(v)])
        return v
    if calls is not None:
        ns.auto_eval = recording_eval
    old = sys.stdin, sys.stderr, sys.stdout
    sys.stdin = io.StringIO(stdin)
    sys.stderr = sys.stdout = _Sink()
    try:
        try:
            a, k = P._parse_auto_apply_args(P._get_argspec(f), argv, ns, mode)
            return {"pos": [canon(x) for x in a], "kw": [[n, canon(v)] for n, v in k.items()]}, (a, k)
        except P.ParseError as e:
            return {"err": "parse", "kind": classify_parse_error(str(e))}, None
        except P._ParseInterruptedWantHelp:
            return {"err": "help"}, None
        except P._ParseInterruptedWantSource:
            return {"err": "source"}, None
        except SystemExit as e:
            return {"err": "exit", "code": str(e.code)}, None
    finally:
        sys.stdin, sys.stderr, sys.stdout = old


def py_bind(plain, a, k):
    """inspect.signature(f).bind( *a, **k ): the arguments mapping, canonical, or None on TypeError"""
    import inspect
    sig = inspect.signature(plain)
    try:
        ba = sig.bind(*a, **k)
    except TypeError:
        return None
    named, star, dstar = [], [], []
    for name, p in sig.parameters.items():
        if p.kind == p.VAR_POSITIONAL:
            star = [canon(x) for x in ba.arguments.get(name, ())]
        elif p.kind == p.VAR_KEYWORD:
            dstar = [[n, canon(v)] for n, v in ba.arguments.get(name, {}).items()]
        else:
            named.append([name, canon(ba.arguments[name]) if name in ba.arguments else None])
    return {"named": named, "star": star, "dstar": dstar}


def impl_case(c):
    from . import c15_main as _m
    _m._setup()                      # helper modules (c15eq, c15rec, ...) importable by name
    if c["kind"] == "parse":
        import pyflyby._py as P
        f, plain = make_callable(c["sig"], c["ckind"])
        calls = []
        res, raw = run_parser(f, c["argv"], c["mode"], c["stdin"], calls)
        out = {"res": res, "spec": spec_of(P._get_argspec(f)),
               "table": [[s] + oracle_entry(s) for s in candidate_strings(c["argv"])]}
        # oracle hypothesis: what an evaluation gives on this very run is what the table says
        from pyflyby._parse import PythonBlock
        expected = {str(PythonBlock(row[0], flags=P.FLAGS)): row[2:] for row in out["table"]}
        out["oracle_mismatch"] = [cl for cl in calls if expected.get(cl[0]) != cl[1:]]
        chars = sorted({ch for a in c["argv"] for ch in a if ord(ch) > 127})
        out["xs"] = [ch for ch in chars if ch.isidentifier()]
        out["xc"] = [ch for ch in chars if ("a" + ch).isidentifier()]
        if raw is not None:
            out["pybind"] = py_bind(plain, raw[0], raw[1])
            out["types"] = [type(x).__name__ for x in raw[0]] + [type(x).__name__ for x in raw[1].values()]
        out["indep"] = [[s] + indep_eval(s) for s in candidate_strings(c["argv"])]
        return out
    if c["kind"] == "bind":
        _, plain = make_callable(c["sig"], "function")
        return {"pybind": py_bind(plain, c["pos"], dict(c["kw"]))}
    if c["kind"] == "argmode":
        import pyflyby._py as P
        try:
            return {"mode": P._interpret_arg_mode(c["arg"], default=c["default"])}
        except ValueError:
            return {"mode": None}
    if c["kind"] == "cli":
        return impl_cli(c)
    if c["kind"] == "main":
        from . import c15_main
        return c15_main.impl_main(c)
    raise ValueError(c["kind"])


# ---- bin/py subprocess

CLI_MOD = '''import json, sys
def show(*a, **k):
    sys.stdout.write("RESULT " + json.dumps([[type(x).__name__, x if isinstance(x, str) else repr(x)] for x in a]
                     + [[n, type(v).__name__, v if isinstance(v, str) else repr(v)] for n, v in sorted(k.items())]) + "\\n")
def two(foo, foobar="D", *rest, key="K"):
    show(foo, foobar, *rest, key=key)
'''


def impl_cli(c):
    repo = os.environ["VERIF_REPO"]
    d = tempfile.mkdtemp(prefix="verif-c15-")
    try:
        with open(os.path.join(d, "c15mod.py"), "w") as f:
            f.write(CLI_MOD)
        env = dict(os.environ)
        env["PYTHONPATH"] = "%s/lib/python:%s" % (repo, d)
        env["HOME"] = d
        callee = "print" if c["func"] == "print" else "c15mod." + c["func"]
        cmd = [sys.executable, os.path.join(repo, "bin", "py")] + c["flags"] + [callee] + c["argv"]
        p = subprocess.run(cmd, cwd=d, env=env, input=c.get("stdin", ""), stdout=subprocess.PIPE, stderr=subprocess.PIPE,
                           text=True, timeout=60)
        res = None
        for line in p.stdout.split("\n"):
            if line.startswith("RESULT "):
                res = json.loads(line[7:])
        return {"rc": p.returncode, "result": res, "stderr_tail": p.stderr[-300:], "stdout": p.stdout[-2000:]}
    finally:
        shutil.rmtree(d, ignore_errors=True)


# ---------------------------------------------------------------------------------------------
# independent evaluation (plain CPython, no pyflyby): what "the value of evaluating it as an
# expression" is, and whether that is "impossible"

def indep_eval(s):
    """['raw'] evaluation impossible (blank, not an expression, a name that cannot be resolved);
       ['value', canon] ; ['raises'] the expression was evaluated and raised / exited;
       ['abstain'] outside what this simple evaluator can decide."""
    import ast
    import builtins
    import importlib
    if not s.strip():
        return ["raw"]
    try:
        tree = ast.parse(s.strip() if "\n" not in s.strip() else s, mode="eval")
    except SyntaxError:
        return ["raw"]
    except Exception:
        return ["abstain"]
    names = {n.id for n in ast.walk(tree) if isinstance(n, ast.Name)}
    if any(isinstance(n, (ast.NamedExpr, ast.Lambda, ast.ListComp, ast.SetComp, ast.DictComp, ast.GeneratorExp))
           for n in ast.walk(tree)):
        return ["abstain"]
    g = {"__name__": "__main__", "__builtins__": builtins}
    for n in sorted(names):
        if hasattr(builtins, n):
            continue
        try:
            g[n] = importlib.import_module(n)
        except Exception:
            return ["raw"]
    for node in ast.walk(tree):          # `pkg.sub.attr`: sub-modules are imported like `import pkg.sub` does
        parts, cur = [], node
        while isinstance(cur, ast.Attribute):
            parts.append(cur.attr)
            cur = cur.value
        if parts and isinstance(cur, ast.Name) and cur.id in g:
            dotted = cur.id
            for a in reversed(parts):
                dotted += "." + a
                try:
                    importlib.import_module(dotted)
                except Exception:
                    break
    err, out = sys.stderr, sys.stdout
    sys.stderr = sys.stdout = _Sink()
    try:
        try:
            code = compile(tree, "<indep>", "eval")
            return ["value", canon(eval(code, g, g))]
        except BaseException:
            return ["raises"]
    finally:
        sys.stderr, sys.stdout = err, out


# ---------------------------------------------------------------------------------------------
# model side

def c_spec(sig):
    return "(mkSpec %s %s %s %s %s %s)" % (
        cm.clist([cm.cstr(a) for a in sig["args"]]), cm.cnat(sig["ndefaults"]), cm.cbool(sig["varargs"]),
        cm.clist([cm.cstr(a) for a in sig["kwonly"]]), cm.clist([cm.cstr(a) for a in sig["kwdefaults"]]),
        cm.cbool(sig["varkw"]))


def raw_spec_for_model(c):
    """the signature as inspect.getfullargspec sees the underlying function (before _get_argspec's
    own adjustment, which the model performs)"""
    sig = c["sig"]
    if c["ckind"] in ("method", "class"):
        return dict(sig, args=["self"] + sig["args"])
    return sig


def parse_expr(c, im, fx=True):
    t = cm.clist([cm.cpair(cm.cstr(s), "(%s, %s, %s)" % (cm.cN(a), cm.cN(b), cm.cstr(p))) for s, a, b, p in im["table"]])
    return "run_parse %s %s %s %s %s %s %s %s %s" % (
        cm.cbool(fx), cm.clist([cm.cN(ord(x)) for x in im["xs"]]), cm.clist([cm.cN(ord(x)) for x in im["xc"]]),
        cm.cN({"function": 0, "method": 1, "class": 1, "opaque": 2}[c["ckind"]]), c_spec(raw_spec_for_model(c)),
        cm.cN(MODES.index(c["mode"])), cm.clist([cm.cstr(a) for a in c["argv"]]), cm.cstr(c["stdin"]), t)


def c_val(canon_s):
    if canon_s.startswith("str:"):
        return cm.cpair(cm.cN(0), cm.cstr(canon_s[4:]))
    if canon_s.startswith("default:"):
        return cm.cpair(cm.cN(2), cm.cstr(canon_s[8:]))
    return cm.cpair(cm.cN(1), cm.cstr(canon_s))


def bind_expr(sig, pos, kw):
    return "run_bind %s %s %s" % (c_spec(sig), cm.clist([c_val(p) for p in pos]),
                                  cm.clist([cm.cpair(cm.cstr(k), c_val(v)) for k, v in kw]))


def model_val(v):
    if v is None:
        return None
    if "s" in v:
        return "str:" + v["s"]
    if "d" in v:
        return "default:" + v["d"]
    return v["v"]


def model_res(m):
    if "err" in m:
        return m
    return {"pos": [model_val(v) for v in m["pos"]], "kw": [[k, model_val(v)] for k, v in m["kw"]]}


def model_bound(m):
    if m is None:
        return None
    return {"named": [[k, model_val(v)] for k, v in m["named"]], "star": [model_val(v) for v in m["star"]],
            "dstar": [[k, model_val(v)] for k, v in m["dstar"]]}


def model_exprs(cases, impl):
    exprs, index = [], []
    for ci, (c, im) in enumerate(zip(cases, impl)):
        if "__exc__" in im or "__timeout__" in im:
            continue
        if c["kind"] == "parse":
            exprs.append(parse_expr(c, im, True))
            index.append((ci, "parse"))
            if not c.get("big"):
                exprs.append(parse_expr(c, im, False))
                index.append((ci, "legacy"))
            if "pos" in im["res"]:
                spec = im["spec"]
                exprs.append(bind_expr(spec, im["res"]["pos"], im["res"]["kw"]))
                index.append((ci, "bind"))
        elif c["kind"] == "bind":
            exprs.append(bind_expr(c["sig"], ["str:" + p for p in c["pos"]], [[k, "str:" + v] for k, v in c["kw"]]))
            index.append((ci, "bind"))
        elif c["kind"] == "main":
            from . import c15_main
            exprs.append(c15_main.main_expr(c, im))
            index.append((ci, "main"))
        elif c["kind"] == "argmode":
            a = c["arg"]
            exprs.append("run_arg_mode %s %s" % (cm.copt(None if a is None else a.strip().lower(), cm.cstr),
                                               cm.cN(MODES.index(c["default"]))))
            index.append((ci, "argmode"))
    return exprs, index


# ---------------------------------------------------------------------------------------------
# oracle: the property's own predicates (no model, no pyflyby logic)



def equivalent_call(sig, argv, stdin):
    """The command line read straight from the property text.  None = the property does not say
    (abstain); ('reject', why); ('call', pos, kw) with entries ('raw', s) (must arrive as the exact
    string whatever the mode) or ('arg', s) (subject to the mode)."""
    import keyword
    params = sig["args"] + sig["kwonly"]
    pos, kw, i, used = [], {}, 0, False
    while i < len(argv):
        a = argv[i]
        i += 1
        if a in HELPISH:
            return None
        if a == "--":
            pos += [("raw", x) for x in argv[i:]]
            break
        if a == "-":
            pos.append(("raw", "" if used else stdin))
            used = True
            continue
        if a.startswith("-"):
            body = a[2:] if a.startswith("--") else a[1:]
            name, eq, val = body.partition("=")
            name = name.replace("-", "_")
            if not name.isidentifier() or keyword.iskeyword(name):
                return None
            if not eq:
                if i >= len(argv) or argv[i].startswith("--"):
                    return None
            if name in params:
                target = name
            else:
                cands = [p for p in params if p.startswith(name)]
                if len(cands) == 1:
                    target = cands[0]
                elif len(cands) > 1:
                    return ("reject", "ambiguous prefix --%s" % name)
                else:
                    if name in ("help", "h", "source") and not eq:
                        return None
                    if not sig["varkw"]:
                        return ("reject", "unknown option --%s" % name)
                    target = name
            if not eq:
                val = argv[i]
                i += 1
            kw[target] = ("arg", val)
        else:
            pos.append(("arg", a))
    return ("call", pos, kw)


def acceptable(tok, got, mode, indep):
    """may the canonical delivered value `got` stand for the command-line token tok?"""
    kind, s = tok
    raw = "str:" + s
    if kind == "raw" or mode == "string":
        return got == raw
    ev = indep.get(s, ["abstain"])
    if ev[0] == "abstain":
        return True
    if mode == "auto":
        if ev[0] == "raw":
            return got == raw
        if ev[0] == "value":
            return got == ev[1]
        return False      # 'raises': nothing may be delivered
    if mode == "eval":        # the property is silent on eval mode beyond "the value"
        return ev[0] != "value" or got == ev[1]
    return False


def oracle_parse(c, im):
    """list of (clause, message)"""
    out = []
    sig = im["spec"] if c["ckind"] == "opaque" else c["sig"]
    res = im["res"]
    mode = c["mode"]
    indep = {row[0]: row[1:] for row in im["indep"]}
    ok = "pos" in res
    argv = c["argv"]
    # -- string identity: string mode, and everything after `--` in any mode
    if ok:
        delivered = res["pos"] + [v for _, v in res["kw"]]
        if mode == "string":
            originals = {"str:" + s for s in candidate_strings(argv)} | {"str:" + c["stdin"], "str:"}
            for v in delivered:
                if not v.startswith("default:") and v not in originals:
                    out.append(("string_mode_identity", "delivered %r is not one of the original argument strings" % v))
        if "--" in argv:
            k = argv.index("--")
            tail = ["str:" + s for s in argv[k + 1:]]
            if tail and not any(res["pos"][j:j + len(tail)] == tail for j in range(len(res["pos"]) - len(tail) + 1)):
                out.append(("string_mode_identity", "arguments after `--` did not arrive verbatim and in order: %r in %r" % (tail, res["pos"])))
    # -- auto mode: each delivered value is the value or the string
    if ok and mode == "auto":
        allowed = set()
        abst = False
        for s in candidate_strings(argv):
            allowed.add("str:" + s)
            ev = indep.get(s, ["abstain"])
            if ev[0] == "value":
                allowed.add(ev[1])
            if ev[0] == "abstain":
                abst = True
        allowed |= {"str:" + c["stdin"], "str:"}
        if not abst:
            for v in delivered:
                if not v.startswith("default:") and v not in allowed:
                    out.append(("auto_is_eval_or_raw", "delivered %r is neither an original string nor its value" % v))
    # -- the equivalent keyword call
    eqc = equivalent_call(sig, argv, c["stdin"])
    if eqc is None:
        return out
    if eqc[0] == "reject":
        if ok:
            out.append(("rejects", "%s was not rejected: delivered %r" % (eqc[1], res)))
        elif res["err"] != "parse":
            out.append(("rejects", "%s ended as %r instead of a parse error" % (eqc[1], res)))
        return out
    _, pos, kw = eqc
    exp = py_bind_tokens(sig, pos, kw)
    evals = [indep.get(s, ["abstain"])[0] for k_, s in pos + list(kw.values()) if k_ == "arg"]
    if exp is None:
        if ok:
            out.append(("rejects", "Python rejects the equivalent call f(*%r, **%r) but py delivered %r" % (pos, kw, res)))
        return out
    # Python accepts the equivalent call
    if not ok:
        if res["err"] in ("help", "source"):
            out.append(("refines_bind", "help requested by nothing on the command line: %r" % (res,)))
        elif res["err"] == "exit":
            if mode == "string" or not any(e in ("raises", "abstain") or (mode == "eval" and e == "raw") for e in evals):
                out.append(("auto_is_eval_or_raw", "command terminated (%r) although no argument raises" % (res,)))
        elif res.get("kind") == "badvalue":
            if mode != "eval" or not any(e in ("raw", "raises", "abstain") for e in evals):
                out.append(("refines_bind", "value error %r although every argument evaluates" % (res,)))
        else:
            out.append(("refines_bind", "Python accepts the equivalent call f(*%r, **%r) but py rejects it: %r" % (pos, kw, res)))
        return out
    got = im.get("pybind")
    if got is None:
        out.append(("refines_bind", "py delivered %r, which Python cannot bind to the signature" % (res,)))
        return out
    # compare parameter by parameter
    for (name, tok), (name2, val) in zip(exp["named"], got["named"]):
        if tok is None:
            if val is not None and val != "default:" + name:
                out.append(("refines_bind", "parameter %s was not supplied but received %r" % (name, val)))
        elif val is None or not acceptable(tok, val, mode, indep):
            out.append(("refines_bind", "parameter %s should receive %r, received %r" % (name, tok, val)))
    if len(exp["star"]) != len(got["star"]) or not all(acceptable(t, v, mode, indep) for t, v in zip(exp["star"], got["star"])):
        out.append(("refines_bind", "*args should be %r, is %r" % (exp["star"], got["star"])))
    gd = dict(got["dstar"])
    ed = dict(exp["dstar"])
    if set(gd) != set(ed) or not all(acceptable(ed[k], gd[k], mode, indep) for k in ed):
        out.append(("refines_bind", "**kwargs should be %r, is %r" % (exp["dstar"], got["dstar"])))
    return out


class _Tok(tuple):
    pass


def py_bind_tokens(sig, pos, kw):
    import inspect
    _, plain = make_callable(sig, "function")
    s = inspect.signature(plain)
    try:
        ba = s.bind(*[_Tok(p) for p in pos], **{k: _Tok(v) for k, v in kw.items()})
    except TypeError:
        return None
    named, star, dstar = [], [], []
    for name, p in s.parameters.items():
        if p.kind == p.VAR_POSITIONAL:
            star = [tuple(x) for x in ba.arguments.get(name, ())]
        elif p.kind == p.VAR_KEYWORD:
            dstar = [[n, tuple(v)] for n, v in ba.arguments.get(name, {}).items()]
        else:
            named.append([name, tuple(ba.arguments[name]) if name in ba.arguments else None])
    return {"named": named, "star": star, "dstar": dstar}


# ---------------------------------------------------------------------------------------------
# CLI sample

def gen_cli_cases(ctx, n):
    out = []
    for i in range(n):
        r = cm.rng(ctx.seed, "c15cli", i)
        flags = r.choice([["--safe"], ["--args=string"], ["--args", "string"], ["--safe", "--apply"], ["--args=auto"]])
        func = r.choice(["show", "show", "two", "print"])
        vals = [v for v in PLAIN + EXPRS + ["(1+2)", "[1,2]", "(3)", "(1+2)", "o'q", "$HOME", "a;b", "*.py", "a|b", "/usr/bin", "a\\b", "\u00e9", "fq_=1"]
                if v.strip() and not v.startswith("-") and v not in ("?", "??", "sys.exit(3)", "print(end='')")]
        argv = [r.choice(vals) for _ in range(r.randint(1, 3))]
        if r.random() < .5:
            argv.append("--key=%s" % r.choice(vals))
        if r.random() < .4:
            argv += ["--"] + [r.choice(vals + ["--key=1", "-x", "--"]) for _ in range(r.randint(1, 2))]
        out.append({"kind": "cli", "i": "cli%d" % i, "flags": flags, "func": func, "argv": argv})
    return out


def oracle_cli(c, im):
    """string modes: the function must receive exactly the strings of the command line"""
    if c["flags"] == ["--args=auto"]:
        return None
    argv = c["argv"]
    pos, kw, i = [], {}, 0
    while i < len(argv):
        a = argv[i]
        i += 1
        if a == "--":
            pos += argv[i:]
            break
        if a.startswith("--key="):
            kw["key"] = a[6:]
        else:
            pos.append(a)
    if c["func"] == "print":
        if kw:
            return None
        if im["rc"] != 0 or im["stdout"] != " ".join(pos) + "\n":
            return "bin/py %s print %r: expected the strings printed verbatim, got rc=%s %r %s" % (
                " ".join(c["flags"]), argv, im["rc"], im["stdout"], im["stderr_tail"][-120:])
        return None
    if c["func"] == "two":
        if len(pos) < 1:
            return None
        full = [pos[0], pos[1] if len(pos) > 1 else "D"] + pos[2:]
        exp = [["str", x] for x in full] + [["key", "str", kw.get("key", "K")]]
    else:
        exp = [["str", x] for x in pos] + [[k, "str", v] for k, v in sorted(kw.items())]
    if im["rc"] != 0 or im["result"] != exp:
        return "bin/py %s c15mod.%s %r: expected the function to receive %r, got rc=%s %r %s" % (
            " ".join(c["flags"]), c["func"], argv, exp, im["rc"], im["result"], im["stderr_tail"][-120:])
    return None


# ---------------------------------------------------------------------------------------------

def is_f13_shape(c):
    """classifier used only to label the distribution: the F13 inputs"""
    sig = c["sig"]
    params = sig["args"] + sig["kwonly"]
    for a in c["argv"]:
        if a.startswith("-") and a not in ("-", "--"):
            body = a[2:] if a.startswith("--") else a[1:]
            name, eq, val = body.partition("=")
            name = name.replace("-", "_")
            if (name in params and any(p != name and p.startswith(name) for p in params)) or (eq and not val):
                return True
    return False


def compare(ctx, cases, impl, index, model):
    per = {}
    for (ci, tag), mv in zip(index, model):
        per.setdefault(ci, {})[tag] = mv
    for ci, (c, im) in enumerate(zip(cases, impl)):
        if "__exc__" in im or "__timeout__" in im:
            ctx.bump("impl_exception:" + im.get("__exc__", "timeout"))
            ctx.count(c, False)
            ctx.violation("no_internal_error", c, im)
            continue
        m = per.get(ci, {})
        if c["kind"] == "parse":
            mres = model_res(m["parse"])
            ires = im["res"]
            ctx.bump("mode:" + c["mode"])
            if c.get("big"):
                ctx.bump("size_extreme:argv=%d,longest=%s" % (10 ** len(str(len(c["argv"]))) // 10,
                                                               10 ** len(str(max([len(a) for a in c["argv"]] + [len(c["stdin"])]))) // 10))
            ctx.bump("callable:" + c["ckind"])
            ctx.bump("result:" + (ires.get("err", "ok") + (":" + ires["kind"] if "kind" in ires else "")))
            if is_f13_shape(c):
                ctx.bump("f13_shaped_input")
            if im.get("oracle_mismatch"):
                ctx.bump("oracle_hypothesis_failed")
                ctx.disagreement("oracle hypothesis: an evaluation during the run differs from the fresh-namespace table",
                                 c, im["oracle_mismatch"], None)
            if mres != ires:
                lres = model_res(m["legacy"]) if "legacy" in m else None
                name = "_parse_auto_apply_args"
                if lres == ires:
                    name += " (the tree behaves like the code before the F13 repair)"
                ctx.disagreement(name, c, ires, mres)
            if "bind" in m:
                mb = model_bound(m["bind"])
                if mb != im["pybind"]:
                    ctx.disagreement("BindSpec.bind vs inspect.signature.bind", c, im["pybind"], mb)
            for clause, msg in oracle_parse(c, im):
                ctx.violation(clause, c, msg if len(msg) < 700 else msg[:500] + " ... " + msg[-150:])
            nontriv = any(a.startswith("-") for a in c["argv"]) or len(c["argv"]) > 1
            ctx.count(c, nontriv)
            if nontriv and "pos" in ires:
                ctx.sample({"case": c, "impl": ires})
        elif c["kind"] == "bind":
            mb = model_bound(m["bind"])
            if mb != im["pybind"]:
                ctx.disagreement("BindSpec.bind vs inspect.signature.bind", c, im["pybind"], mb)
            ctx.bump("bind:" + ("ok" if im["pybind"] else "TypeError"))
            ctx.count(c, True)
        elif c["kind"] == "main":
            from . import c15_main
            mv = c15_main.model_view(m["main"])
            cls = im["cls"]
            ctx.bump("main:" + cls["kind"])
            rg = c15_main.read_globals(im["obs"]["argv"])
            ctx.bump("main_mode:" + str(rg[0] if rg else "?"))
            if not c15_main.same(mv, cls):
                ctx.disagreement("_PyMain.run (front end)", c, cls, mv)
            for clause, msg in c15_main.oracle_main(c, im) + c15_main.oracle_main_auto(c, im):
                ctx.violation(clause, c, msg)
            ctx.count(c, len(c["argv"]) > 1)
        elif c["kind"] == "argmode":
            if m["argmode"] != im["mode"]:
                ctx.disagreement("_interpret_arg_mode", c, im["mode"], m["argmode"])
            ctx.bump("argmode")
            ctx.count(c, False)


def run(ctx):
    cm.check_anchors(ctx, ANCHORS)
    n = (2400 if ctx.quick else 50000) * ctx.scale
    n = int(os.environ.get("VERIF_C15_N", n))
    ctx.coverage["rule"] = (
        "cases from one seeded PRNG: 80% _parse_auto_apply_args(_get_argspec(f), argv, ns, mode) on generated signatures "
        "(positional, defaults, *args, keyword-only, **kwargs, forced shared prefixes, non-ASCII names; plain function, bound "
        "method, class, opaque callable) x command lines (--k=v, --k v, -k v, -k=v, --k=, --, -, help forms, expression-like "
        "and shell-like strings) x string/eval/auto; 10% direct BindSpec.bind vs inspect.signature.bind; 10% _interpret_arg_mode; "
        "700 _PyMain(argv).run() front-end cases in-process (all action forms x explicit / no arg mode, recording callees) against "
        "PyArgs/Main.v; plus bin/py subprocess runs; thorough (50 000 generated) adds all argv of length <= 3 over a 14-token alphabet x 5 signatures x 3 modes (about 44 000 cases). "
        "non-trivial = an option or more than one argument; distinct by hash of the case")
    ctx.assumptions += [
        "expression evaluation is an oracle argument: for every string of the command line, `str(block).strip()`, "
        "`parsable_as_expression` and the outcome of _Namespace.auto_eval (value / UnimportableNameError / other exception / "
        "SystemExit) are taken from the real code in a fresh namespace on the run; evaluation is assumed not to depend on "
        "the arguments evaluated before it (the generator has no expression that binds a name another one reads); every "
        "_Namespace.auto_eval call made during the parse is recorded and compared with that table (a difference is "
        "reported as a disagreement)",
        "str.isidentifier on non-ASCII characters is an oracle argument (ASCII and the keyword list are in the model)",
        "sys.stdin.read() returns the rest of standard input once and '' afterwards",
        "BindSpec.bind is Python's call-binding rule: compared with inspect.signature(f).bind on every delivered call and "
        "on generated calls (including failing ones)",
    ]
    ctx.assumptions += [
        "front end: whether the first argument seems like a file name / is a runnable module / parses, whether the joined text parses "
        "and auto-imports, what the function expression evaluates to (callable with which signature) are oracle arguments taken from "
        "the real functions on the run; the non-argument machinery (_enable_debug_tools, IPython, help text, debugger) is stubbed",
    ]
    ctx.notes["trusted_base"] = ["inspect.signature(f).bind (CPython) as the reference for call binding",
                                 "plain CPython eval/ast.parse as the independent meaning of 'the value of evaluating it as an expression'"]
    from . import c15_main
    cases = cm.load_corpus("C15") + gen_cases(ctx, n)
    nmain = (700 if ctx.quick else 20000) * ctx.scale
    cases += [c15_main.gen_main_case(cm.rng(ctx.seed, "c15main", i), "m%d" % i) for i in range(nmain)]
    if not ctx.quick:
        cases += enum_cases()
    impl = cm.run_impl("c15", "impl_case", cases)
    exprs, index = model_exprs(cases, impl)
    model = cm.coq_eval_json(REQ, exprs, shard=300)
    compare(ctx, cases, impl, index, model)
    # size extremes: their own small shards (a 64k-character argument costs the kernel tens of seconds)
    big = gen_big_cases(ctx)
    bimpl = cm.run_impl("c15", "impl_case", big, timeout_case=120)
    bexprs, bindex = model_exprs(big, bimpl)
    order = sorted(range(len(bexprs)), key=lambda k: -len(bexprs[k]))
    bmodel_sorted = cm.coq_eval_json(REQ, [bexprs[k] for k in order], shard=2, timeout=1500)
    bmodel = [None] * len(bexprs)
    for k, mv in zip(order, bmodel_sorted):
        bmodel[k] = mv
    compare(ctx, big, bimpl, bindex, bmodel)
    ctx.notes["model_evaluations_in_kernel"] = len(exprs) + len(bexprs)
    # bin/py subprocess sample
    cli = gen_cli_cases(ctx, (24 if ctx.quick else 400) * ctx.scale)
    cres = cm.run_impl("c15", "impl_case", cli, timeout_case=90)
    for c, im in zip(cli, cres):
        ctx.count(c, True)
        ctx.bump("cli:" + " ".join(c["flags"]))
        if "__exc__" in im or "__timeout__" in im:
            ctx.violation("no_internal_error", c, im)
            continue
        msg = oracle_cli(c, im)
        if msg:
            ctx.violation("string_mode_identity", c, msg)


def replay(payload):
    case = payload.get("case") or payload["disagreements"][0]["case"]
    impl = cm.run_impl("c15", "impl_case", [case], jobs=1, timeout_case=90)
    out = {"case": case, "impl": impl[0]}
    if case["kind"] == "cli":
        out["oracle"] = oracle_cli(case, impl[0])
    else:
        exprs, index = model_exprs([case], impl)
        model = cm.coq_eval_json(REQ, exprs)
        out["model"] = {tag: (model_res(m) if tag in ("parse", "legacy") else m) for (_, tag), m in zip(index, model)}
        if case["kind"] == "parse" and "res" in impl[0]:
            out["oracle"] = oracle_parse(case, impl[0])
        if case["kind"] == "main" and "obs" in impl[0]:
            from . import c15_main
            out["model"] = {"main": c15_main.model_view(model[0])}
            out["oracle"] = c15_main.oracle_main(case, impl[0]) + c15_main.oracle_main_auto(case, impl[0])
    print(json.dumps(out, indent=1, ensure_ascii=False))
    return 0

"""The import database as the PROPERTY TEXTS describe it (C04: candidates per name; C12: which files the search path
reaches, what __forget_imports__ removes), computed from the database text / directory tree with stdlib ast and
plain path arithmetic - nothing of pyflyby is used here.  harness/c04.py judges the tool's output against it."""
import ast
import os


# ---------------------------------------------------------------------------------------------
# database text -> candidates per local name, after __forget_imports__

def _imports_of(tree_body):
    """[(local name, fullname, module or None)] of import statements; module None = no from-clause."""
    out = []
    for st in tree_body:
        if isinstance(st, ast.Import):
            for a in st.names:
                if a.asname and "." in a.name:            # import x.y as z  ==  from x import y as z
                    out.append((a.asname, a.name, a.name.rsplit(".", 1)[0]))
                else:
                    out.append((a.asname or a.name, a.name, None))
        elif isinstance(st, ast.ImportFrom):
            mod = "." * st.level + (st.module or "")
            for a in st.names:
                out.append((a.asname or a.name, mod + "." + a.name, mod))
    return out


def _entry_imports(s):
    """a __forget_imports__ / __mandatory_imports__ entry: an import statement, or a dotted name `a.b` (= from a import b)"""
    s = s.strip()
    if "import" in s.split():
        return _imports_of(ast.parse(s).body)
    if "." in s:
        mod, mem = s.rsplit(".", 1)
        return [(mem, s, mod)]
    return [(s, s, None)]


def parse_db(text):
    known, forget, mandatory = [], [], []
    body = ast.parse(text).body
    known += _imports_of(body)
    for st in body:
        if isinstance(st, ast.Assign) and isinstance(st.targets[0], ast.Name):
            nm = st.targets[0].id
            if nm in ("__forget_imports__", "__mandatory_imports__"):
                for s in ast.literal_eval(st.value):
                    (forget if nm == "__forget_imports__" else mandatory).extend(_entry_imports(s))
    return known, forget, mandatory


def _dotted_prefix(p, m):
    return m == p or m.startswith(p + ".")


def effective(text):
    """(index: local name -> sorted set of fullnames after forgetting, set of mandatory root names)"""
    known, forget, mandatory = parse_db(text)
    exact = {(loc, full) for loc, full, mod in forget if loc != "*"}
    stars = [mod for loc, full, mod in forget if loc == "*" and mod]
    idx = {}
    for loc, full, mod in known:
        if (loc, full) in exact:
            continue
        if mod and any(_dotted_prefix(s, mod) for s in stars):          # dotted components, not string prefix
            continue
        idx.setdefault(loc, set()).add(full)
    mand = {loc.split(".")[0] for loc, full, mod in mandatory
            if (loc, full) not in exact and not (mod and any(_dotted_prefix(s, mod) for s in stars))}
    return {k: sorted(v) for k, v in idx.items()}, mand


def raw_names(text):
    return sorted({loc for loc, full, mod in parse_db(text)[0] if "." not in loc})


# ---------------------------------------------------------------------------------------------
# database directory trees: which files does the search path reach  (C12: explicit entries; directories searched
# recursively for *.py, hidden entries skipped; symbolic links to files and to directories are followed)

def reached_files(tree, entries):
    """tree: list of {"p": relpath, "text": ...} (file) / {"p": relpath, "link": relpath} (symlink);
    entries: PYFLYBY_PATH entries (relpaths).  -> relpaths (as named through the search path) of the files read."""
    files = {e["p"]: e["text"] for e in tree if "text" in e}
    links = {e["p"]: e["link"] for e in tree if "link" in e}
    dirs = set()
    for p in list(files) + list(links):
        d = os.path.dirname(p)
        while d:
            dirs.add(d)
            d = os.path.dirname(d)

    def resolve(p):                                   # follow links, also in leading components
        for _ in range(8):
            hit = None
            for l, t in links.items():
                if p == l or p.startswith(l + "/"):
                    hit = t + p[len(l):]
                    break
            if hit is None:
                return p
            p = hit
        return p

    def children(d):
        real = resolve(d)
        names = set()
        for p in list(files) + list(links) + list(dirs):
            if os.path.dirname(p) == real:
                names.add(os.path.basename(p))
        return sorted(names)

    out = []

    def walk(d):
        for nm in children(d):
            if nm.startswith(".") or nm == "__pycache__":
                continue
            p = d + "/" + nm
            real = resolve(p)
            if real in files:
                if nm.endswith(".py"):
                    out.append(p)
            elif real in dirs:
                walk(p)

    for e in entries:
        real = resolve(e)
        if real in files:
            out.append(e)                              # an explicit file is always read
        elif real in dirs:
            walk(e)
    return out, {p: files[resolve(p)] for p in out}


def reached_text(tree, entries):
    order, texts = reached_files(tree, entries)
    return "".join(t if t.endswith("\n") else t + "\n" for t in (texts[p] for p in order))


def materialise(root, tree):
    for e in tree:
        path = os.path.join(root, e["p"])
        os.makedirs(os.path.dirname(path), exist_ok=True)
        if "text" in e:
            with open(path, "w") as f:
                f.write(e["text"])
    for e in tree:
        if "link" in e:
            path = os.path.join(root, e["p"])
            os.makedirs(os.path.dirname(path), exist_ok=True)
            os.symlink(os.path.join(root, e["link"]), path)


DECOY = "from decoy import np, b, c, d, e, f, osx\nimport zz\nimport g\n"      # would change every candidate set if read


def gen_tree(r, dbtext):
    """Spread the statements of dbtext over a database directory with nested directories, a symlinked directory, a
    symlinked file, an explicit extra file; hidden files / directories and non-.py files carry decoys."""
    lines = [l for l in dbtext.split("\n") if l.strip()]
    slots = ["db/known.py", "db/sub/more.py", "db/sub/deep/x.py", "ext/dir/e1.py", "ext/dir/in/e2.py", "ext/f.py", "extra/explicit.py"]
    use_extra = r.random() < .5
    if not use_extra:
        slots.remove("extra/explicit.py")
    buckets = {s: [] for s in slots}
    for l in lines:
        buckets[r.choice(slots)].append(l)
    tree = [{"p": s, "text": "".join(x + "\n" for x in ls)} for s, ls in buckets.items()]
    tree += [{"p": "db/linkdir", "link": "ext/dir"}, {"p": "db/sub/linkfile.py", "link": "ext/f.py"},
             {"p": "db/.hidden.py", "text": DECOY}, {"p": "db/.hid/h.py", "text": DECOY}, {"p": "db/notes.txt", "text": DECOY},
             {"p": "db/sub/.x.py", "text": DECOY}, {"p": "ext/dir/.secret.py", "text": DECOY}]
    entries = ["db"] + (["extra/explicit.py"] if use_extra else [])
    return tree, entries

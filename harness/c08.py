"""C08 - in-place file replacement is all-or-nothing.

Correspondence: the real pyflyby._file.write_file / atomic_write_file (called directly, through
bin/tidy-imports --replace in-process, and as an unpatched subprocess under strace) against
Sys/AtomicWrite.v: call sequence, outcome of every call, and the (target, temp) snapshot after every
call; crash emulation (os._exit before call k), fault emulation (OSError at call k, natural EPERM of
an unprivileged chown, strace-injected syscall errors), two real processes stepped through
harness-controlled schedules.  Oracle: bytes/mode of the target read back after every step."""
import errno
import itertools
import json
import os
import re
import select
import shutil
import stat
import subprocess
import sys
import tempfile

from . import common as cm

REQ = ["Sys.AtomicWrite", "Sys.Wire"]
CALLS = ["open", "write", "close", "stat", "chmod", "chown", "rename"]
ANCHORS = ["pyflyby._file:write_file", "pyflyby._file:atomic_write_file", "pyflyby._cmdline:action_replace"]


def model_instrs():
    """names of the model's instruction list, in the order of the modelled variant"""
    meta = ["chown", "chmod"] if variant_term() == "Fixed2" else ["chmod", "chown"]
    return ["open", "write", "write2", "close", "stat"] + meta + ["rename"]
S_IFREG = 0o100000
P = 1000000007


def chk(b):
    """position-weighted byte sum (same definition as Sys/Wire.v chk)"""
    return sum((i + 1) * (x + 1) for i, x in enumerate(b))


def make_data(spec):
    return (spec["pat"] * spec["reps"] + spec["tail"])


# ---------------------------------------------------------------------------------------------
# generators

PATS = ["x", "ab\n", "import os\n", "é=1\n", "0123456789abcdef" * 4 + "\n", "中文 # c\n"]
MODES = [0o600, 0o644, 0o755, 0o400, 0o640, 0o666, 0o777, 0o444, 0o660, 0o700, 0o1644, 0o000, 0o1777, 0o4755, 0o2755, 0o2644, 0o6755]
PERM = 0o1777          # the permission bits (+ sticky); set-uid/set-gid: known finding F11b
FAULT_ERRNOS = ["EIO", "EACCES", "ENOSPC", "EPERM", "EROFS"]


def gen_data(r, big=False):
    k = r.random()
    if k < .08:
        return {"pat": "", "reps": 0, "tail": ""}
    if k < .55 and not big:
        return {"pat": r.choice(PATS), "reps": r.randint(0, 40), "tail": r.choice(["", "z", "\n", "é"])}
    if k < .8:
        # around the io layer's 8192-byte buffer
        pat = r.choice(PATS)
        n = len(pat.encode())
        target = r.choice([8191, 8192, 8193, 16384, 9000, 20000, 8192 * 3 + 1])
        return {"pat": pat, "reps": max(0, (target + r.randint(-2, 2)) // n), "tail": "q" * r.randint(0, 3)}
    pat = r.choice(PATS)
    return {"pat": pat, "reps": r.randint(1000, 70000 if big else 30000) // len(pat.encode()), "tail": ""}


def gen_single(r, i, thorough):
    exists = r.random() < .8
    c = {"kind": "single", "i": i, "exists": exists,
         "old": r.choice(["old\n" * 3, "", "import os, sys\nos\n", "x" * 9000]),
         "mode": r.choice(MODES[:13] + MODES[:13] + MODES), "umask": r.choice([0o022, 0o022, 0o077, 0o002, 0o027, 0]),
         "gid": r.choice([None, None, 12345, 1]),
         "data": gen_data(r), "stale": None, "unpriv": False, "entry": "direct",
         "target_kind": r.choice(["regular"] * 5 + ["hardlink", "hardlink", "symlink"]), "name": gen_name(r),
         "inject": {"kind": "none"}}
    if r.random() < .12:
        c["stale"] = {"content": r.choice(["STALE", "", "s" * 10000]), "mode": r.choice([0o600, 0o644, 0o664])}
    k = r.random()
    if k < .3:
        c["inject"] = {"kind": "fault", "at": r.choice(CALLS), "errno": r.choice(FAULT_ERRNOS),
                       "flavour": r.choice(["flush", "close"])}
    elif k < .36:
        c["inject"] = {"kind": "fault", "at": "stat", "errno": "ENOENT", "flavour": "flush"}
    elif k < .6:
        c["inject"] = {"kind": "crash", "at": r.choice(CALLS)}
    elif k < .68:
        c["inject"] = {"kind": "rlimit", "k": r.choice(["zero", "below", "below", "at", "above"])}
    elif k < .71:
        c["inject"] = {"kind": "shortwrite"}
    if r.random() < .12:
        # a natural fault: unprivileged process, original owned by a group it is not a member of
        c["unpriv"] = True
        c["gid"] = 0
        c["mode"] = r.choice([0o600, 0o644, 0o755, 0o640, 0o664])
        if c["stale"]:
            c["stale"]["mode"] = 0o644
    if r.random() < .1:
        c["entry"] = "tidy"
        c["old"] = "import os, sys\nos\n" + r.choice(["", "# c\n" * 3000])
        c["exists"] = True
        c["stale"] = None
        c["unpriv"] = False
        c["gid"] = None if c["gid"] == 0 else c["gid"]
        if c["target_kind"] == "symlink":
            c["target_kind"] = "hardlink"
        if c["inject"]["kind"] == "rlimit":
            c["inject"] = {"kind": "none"}
    if c["inject"]["kind"] == "rlimit" and c["unpriv"]:
        c["unpriv"] = False
    if r.random() < .25:
        hs = [{"file": "other", "interrupted": False}, {"file": "other", "interrupted": True}]
        if c["exists"] and c["target_kind"] == "regular" and not c["unpriv"]:
            hs.append({"file": "same", "interrupted": False})
        c["history"] = [dict(r.choice(hs)) for _ in range(r.randint(1, 3))]
    return c


def gen_two(r, i, sched=None, small=False):
    d1, d2 = gen_data(r), gen_data(r)
    if small:
        d1 = {"pat": r.choice(PATS), "reps": r.randint(0, 6), "tail": "1"}
        d2 = {"pat": r.choice(PATS), "reps": r.randint(0, 6), "tail": "2"}
    if make_data(d1) == make_data(d2):
        d2 = {"pat": "other\n", "reps": 2, "tail": ""}
    c = {"kind": "two", "i": i, "exists": r.random() < .85, "old": r.choice(["old\n" * 3, "", "x" * 9000]),
         "mode": r.choice(MODES[:13] + MODES[:13] + MODES), "umask": r.choice([0o022, 0o077, 0o002]), "gid": r.choice([None, 12345]),
         "d1": d1, "d2": d2, "target_kind": r.choice(["regular"] * 4 + ["hardlink", "symlink"]), "name": gen_name(r),
         "sched": sched if sched is not None else [r.random() < .5 for _ in range(14)],
         "inject1": {"kind": "none"}, "inject2": {"kind": "none"}}
    if r.random() < .5:
        # the forking process has already replaced files itself (zero, one, several; same or another file; interrupted)
        hs = [{"file": "other", "interrupted": False}, {"file": "other", "interrupted": True}]
        if c["exists"] and c["target_kind"] == "regular":
            hs += [{"file": "same", "interrupted": False}, {"file": "same", "interrupted": True}]
        c["history"] = [dict(r.choice(hs)) for _ in range(r.randint(1, 3))]
    if sched is None and r.random() < .25:
        c[r.choice(["inject1", "inject2"])] = {"kind": "fault", "at": r.choice(CALLS), "errno": r.choice(FAULT_ERRNOS),
                                               "flavour": r.choice(["flush", "close"])}
    return c


def all_schedules():
    for ones in itertools.combinations(range(14), 7):
        s = [False] * 14
        for k in ones:
            s[k] = True
        yield s


# ---------------------------------------------------------------------------------------------
# implementation side (worker process, pyflyby from REPO)

_REAL_WRITE = os.write


class Gates(object):
    """Wraps os.stat/chmod/chown/rename and the temp file's open/write/close as seen from
    pyflyby._file; logs every call with its outcome and a snapshot taken right after it."""

    def __init__(self, report_fd, ctrl_fd, inject, paths, contents):
        self.report_fd, self.ctrl_fd, self.inject = report_fd, ctrl_fd, inject
        self.paths, self.contents = paths, contents       # name -> path, name -> bytes
        self.armed = False
        self.done_fault = False
        self.orig = {}

    # -- observation helpers (always through the unwrapped functions)
    def canon(self, p):
        p = str(p)
        for k, v in self.paths.items():
            if p == v:
                return k
        return "other:" + os.path.basename(p)

    def snap1(self, path):
        return snap_path(path, self.contents, self.orig["open"], self.orig["stat"])

    def snap(self):
        return {k: self.snap1(v) for k, v in self.paths.items() if k in ("target", "tmp", "tmp1", "tmp2", "calib", "alias")}

    def emit(self, obj):
        _REAL_WRITE(self.report_fd, (json.dumps(obj) + "\n").encode())

    # -- the gate
    def call(self, name, arg, paths, thunk, on_fault=None):
        if not self.armed:
            return thunk()
        inj = self.inject
        if self.ctrl_fd is not None:
            os.read(self.ctrl_fd, 1)                       # wait for the scheduler
        if inj["kind"] == "crash" and inj["at"] == name and not self.done_fault:
            os._exit(7)
        try:
            if inj["kind"] == "fault" and inj["at"] == name and not self.done_fault:
                self.done_fault = True
                if on_fault:
                    on_fault(inj.get("flavour"))
                e = getattr(errno, inj["errno"])
                raise OSError(e, os.strerror(e))
            r = thunk()
        except OSError as e:
            self.emit({"ev": [name, arg, False], "paths": paths, "exc": type(e).__name__, "snap": self.snap()})
            raise
        self.emit({"ev": [name, arg, True], "paths": paths, "snap": self.snap()})
        return r

    def install(self):
        import builtins
        import pyflyby._file as F
        g = self
        self.orig = {n: getattr(os, n) for n in ("stat", "chmod", "chown", "rename")}
        self.orig["open"] = builtins.open
        o = self.orig

        def w_stat(p, *a, **kw):
            return g.call("stat", 0, [g.canon(p)], lambda: o["stat"](p, *a, **kw))

        def w_chmod(p, m, *a, **kw):
            return g.call("chmod", m, [g.canon(p)], lambda: o["chmod"](p, m, *a, **kw))

        def w_chown(p, u, gid, *a, **kw):
            return g.call("chown", gid, [g.canon(p), u], lambda: o["chown"](p, u, gid, *a, **kw))

        def w_rename(a, b, *x, **kw):
            return g.call("rename", 0, [g.canon(a), g.canon(b)], lambda: o["rename"](a, b, *x, **kw))

        class FW(object):
            def __init__(s, f, p):
                s.f, s.p = f, p

            def write(s, d):
                return g.call("write", 0, [g.canon(s.p)], lambda: s.f.write(d))

            def __enter__(s):
                return s

            def __exit__(s, *a):
                def on_fault(flavour):
                    if flavour == "close":
                        s.f.flush()                       # the data got out, close(2) itself fails
                    s.f.buffer.raw.close()                # whatever is still buffered is lost
                g.call("close", 0, [g.canon(s.p)], s.f.close, on_fault)
                return False

        def w_open(path, mode="r", *a, **kw):
            if g.armed and "w" in mode:
                return g.call("open", 0, [g.canon(path), mode, list(a), sorted(kw)],
                              lambda: FW(o["open"](path, mode, *a, **kw), path))
            return o["open"](path, mode, *a, **kw)
        def w_write(fd, data):
            # a caller that uses os.write directly gets a short count once (disk full / quota part-way)
            if g.armed and g.inject["kind"] == "shortwrite" and not g.done_fault and len(data) > 1:
                g.done_fault = True
                return _REAL_WRITE(fd, data[:len(data) // 2])
            return _REAL_WRITE(fd, data)
        os.stat, os.chmod, os.chown, os.rename, os.write = w_stat, w_chmod, w_chown, w_rename, w_write
        F.open = w_open


NAME_MAX = 255


def target_name(c):
    return c.get("name") or "t.py"


def gen_name(r):
    """basename of the target: its byte length is part of the case (the temp name appends ".tmp.<pid>")"""
    k = r.random()
    if k < .6:
        return "t.py"
    n = r.choice([1, 4, 100, 137, 138, 139, 140, 141, 142, 143, 144, 145, 200, 240, 243, 244, 245, 248, 250, 255])
    # (pyflyby's Filename accepts [a-zA-Z0-9_=+{}/.,~@-] only: non-ASCII names never reach the writer)
    body = "".join(r.choice("t0_=+{},@-") if r.random() < .2 else "t" for _ in range(max(0, n - 3)))
    return (body + ".py") if n >= 4 else "t" * n


def name_too_long(c, pid):
    """open() of <target>.tmp.<pid> fails with ENAMETOOLONG"""
    return len(("%s.tmp.%d" % (target_name(c), pid)).encode()) > NAME_MAX


def norm_listing(c, listing, pids):
    out = []
    nm = target_name(c)
    for x in listing:
        if x == nm:
            x = "t.py"
        elif x.startswith(nm + ".tmp."):
            x = "t.py" + x[len(nm):]
        for tag, pid in pids:
            x = x.replace(str(pid), tag)
        out.append(x)
    return out


def _setup_tree(c, root):
    """target t.py: absent / regular / regular with a second hard link (alias.py) / symlink to alias.py"""
    os.umask(0)
    os.chmod(root, 0o777)
    target = os.path.join(root, target_name(c))
    alias = os.path.join(root, "alias.py")
    by = os.path.join(root, "bystander.py")
    with open(by, "w") as f:
        f.write("bystander\n")
    if c["exists"]:
        tk = c.get("target_kind", "regular")
        real = alias if tk == "symlink" else target
        with open(real, "wb") as f:
            f.write(c["old"].encode())
        os.chmod(real, c["mode"])
        if c.get("unpriv"):
            os.chown(real, 65534, 0)
        elif c.get("gid") is not None:
            os.chown(real, -1, c["gid"])
        if tk == "hardlink":
            os.link(target, alias)
        elif tk == "symlink":
            os.symlink("alias.py", target)
    return target, by


def alias_path(c, root):
    return {"alias": os.path.join(root, "alias.py")} if c["exists"] and c.get("target_kind", "regular") != "regular" else {}


def do_history(c, root, target):
    """process history before the measured write: earlier replacements of the same or of another file by this
    very process (plain calls of the real atomic_write_file), some of them interrupted at the rename"""
    import pyflyby._file as F
    for n, h in enumerate(c.get("history") or []):
        path, text = (target, c["old"]) if h["file"] == "same" else (os.path.join(root, "other.py"), "other %d\n" % n)
        if h.get("interrupted"):
            real = os.rename

            def boom(*a, **k):
                raise OSError(errno.EIO, "interrupted")
            os.rename = boom
            try:
                try:
                    F.atomic_write_file(F.Filename(path), text)
                except OSError:
                    pass
            finally:
                os.rename = real
        else:
            try:
                F.atomic_write_file(F.Filename(path), text)
            except OSError:
                pass                            # (a target whose temp name does not fit NAME_MAX)


def _child_writer(c, root, target, data_text, inject, report_fd, ctrl_fd, tmpkey="tmp", stale=None, entry="direct",
                  others=None):
    """Runs in a forked child; never returns."""
    try:
        import pyflyby._cmdline  # noqa: F401  (before privileges are dropped)
        import pyflyby._file as F
        import runpy  # noqa: F401
        pid = os.getpid()
        if tmpkey == "tmp":
            do_history(c, root, target)          # single writer: the history belongs to the writing process itself
        tmp = "%s.tmp.%d" % (target, pid)
        paths = {"target": target, tmpkey: tmp, "calib": os.path.join(root, "calib.%d" % pid)}
        paths.update(others or {})
        contents = {"old": c["old"].encode()}
        for k in ("data", "d1", "d2"):
            if k in c:
                contents["new" if k == "data" else k] = make_data(c[k]).encode()
        if entry == "tidy":
            contents["new"] = c["old"].replace("import os, sys\n", "import os\n").encode()
        if stale:
            contents["stale"] = stale["content"].encode()
        os.umask(c["umask"])
        if c.get("unpriv"):
            os.setgroups([])
            os.setgid(65534)
            os.setuid(65534)
        if stale and name_too_long(c, pid):
            stale = None                            # such a temp file cannot exist
            contents.pop("stale", None)
        if stale:
            fd = os.open(tmp, os.O_WRONLY | os.O_CREAT, 0o666)
            os.write(fd, stale["content"].encode())
            os.close(fd)
            os.chmod(tmp, stale["mode"])
        g = Gates(report_fd, None, {"kind": "none"}, paths, contents)
        g.install()
        g.emit({"hello": pid, "egid": os.getegid(), "euid": os.geteuid(), "snap": g.snap()})
        # calibration: write_file of the same text to a scratch name; tells how much the io layer
        # puts out during write() and how much at close()
        if entry == "direct":
            g.armed = True
            F.write_file(F.Filename(paths["calib"]), data_text)
            g.armed = False
            g.emit({"calib_done": True})
        g.inject, g.ctrl_fd = inject, ctrl_fd
        if inject["kind"] == "rlimit":
            # a real resource fault: the file-size limit is reached part-way (SIGXFSZ ignored: write returns
            # short, then fails with EFBIG)
            import resource
            import signal
            signal.signal(signal.SIGXFSZ, signal.SIG_IGN)
            size = len((data_text or "").encode())
            k = {"zero": 0, "below": size // 2, "at": size, "above": size + 7}[inject["k"]]
            resource.setrlimit(resource.RLIMIT_FSIZE, (k, resource.getrlimit(resource.RLIMIT_FSIZE)[1]))
        outcome = "ok"
        if entry == "direct":
            g.armed = True
            try:
                F.atomic_write_file(F.Filename(target), data_text)
            except BaseException as e:
                outcome = type(e).__name__
            g.armed = False
        else:
            import pyflyby._cmdline as C
            real = C.atomic_write_file

            def armed_writer(fn, data):
                g.armed = True
                try:
                    return real(fn, data)
                finally:
                    g.armed = False
            C.atomic_write_file = armed_writer
            dn = os.open(os.devnull, os.O_RDWR)
            for fd in (0, 1, 2):
                os.dup2(dn, fd)
            sys.argv = [os.path.join(os.environ["VERIF_REPO"], "bin", "tidy-imports"), "-r", target]
            try:
                runpy.run_path(sys.argv[0], run_name="__main__")
            except SystemExit as e:
                outcome = "exit:%s" % (0 if e.code in (0, None) else 1)
            except BaseException as e:
                outcome = type(e).__name__
        g.emit({"done": outcome, "snap": g.snap()})
    except BaseException as e:                                 # harness failure inside the child
        import traceback
        try:
            os.write(report_fd, (json.dumps({"child_error": type(e).__name__, "tb": traceback.format_exc()[-1500:]}) + "\n").encode())
        except Exception:
            pass
    finally:
        os._exit(0)


class LineReader(object):
    def __init__(self, fd):
        self.fd, self.buf, self.eof = fd, b"", False

    def readline(self, timeout=120):
        while b"\n" not in self.buf and not self.eof:
            r, _, _ = select.select([self.fd], [], [], timeout)
            if not r:
                raise TimeoutError("child silent")
            d = os.read(self.fd, 65536)
            if not d:
                self.eof = True
            self.buf += d
        if b"\n" in self.buf:
            line, self.buf = self.buf.split(b"\n", 1)
            return json.loads(line)
        return None

    def drain(self):
        out = []
        while True:
            x = self.readline()
            if x is None:
                return out
            out.append(x)


def snap_path(path, contents, opener=open, statf=None):
    """what an observer sees at `path`: bytes, mode, gid and inode of the file it denotes (a symlink is
    followed, as a reader would), and whether the name itself is a symlink"""
    try:
        lst = os.lstat(path)
    except FileNotFoundError:
        return None
    except OSError as e:
        if e.errno == errno.ENAMETOOLONG:
            return None                     # such a name cannot exist
        raise
    islink = stat.S_ISLNK(lst.st_mode)
    try:
        st = (statf or os.stat)(path) if islink else lst
    except OSError:
        return {"special": "dangling"}
    if not stat.S_ISREG(st.st_mode):
        return {"special": stat.S_IFMT(st.st_mode)}
    with opener(path, "rb") as f:
        b = f.read()
    return {"len": len(b), "chk": chk(b), "mode": stat.S_IMODE(st.st_mode), "gid": st.st_gid, "ino": st.st_ino,
            "islink": islink, "which": sorted(k for k, v in contents.items() if v == b)}


def _parent_snap(paths, contents):
    return {k: snap_path(p, contents) for k, p in paths.items()}


def impl_case(c):
    if c["kind"] == "single":
        return impl_single(c)
    if c["kind"] == "two":
        return impl_two(c)
    raise ValueError(c["kind"])


def impl_single(c):
    root = tempfile.mkdtemp(prefix="verif-c08-")
    old_umask = os.umask(0)
    try:
        import pyflyby._file  # noqa: F401  (imported before the fork, as a long-lived caller would have)
        target, by = _setup_tree(c, root)
        before = _parent_snap(dict({"target": target, "bystander": by}, **alias_path(c, root)), {})
        rfd, wfd = os.pipe()
        data_text = make_data(c["data"]) if c["entry"] == "direct" else None
        pid = os.fork()
        if pid == 0:
            os.close(rfd)
            _child_writer(c, root, target, data_text, c["inject"], wfd, None, stale=c["stale"], entry=c["entry"],
                          others=alias_path(c, root))
        os.close(wfd)
        lines = LineReader(rfd).drain()
        os.close(rfd)
        _, status = os.waitpid(pid, 0)
        contents = {"old": c["old"].encode(),
                    "new": (data_text.encode() if data_text is not None
                            else c["old"].replace("import os, sys\n", "import os\n").encode())}
        tmp = "%s.tmp.%d" % (target, pid)
        after = _parent_snap(dict({"target": target, "tmp": tmp, "bystander": by}, **alias_path(c, root)), contents)
        listing = sorted(os.listdir(root))
        return {"pid": pid, "lines": lines, "exit": os.waitstatus_to_exitcode(status), "before": before, "after": after,
                "listing": norm_listing(c, listing, [("PID", pid)])}
    finally:
        os.umask(old_umask)
        shutil.rmtree(root, ignore_errors=True)


def impl_two(c):
    """the two writers are forked from one process; with a history that process (a driver forked for the case)
    has imported pyflyby._file AND has already done replacements itself before it forks them"""
    if not c.get("history"):
        return _impl_two_inner(c)
    rfd, wfd = os.pipe()
    pid = os.fork()
    if pid == 0:
        try:
            os.close(rfd)
            try:
                res = _impl_two_inner(c, pre=lambda root, target: do_history(c, root, target))
            except BaseException as e:
                import traceback
                res = {"__exc__": type(e).__name__, "msg": str(e)[:500], "tb": traceback.format_exc()[-1500:]}
            data = json.dumps(res).encode()
            while data:
                n = os.write(wfd, data)
                data = data[n:]
        finally:
            os._exit(0)
    os.close(wfd)
    buf = b""
    while True:
        d = os.read(rfd, 1 << 16)
        if not d:
            break
        buf += d
    os.close(rfd)
    os.waitpid(pid, 0)
    res = json.loads(buf)
    if "__exc__" in res:
        raise RuntimeError("driver failed: %s %s\n%s" % (res["__exc__"], res["msg"], res["tb"]))
    return res


def _impl_two_inner(c, pre=None):
    root = tempfile.mkdtemp(prefix="verif-c08-")
    old_umask = os.umask(0)
    kids = []
    try:
        import pyflyby._file  # noqa: F401  the writers are forked from one process that has imported the module
        target, by = _setup_tree(c, root)
        if pre:
            pre(root, target)
            os.umask(0)
        contents = {"old": c["old"].encode(), "d1": make_data(c["d1"]).encode(), "d2": make_data(c["d2"]).encode()}
        for side, dk, ik in ((0, "d1", "inject1"), (1, "d2", "inject2")):
            rfd, wfd = os.pipe()
            cr, cw = os.pipe()
            pid = os.fork()
            if pid == 0:
                os.close(rfd)
                os.close(cw)
                for k in kids:
                    os.close(k["cw"])
                    os.close(k["rfd"])
                _child_writer(c, root, target, make_data(c[dk]), c[ik], wfd, cr, tmpkey="tmp%d" % (side + 1),
                              others=alias_path(c, root))
            os.close(wfd)
            os.close(cr)
            kids.append({"pid": pid, "rfd": rfd, "cw": cw, "rd": LineReader(rfd), "done": None, "hello": None, "calib": []})
        paths = {"target": target, "tmp1": "%s.tmp.%d" % (target, kids[0]["pid"]), "tmp2": "%s.tmp.%d" % (target, kids[1]["pid"])}
        paths.update(alias_path(c, root))
        for k in kids:                      # hello + calibration lines
            while True:
                x = k["rd"].readline()
                if x is None or "child_error" in x:
                    raise RuntimeError("child failed: %r" % (x,))
                if "hello" in x:
                    k["hello"] = x
                elif "calib_done" in x:
                    break
                else:
                    k["calib"].append(x)
        steps = []
        initial = _parent_snap(paths, contents)

        def advance(side):
            k = kids[side]
            if k["done"] is not None:
                return
            try:
                os.write(k["cw"], b"g")
            except OSError:
                pass
            x = k["rd"].readline()
            if x is None:
                k["done"] = {"done": "vanished"}
            elif "done" in x or "child_error" in x:
                k["done"] = x
            else:
                steps.append({"side": "LR"[side], "ev": x["ev"], "paths": x["paths"], "exc": x.get("exc"),
                              "snap": _parent_snap(paths, contents)})
        for b in c["sched"]:
            advance(0 if b else 1)
        for side in (0, 1):                 # run both to completion, left first (= merge's tail)
            while kids[side]["done"] is None:
                advance(side)
        for k in kids:
            os.close(k["cw"])
            os.waitpid(k["pid"], 0)
            os.close(k["rfd"])
        final = _parent_snap(dict(paths, bystander=by), contents)
        listing = sorted(os.listdir(root))
        listing = norm_listing(c, listing, [("PID%d" % (i + 1), k["pid"]) for i, k in enumerate(kids)])
        return {"pids": [k["pid"] for k in kids], "hello": [k["hello"] for k in kids], "calib": [k["calib"] for k in kids],
                "done": [k["done"] for k in kids], "initial": initial, "steps": steps, "final": final, "listing": listing}
    finally:
        for k in kids:
            try:
                os.kill(k["pid"], 9)
            except Exception:
                pass
        os.umask(old_umask)
        shutil.rmtree(root, ignore_errors=True)


# ---------------------------------------------------------------------------------------------
# model side

def c_content(b):
    return cm.cstr(b.decode("latin-1"))


def c_data_bytes(spec, lo, hi):
    """bytes lo..hi of the encoded text, as a Gallina term that does not spell out long repeats"""
    b = make_data(spec).encode()
    seg = b[lo:hi]
    pat = spec["pat"].encode()
    if len(seg) > 600 and pat:
        # seg = head ++ rep n pat ++ tail, aligned on pattern boundaries
        first = -(-lo // len(pat)) * len(pat)
        nfull = max(0, (min(hi, len(pat) * spec["reps"]) - first) // len(pat))
        if nfull > 2 and first >= lo:
            head = b[lo:first]
            tail = b[first + nfull * len(pat):hi]
            assert head + pat * nfull + tail == seg
            return "(%s ++ rep %s %s ++ %s)%%list" % (c_content(head), cm.cN(nfull), c_content(pat), c_content(tail))
    return c_content(seg)


def c_file(content_term, mode, gid):
    return "(mkFile %s %s %s)" % (content_term, cm.cN(mode), cm.cN(gid))


def c_fault(inj, name):
    if inj["kind"] == "fault" and inj["at"] == name:
        return "FaultENOENT" if inj["errno"] == "ENOENT" else "FaultOther"
    return "NoFault"


def c_prog(spec, c1len, inj, flavour_map=True, open_fails=False):
    """[IOpen; IWrite c1; IWrite c2; IClose; IStat; IChmod; IChown; IRename] with the fault placed
    where the harness's Python-level injection bites (a failing close = the flush write fails, or
    close(2) itself fails after the flush)."""
    n = len(make_data(spec).encode())
    c1 = c_data_bytes(spec, 0, c1len)
    c2 = c_data_bytes(spec, c1len, n)
    close_flush = c_fault(inj, "close") if inj.get("flavour") != "close" else "NoFault"
    close_close = c_fault(inj, "close") if inj.get("flavour") == "close" else "NoFault"
    meta = [("IChmod", c_fault(inj, "chmod")), ("IChown", c_fault(inj, "chown"))]
    if variant_term() == "Fixed2":
        meta.reverse()
    items = [("IOpen", "FaultOther" if open_fails else c_fault(inj, "open")), ("IWrite %s" % c1, c_fault(inj, "write")), ("IWrite %s" % c2, close_flush),
             ("IClose", close_close), ("IStat", c_fault(inj, "stat"))] + meta + [("IRename", c_fault(inj, "rename"))]
    return items


def c_items(items):
    return cm.clist(["(%s, %s)" % it for it in items])


def variant_term():
    """Orig = before F11; Fixed = F11 (chmod, chown); Fixed2 = F11 + F11b (chown, chmod): the repaired code"""
    return os.environ.get("VERIF_C08_VARIANT", "Fixed2")


def c_env(c, hello):
    dmode = 0o666 & ~c["umask"]
    allowed = "None" if hello["euid"] == 0 else "(Some %s)" % cm.clist([cm.cN(hello["egid"])])
    return "(mk_env %s %s %s)" % (cm.cN(dmode), cm.cN(hello["egid"]), allowed)


def c_target(c, hello):
    snap = hello["snap"]["target"]
    if snap is None:
        return "None"
    return "(Some %s)" % c_file(c_content(c["old"].encode()), snap["mode"], snap["gid"])


def calib_c1len(lines):
    """bytes that reached the scratch file when write() returned, from the calibration run"""
    for x in lines:
        if "ev" in x and x["ev"][0] == "write":
            s = x["snap"].get("calib")
            return s["len"] if s else 0
    return 0


def single_exprs(c, im):
    """model expressions for one single-writer case: the calibration (write_file) and the call"""
    lines = im["lines"]
    hello = lines[0]
    if "hello" not in hello:
        return None
    if c["entry"] == "tidy":
        new = c["old"].replace("import os, sys\n", "import os\n")
        spec = {"pat": "", "reps": 0, "tail": new}
        # no calibration run: how much the io layer put out in write() is read off the call itself
        c1len = 0
        for x in lines:
            if "ev" in x and x["ev"][0] == "write" and x["ev"][2] and x["snap"].get("tmp"):
                c1len = x["snap"]["tmp"]["len"]
    else:
        spec = c["data"]
        c1len = calib_c1len(lines)
    items = c_prog(spec, c1len, c["inject"], open_fails=name_too_long(c, im["pid"]))
    temps = []
    st = hello["snap"].get("tmp")
    if st is not None:
        temps.append("(%s, %s)" % (cm.cN(im["pid"]), c_file(c_content(c["stale"]["content"].encode()), st["mode"], st["gid"])))
    e = c_env(c, hello)
    main = "run_single %s %s %s %s %s %s" % (variant_term(), e, cm.cN(im["pid"]), c_target(c, hello), cm.clist(temps), c_items(items))
    n = len(make_data(spec).encode())
    calib = "run_single %s %s %s None [] %s" % (
        variant_term(), e, cm.cN(im["pid"]),
        c_items([("IOpen", "NoFault"), ("IWrite %s" % c_data_bytes(spec, 0, c1len), "NoFault"),
                 ("IWrite %s" % c_data_bytes(spec, c1len, n), "NoFault"), ("IClose", "NoFault")]))
    return {"main": main, "calib": calib, "c1len": c1len}


def two_exprs(c, im):
    h1, h2 = im["hello"]
    l1 = calib_c1len(im["calib"][0])
    l2 = calib_c1len(im["calib"][1])
    it1 = c_prog(c["d1"], l1, c["inject1"], open_fails=name_too_long(c, im["pids"][0]))
    it2 = c_prog(c["d2"], l2, c["inject2"], open_fails=name_too_long(c, im["pids"][1]))
    # model-level schedule reconstructed from the real call order (see group_model_steps)
    cur = {"L": 0, "R": 0}
    sched = []
    groups = []
    MI = model_instrs()
    for s in im["steps"]:
        name = s["ev"][0]
        side = s["side"]
        j = MI.index(name, cur[side]) if name in MI[cur[side]:] else None
        if j is None:
            return None
        k = j - cur[side] + 1
        sched += [side == "L"] * k
        groups.append(k)
        cur[side] = j + 1
    tail = (8 - cur["L"]) + (8 - cur["R"])
    e = c_env(c, h1)
    init = im["initial"]["target"]
    tgt = "None" if init is None else "(Some %s)" % c_file(c_content(c["old"].encode()), init["mode"], init["gid"])
    expr = "run_two %s %s %s %s %s [] %s %s %s" % (variant_term(), e, cm.cN(im["pids"][0]), cm.cN(im["pids"][1]), tgt,
                                                   cm.clist([cm.cbool(b) for b in sched]), c_items(it1), c_items(it2))
    return {"main": expr, "groups": groups, "tail": tail}


def fold_group(msteps):
    """several model steps that make up one Python-level call -> (event, last snapshot)"""
    evs = [m["ev"] for m in msteps if m["ev"] is not None]
    if not evs:
        return None, msteps[-1]
    name = evs[-1][0]
    ok = all(e[2] for e in evs)
    arg = evs[-1][1]
    if len(evs) == 2 and evs[0][0] == "write" and name == "close":
        pass                                  # the flush belongs to close()
    elif len(evs) != 1:
        return ["?"] + evs, msteps[-1]
    if name == "write":
        arg = 0
    return [name, arg, ok], msteps[-1]


def norm_snap(s):
    return None if s is None else [s["len"], s["chk"], s["mode"], s["gid"]]


# ---------------------------------------------------------------------------------------------
# oracle: the property's own predicate on what was read back, independent of the model

def expected_paths(ev, paths, tmpkey):
    name = ev[0]
    want = {"open": [tmpkey], "write": [tmpkey], "close": [tmpkey], "stat": ["target"], "chmod": [tmpkey],
            "chown": [tmpkey, -1], "rename": [tmpkey, "target"]}[name]
    return paths[:len(want)] == want and (name != "open" or paths[1:] == ["w", [], []])


def oracle_single(c, im):
    """returns list of (clause, detail)"""
    bad = []
    lines = im["lines"]
    if not lines or "hello" not in lines[0]:
        return [("harness", "no hello from the writer: %r" % (lines[:1],))]
    hello = lines[0]
    old = hello["snap"]["target"]
    oldmode = old["mode"] if old else None
    main = []
    seen_calib_done = c["entry"] != "direct"
    done = None
    for x in lines[1:]:
        if "calib_done" in x:
            seen_calib_done = True
        elif "done" in x:
            done = x
        elif "child_error" in x:
            return [("harness", x)]
        elif seen_calib_done and "ev" in x:
            main.append(x)
    renamed = False
    # an injected ENOENT at stat tells the writer "there is no original": no mode to carry over
    spurious_enoent = c["inject"]["kind"] == "fault" and c["inject"]["at"] == "stat" and c["inject"]["errno"] == "ENOENT"
    snaps = [(x["ev"], x["snap"]["target"]) for x in main]
    if done:
        snaps.append((["return"], done["snap"]["target"]))
    snaps.append((["post-mortem"], im["after"]["target"]))
    for ev, t in snaps:
        if ev[0] == "rename" and ev[2]:
            renamed = True
        which = (t or {}).get("which", []) if t is not None else ["absent"]
        is_old = (t is None and old is None) or (t is not None and old is not None and "old" in which and t["ino"] == old["ino"]
                                                 and t["mode"] == old["mode"] and t.get("islink") == old.get("islink"))
        # (inode numbers are recycled, so "new" is decided by the bytes alone; the inode only tells the
        #  untouched original apart when old and new bytes coincide)
        is_new = t is not None and "new" in which
        if not (is_old or is_new):
            bad.append(("crash_atomic" if c["inject"]["kind"] != "fault" else "fault_atomic",
                        "after %r the target is neither the untouched original nor the complete new text: %r" % (ev, t)))
        if is_new and not is_old and not renamed:
            bad.append(("crash_atomic", "new contents visible before the rename (after %r)" % (ev,)))
        if is_new and not is_old and old is not None and t["mode"] != oldmode and not spurious_enoent:
            if t["mode"] & PERM == oldmode & PERM:
                bad.append(("F11b", "set-uid/set-gid bits dropped: original %o, replacement %o" % (oldmode, t["mode"])))
            else:
                clause = "mode_preserved_under_fault" if any(not e[2] for e, _ in snaps if len(e) > 2) else "mode_preserved"
                bad.append((clause, "target replaced with mode %o, the original had %o (after %r)" % (t["mode"], oldmode, ev)))
    final = im["after"]["target"]
    if c["inject"]["kind"] == "crash":
        if im["exit"] not in (7, 0):
            bad.append(("harness", "child exit %r" % im["exit"]))
    elif done is None:
        bad.append(("harness", "writer did not report completion"))
    else:
        ok = done["done"] in ("ok", "exit:0")
        fw = final is not None and "new" in final.get("which", [])
        if c["inject"]["kind"] == "none" and not name_too_long(c, im["pid"]) and not (ok and fw and im["after"]["tmp"] is None):
            bad.append(("nofault_returns", "fault-free call: outcome %r, target %r, temp %r" % (done["done"], final, im["after"]["tmp"])))
        if ok and not fw and c["entry"] == "direct":
            bad.append(("returns_iff_replaced", "call returned normally but the target does not hold the new text: %r" % (final,)))
        if not ok and c["entry"] == "direct" and not ((final is None and old is None) or (final and old and final["ino"] == old["ino"])):
            bad.append(("returns_iff_replaced", "call raised %s but the target changed: %r" % (done["done"], final)))
    if im["after"]["bystander"] != im["before"]["bystander"]:
        bad.append(("frame", "bystander file changed"))
    if "alias" in im["before"]:
        # the original's other name (second hard link, or the file the target symlink points to) keeps the original
        a0 = {k: v for k, v in im["before"]["alias"].items() if k != "which"}
        seen = [(x["ev"], x["snap"].get("alias")) for x in main] + [(["post-mortem"], im["after"].get("alias"))]
        for ev, a in seen:
            if a is None or {k: v for k, v in a.items() if k != "which"} != a0:
                bad.append(("crash_atomic" if c["inject"]["kind"] != "fault" else "fault_atomic",
                            "after %r the original's other name alias.py no longer holds the original: %r (was %r)" % (ev, a, a0)))
                break
    extra = [x for x in im["listing"] if x not in ("t.py", "bystander.py", "t.py.tmp.PID", "calib.PID", "alias.py")
             and not (c.get("history") and x in ("other.py", "other.py.tmp.PID"))]
    if extra:
        bad.append(("frame", "unexpected directory entries %r" % extra))
    for x in main:
        if not expected_paths(x["ev"], x["paths"], "tmp"):
            bad.append(("call_arguments", "call %r on %r" % (x["ev"], x["paths"])))
    return bad


def oracle_two(c, im):
    bad = []
    old = im["initial"]["target"]
    committed = False
    seq = [(s["ev"], s["side"], s["snap"]["target"]) for s in im["steps"]] + [(["final"], "-", im["final"]["target"])]
    for ev, side, t in seq:
        if ev[0] == "rename" and ev[2]:
            committed = True
        which = t.get("which", []) if t is not None else []
        is_old = (t is None and old is None) or (t is not None and old is not None and "old" in which and t["ino"] == old["ino"])
        is_new = t is not None and ("d1" in which or "d2" in which)       # inode numbers are recycled
        if not (is_old or is_new):
            bad.append(("two_writers", "after %r by %s the target is none of old, d1, d2: %r" % (ev, side, t)))
        if committed and not is_new:
            bad.append(("two_writers", "a writer has renamed but the target is not a writer's output (after %r)" % (ev,)))
        if is_new and old is not None and t["mode"] != old["mode"]:
            nofault = c["inject1"]["kind"] == "none" and c["inject2"]["kind"] == "none"
            if t["mode"] & PERM == old["mode"] & PERM:
                bad.append(("F11b", "set-uid/set-gid bits dropped: original %o, replacement %o" % (old["mode"], t["mode"])))
            else:
                bad.append(("mode_preserved" if nofault else "mode_preserved_under_fault",
                            "target replaced with mode %o, the original had %o (after %r by %s)" % (t["mode"], old["mode"], ev, side)))
    if "alias" in im["initial"]:
        a0 = {k: v for k, v in im["initial"]["alias"].items() if k != "which"}
        for ev, side, a in [(s["ev"], s["side"], s["snap"].get("alias")) for s in im["steps"]] + [(["final"], "-", im["final"].get("alias"))]:
            if a is None or {k: v for k, v in a.items() if k != "which"} != a0:
                bad.append(("two_writers", "after %r by %s the original's other name alias.py changed: %r" % (ev, side, a)))
                break
    oks = [d and d.get("done") == "ok" for d in im["done"]]
    fin = im["final"]["target"]
    if any(oks) and not (fin and ("d1" in fin["which"] or "d2" in fin["which"])):
        bad.append(("two_writers", "a writer returned normally but the final target is %r" % (fin,)))
    if c["inject1"]["kind"] == "none" and c["inject2"]["kind"] == "none" and not all(oks) \
       and not any(name_too_long(c, p) for p in im["pids"]):
        bad.append(("two_writers", "fault-free writers did not both return normally: %r" % (im["done"],)))
    for s in im["steps"]:
        if not expected_paths(s["ev"], s["paths"], "tmp1" if s["side"] == "L" else "tmp2"):
            bad.append(("call_arguments", "call %r on %r" % (s["ev"], s["paths"])))
    return bad


# ---------------------------------------------------------------------------------------------
# comparison

def compare_single(ctx, c, im, ex, mmain, mcalib):
    lines = im["lines"]
    calib, main, done, phase = [], [], None, ("calib" if c["entry"] == "direct" else "main")
    for x in lines[1:]:
        if "calib_done" in x:
            phase = "main"
        elif "done" in x:
            done = x
        elif "ev" in x:
            (calib if phase == "calib" else main).append(x)
    # calibration: write_file = open, write, close
    if c["entry"] == "direct":
        mg = [mcalib[0:1], mcalib[1:2], mcalib[2:4]]
        got = [[x["ev"], norm_snap(x["snap"]["calib"])] for x in calib]
        want = []
        for g in mg:
            ev, last = fold_group(g)
            want.append([ev, last["tmp"]])
        if got != want:
            ctx.disagreement("write_file call sequence / snapshots", c, got, want)
    # the call itself: group model steps by the real calls
    cur = 0
    want, got = [], []
    ok = True
    for x in main:
        name = x["ev"][0]
        if name not in model_instrs()[cur:]:
            ok = False
            break
        j = model_instrs().index(name, cur)
        ev, last = fold_group(mmain[cur:j + 1])
        want.append([ev, last["target"], last["tmp"]])
        got.append([x["ev"], norm_snap(x["snap"]["target"]), norm_snap(x["snap"]["tmp"])])
        cur = j + 1
    crashed = c["inject"]["kind"] == "crash" and done is None
    if not crashed:
        # whatever the model still has to execute must be silent (frame dead or call skipped)
        rest = mmain[cur:]
        if any(m["ev"] is not None for m in rest):
            ok = False
            want.append(["unexpected further calls", [m["ev"] for m in rest]])
        mlast = mmain[-1]
    else:
        mlast = mmain[cur - 1] if cur else None
    if not ok or got != want:
        ctx.disagreement("atomic_write_file call sequence / snapshots", c, got, want)
        return
    # state left behind (post-mortem for crashes)
    hello = lines[0]
    if mlast is None:
        mt, mtmp = norm_snap(hello["snap"]["target"]), norm_snap(hello["snap"].get("tmp"))
    else:
        mt, mtmp = mlast["target"], mlast["tmp"]
    rt, rtmp = norm_snap(im["after"]["target"]), norm_snap(im["after"]["tmp"])
    if [rt, rtmp] != [mt, mtmp]:
        ctx.disagreement("state left behind", c, [rt, rtmp], [mt, mtmp])
    if not crashed and c["entry"] == "direct":
        raised_real = done["done"] != "ok"
        raised_model = mlast["ctl"] != "run"
        if raised_real != raised_model:
            ctx.disagreement("outcome (raised)", c, done["done"], mlast["ctl"])


def compare_two(ctx, c, im, ex, mm):
    cur = 0
    got, want = [], []
    for s, k in zip(im["steps"], ex["groups"]):
        ev, last = fold_group(mm[cur:cur + k])
        cur += k
        want.append([s["side"], ev, last["target"], last["tmp1"], last["tmp2"]])
        got.append([s["side"], s["ev"], norm_snap(s["snap"]["target"]), norm_snap(s["snap"]["tmp1"]), norm_snap(s["snap"]["tmp2"])])
    rest = mm[cur:]
    if any(m["ev"] is not None for m in rest):
        want.append(["unexpected further calls", [m["ev"] for m in rest]])
    if got != want:
        ctx.disagreement("two writers: call sequence / snapshots", c, got, want)
        return
    last = mm[-1]
    fin = [norm_snap(im["final"][k]) for k in ("target", "tmp1", "tmp2")]
    if fin != [last["target"], last["tmp1"], last["tmp2"]]:
        ctx.disagreement("two writers: final state", c, fin, [last["target"], last["tmp1"], last["tmp2"]])
    raised = [d.get("done") != "ok" for d in im["done"]]
    if raised != [last["ctl1"] != "run", last["ctl2"] != "run"]:
        ctx.disagreement("two writers: outcomes", c, im["done"], [last["ctl1"], last["ctl2"]])


# ---------------------------------------------------------------------------------------------
# the unpatched tool under strace (real system calls; errors injected by strace itself)

STRACE_RE = re.compile(r'^(\d+)\s+(\w+)\((.*)\)\s+=\s+(-?\d+)(.*)$')


def strace_case(r, i):
    body = "x = 1\n" * r.choice([0, 3, 3000, 12000])
    return {"kind": "strace", "i": i, "mode": r.choice([0o600, 0o640, 0o755, 0o444]), "body": body,
            "tool": r.choice(["tidy-imports", "tidy-imports", "reformat-imports"]),
            "inject": r.choice([None, None, "chmod:error=EIO", "chown:error=EPERM", "rename:error=EIO", "chmod:error=EACCES"])}


def run_strace(c):
    root = tempfile.mkdtemp(prefix="verif-c08s-")
    try:
        target = os.path.join(root, "t.py")
        old = ("import os, sys\nos\n" if c["tool"] == "tidy-imports" else "import sys, os\nos, sys\n") + c["body"]
        with open(target, "w") as f:
            f.write(old)
        os.chmod(target, c["mode"])
        ino = os.stat(target).st_ino
        dry = subprocess.run([cm.PY, os.path.join(cm.REPO, "bin", c["tool"]), "-p", target], stdin=subprocess.DEVNULL,
                             stdout=subprocess.PIPE, stderr=subprocess.DEVNULL, text=True, env=cm.impl_env(home=root), cwd=root, timeout=120)
        new = dry.stdout
        tr = os.path.join(root, "trace")
        cmd = ["strace", "-f", "-o", tr, "-e", "trace=openat,write,close,newfstatat,stat,chmod,fchmodat,chown,fchownat,rename,renameat,renameat2"]
        if c["inject"]:
            cmd += ["-e", "inject=" + c["inject"]]
        cmd += [cm.PY, os.path.join(cm.REPO, "bin", c["tool"]), "-r", target]
        p = subprocess.run(cmd, stdin=subprocess.DEVNULL, stdout=subprocess.PIPE, stderr=subprocess.STDOUT, text=True,
                           env=cm.impl_env(home=root), cwd=root, timeout=120)
        calls = []
        fd = None
        tmp = None
        for line in open(tr, errors="replace"):
            m = STRACE_RE.match(line.rstrip("\n"))
            if not m:
                continue
            pid, name, args, ret, tail = m.groups()
            ok = int(ret) >= 0
            if name == "openat" and ".tmp.%s" % pid in args and "O_WRONLY|O_CREAT|O_TRUNC" in args:
                tmp = "%s.tmp.%s" % (target, pid)
                if '"%s"' % tmp not in args or ", 0666" not in args:
                    calls.append(["open?", args, ok])
                fd = ret
                calls.append(["open", 0, ok])
            elif tmp is None:
                continue
            elif name == "write" and args.startswith(fd + ","):
                calls.append(["write", int(ret), ok])
            elif name == "close" and args == fd and not any(x[0] == "close" for x in calls):
                calls.append(["close", 0, ok])
            elif name == "newfstatat" and '"%s"' % target in args and "AT_SYMLINK_NOFOLLOW" not in args:
                calls.append(["stat", 0, ok])
            elif name == "chmod" and '"%s"' % tmp in args:
                calls.append(["chmod", int(args.split(",")[1].strip(), 8), ok])
            elif name == "chown" and '"%s"' % tmp in args:
                a = [x.strip() for x in args.split(",")]
                calls.append(["chown", int(a[2]), ok] if a[1] == "-1" else ["chown?", args, ok])
            elif name == "rename" and '"%s"' % tmp in args and '"%s"' % target in args:
                calls.append(["rename", 0, ok])
            elif name in ("fchmodat", "fchownat", "renameat", "renameat2") and "t.py" in args:
                calls.append([name + "?", args, ok])
        st = os.lstat(target)
        with open(target, "rb") as f:
            b = f.read()
        return {"calls": calls, "rc": p.returncode, "old": old, "new": new,
                "final": {"len": len(b), "chk": chk(b), "mode": stat.S_IMODE(st.st_mode), "gid": st.st_gid,
                          "is_new": b == new.encode(), "is_old": b == old.encode(), "same_ino": st.st_ino == ino},
                "tmp_left": [x for x in os.listdir(root) if ".tmp." in x], "out": p.stdout[-600:]}
    finally:
        shutil.rmtree(root, ignore_errors=True)


def strace_expr(c, im):
    new = im["new"].encode()
    sizes = [x[1] for x in im["calls"] if x[0] == "write" and x[2]]
    items = [("IOpen", "NoFault")]
    off = 0
    spec = {"pat": "x = 1\n", "reps": 0, "tail": ""}
    for n in sizes:
        items.append(("IWrite %s" % c_content(new[off:off + n]) if n <= 600 else
                      "IWrite (%s ++ rep %s %s ++ %s)%%list" % _split_rep(new[off:off + n]), "NoFault"))
        off += n
    inj = c["inject"] or ""
    order = [("close", "IClose"), ("stat", "IStat"), ("chmod", "IChmod"), ("chown", "IChown"), ("rename", "IRename")]
    if variant_term() == "Fixed2":
        order[2], order[3] = order[3], order[2]
    for nm, ins in order:
        items.append((ins, "FaultOther" if inj.startswith(nm + ":") else "NoFault"))
    e = "(mk_env %s %s None)" % (cm.cN(0o666 & ~0o022), cm.cN(os.getegid()))
    tgt = "(Some %s)" % c_file(c_content(b""), c["mode"], os.getegid())
    return "run_single %s %s 1%%N %s [] %s" % (variant_term(), e, tgt, c_items(items)), off == len(new)


def _split_rep(seg):
    pat = b"x = 1\n"
    i = seg.find(pat)
    if i < 0:
        return (c_content(seg), cm.cN(0), c_content(b""), c_content(b""))
    n = 0
    while seg[i + n * len(pat): i + (n + 1) * len(pat)] == pat:
        n += 1
    return (c_content(seg[:i]), cm.cN(n), c_content(pat), c_content(seg[i + n * len(pat):]))


def check_strace(ctx, c, im, model):
    got = [x for x in im["calls"]]
    want = []
    for m in model:
        if m["ev"] is not None:
            want.append(m["ev"])
    # the model's file starts empty for the target (only mode/gid matter) - compare calls and final mode
    if got != want:
        ctx.disagreement("system calls of bin/%s --replace under strace" % c["tool"], c, got, want)
    last = model[-1]
    replaced_model = last["ctl"] == "run"
    f = im["final"]
    if replaced_model != f["is_new"] or (replaced_model and [f["len"], f["chk"], f["mode"], f["gid"]] != last["target"]):
        ctx.disagreement("final file of bin/%s --replace under strace" % c["tool"], c, f, last)
    # oracle
    if not (f["is_new"] or (f["is_old"] and f["same_ino"])):
        ctx.violation("fault_atomic", c, "target neither old nor new after %s: %r" % (c["inject"], f))
    if f["is_new"] and f["mode"] != c["mode"]:
        ctx.violation("mode_preserved_under_fault" if c["inject"] else "mode_preserved", c,
                      "bin/%s -r replaced a %o file by a %o file (strace inject=%s); calls %r" % (c["tool"], c["mode"], f["mode"], c["inject"], im["calls"]))
    if c["inject"] and not f["is_new"] and im["rc"] == 0:
        ctx.violation("returns_iff_replaced", c, "replacement failed but exit status 0: %s" % im["out"][-200:])


# ---------------------------------------------------------------------------------------------

def is_sugid_drop(c):
    """classifier of known finding F11b: the original carries a set-uid or set-gid bit"""
    return bool(c.get("mode", 0) & 0o6000) and c.get("exists", True)


def classify(c):
    if c["kind"] == "single":
        return "single:%s:%s" % (c["inject"]["kind"], c["inject"].get("at", "-"))
    if c["kind"] == "two":
        return "two:%s" % ("faulty" if (c["inject1"]["kind"] != "none" or c["inject2"]["kind"] != "none") else "clean")
    return c["kind"]


def evaluate(ctx, cases, impl):
    exprs, index, per = [], [], {}
    for ci, (c, im) in enumerate(zip(cases, impl)):
        if "__exc__" in im or "__timeout__" in im:
            continue
        if c["kind"] == "single" and c["inject"]["kind"] == "rlimit":
            continue                    # oracle only: where the io layer's retries stop is not modelled
        if c["kind"] == "single":
            ex = single_exprs(c, im)
            if ex is None:
                continue
            per[ci] = ex
            exprs += [ex["main"], ex["calib"]]
            index += [(ci, "main"), (ci, "calib")]
        elif c["kind"] == "two":
            ex = two_exprs(c, im)
            if ex is None:
                continue
            per[ci] = ex
            exprs.append(ex["main"])
            index.append((ci, "main"))
    model = cm.coq_eval_json(REQ, exprs, shard=80)
    res = {}
    for (ci, tag), mv in zip(index, model):
        res.setdefault(ci, {})[tag] = mv
    for ci, (c, im) in enumerate(zip(cases, impl)):
        if "__exc__" in im or "__timeout__" in im:
            ctx.bump("impl_exception")
            ctx.count(c, False)
            ctx.violation("harness", c, im, stage="machinery")
            continue
        bad = oracle_single(c, im) if c["kind"] == "single" else oracle_two(c, im)
        seen = set()
        for clause, detail in bad:
            if clause in seen:
                continue
            seen.add(clause)
            if clause == "F11b" and is_sugid_drop(c) and any(k["id"] == "F11b" for k in ctx.open_findings()):
                ctx.known_hit("F11b", "chown after chmod clears the set-uid/set-gid bits of the replacement (%s)" % detail)
            else:
                ctx.violation(clause, c, detail)
        if ci in per:
            if c["kind"] == "single":
                compare_single(ctx, c, im, per[ci], res[ci]["main"], res[ci]["calib"])
            else:
                compare_two(ctx, c, im, per[ci], res[ci]["main"])
        elif not (c["kind"] == "single" and c["inject"]["kind"] == "rlimit"):
            ctx.disagreement("no model expression (unexpected call order)", c, im, None)
        ctx.bump(classify(c))
        nontriv = c["kind"] == "two" or c["inject"]["kind"] != "none" or c.get("unpriv") or c.get("stale")
        ctx.count(c, bool(nontriv))
        if nontriv:
            ctx.sample({"case": c, "calls": [x.get("ev") for x in (im.get("lines") or im.get("steps") or []) if "ev" in x][:20]}, limit=3)
    return len(exprs)


def run(ctx):
    cm.check_anchors(ctx, ANCHORS)
    scale = getattr(ctx, "scale", 1)
    thorough = not ctx.quick
    n_single = (2000 if thorough else 260) * scale
    n_two = (300 if thorough else 50) * scale
    n_strace = 40 if thorough else 6
    ctx.coverage["rule"] = (
        "single-writer cases (target present/absent x 17 modes x umasks x sizes 0..30 kB around the 8192-byte buffer x "
        "stale temp file x {no fault, OSError at each of the 7 calls (5 errnos, ENOENT at stat), os._exit before each call, RLIMIT_FSIZE reached part-way (oracle only), a short os.write, "
        "natural EPERM of an unprivileged chown} x {direct call, bin/tidy-imports -r in-process}); two real processes stepped "
        "call by call through a schedule (random in quick; all C(14,7)=3432 in thorough) with optional faults; the unpatched "
        "tools under strace with syscall errors injected by strace; non-trivial = fault, crash, stale temp, unprivileged or "
        "two-writer case; distinct by hash of the case")
    ctx.assumptions += [
        "POSIX semantics of open(O_TRUNC)/write/close/stat/chmod/chown/rename as written in Sys/AtomicWrite.v (rename atomic); "
        "tied on every run by comparing the model state with the directory after every call",
        "process crash model: a crash happens between two calls of the sequence; power-loss reordering and threads sharing a pid are outside the property",
        "how many bytes the io layer writes during write() vs close() is read off a calibration run of write_file and fed to the model as the chunking",
        "the permission to chown (group membership) and the default creation mode/gid are taken from the running process",
    ]
    ctx.notes["trusted_base"] = ["strace 's view of the system calls (sample only)"]
    ctx.notes["model_variant"] = variant_term()
    cases = list(cm.load_corpus("C08"))
    for j, (mode, at, en) in enumerate([(m, a, e) for m in (0o600, 0o640, 0o755, 0o400)
                                        for a, e in (("chown", "EPERM"), ("chmod", "EPERM"), ("stat", "EACCES"))]):
        # a failing call of the stat/chmod/chown block with an original mode other than the umask default
        cases.append({"kind": "single", "i": 300000 + j, "exists": True, "old": "old\n", "mode": mode, "umask": 0o022, "gid": 12345,
                      "data": {"pat": "ab\n", "reps": 3, "tail": ""}, "stale": None, "unpriv": False, "entry": "direct",
                      "target_kind": "regular", "inject": {"kind": "fault", "at": at, "errno": en, "flavour": "flush"}})
    for i in range(n_single):
        cases.append(gen_single(cm.rng(ctx.seed, "c08", "single", i), i, thorough))
    for i in range(n_two):
        cases.append(gen_two(cm.rng(ctx.seed, "c08", "two", i), i))
    if thorough:
        budget = int(os.environ.get("VERIF_C08_SCHEDULES", "3432"))
        for i, s in enumerate(all_schedules()):
            if i >= budget:
                break
            cases.append(gen_two(cm.rng(ctx.seed, "c08", "sched", i), 100000 + i, sched=s, small=(i % 16 != 0)))
        ctx.notes["exhaustive_schedules"] = min(budget, 3432)
    proc = [c for c in cases if c["kind"] in ("single", "two")]
    impl = cm.run_impl("c08", "impl_case", proc, timeout_case=300)
    nexpr = evaluate(ctx, proc, impl)
    # strace sample (runs from the harness process: the tool itself is an unpatched subprocess)
    scases = [c for c in cases if c["kind"] == "strace"] + [strace_case(cm.rng(ctx.seed, "c08", "strace", i), i) for i in range(n_strace)]
    if shutil.which("strace"):
        from concurrent.futures import ThreadPoolExecutor
        with ThreadPoolExecutor(max_workers=min(cm.NCPU, 4)) as ex:
            sims = list(ex.map(run_strace, scases))
        sex = [strace_expr(c, im) for c, im in zip(scases, sims)]
        smodel = cm.coq_eval_json(REQ, [e for e, _ in sex], shard=10)
        for c, im, (e, complete), mv in zip(scases, sims, sex, smodel):
            if not complete and not c["inject"]:
                ctx.disagreement("strace: writes do not add up to the new text", c, im["calls"], None)
            check_strace(ctx, c, im, mv)
            ctx.count(c, True)
            ctx.bump("strace:%s" % (c["inject"] or "clean"))
        nexpr += len(sex)
    else:
        ctx.notes["strace"] = "not available"
    ctx.notes["model_evaluations_in_kernel"] = nexpr
    ctx.coverage["traces_validated_against_impl"] = nexpr


def replay(payload):
    case = payload.get("case") or payload["disagreements"][0]["case"]
    if case["kind"] == "strace":
        im = run_strace(case)
        e, _ = strace_expr(case, im)
        mv = cm.coq_eval_json(REQ, [e])[0]
        print(json.dumps({"case": case, "impl": im, "model": mv}, indent=1))
        return 0
    impl = cm.run_impl("c08", "impl_case", [case], jobs=1)
    im = impl[0]
    ex = single_exprs(case, im) if case["kind"] == "single" else two_exprs(case, im)
    model = cm.coq_eval_json(REQ, [ex["main"]]) if ex else None
    bad = (oracle_single if case["kind"] == "single" else oracle_two)(case, im) if "__exc__" not in im else im
    print(json.dumps({"case": case, "impl": im, "model": model, "oracle": bad}, indent=1, default=str))
    return 0

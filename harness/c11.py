"""C11 - import formatting round-trips under every style configuration.

Correspondence: ImportSet(imports, ignore_shadowed).pretty_print(params) (exact text), the sorted /
shadow-filtered set, ImportSet.imports, conflicting_imports, Import.split / from_split, pyfill,
with/without_imports against Imports/{Import,ImportSet,Format}.v; the model lexer/parser
(Imports/ImportLex.v) against CPython's ast.parse on printed texts and on a token-soup stream.
Oracle: re-read the printed text with stdlib ast and compare (fullname, local name) pairs with the
set that was printed; print(ImportSet(text)) == text; line-width rule."""
import ast
import json
import keyword

from . import common as cm

ANCHORS = ["pyflyby._cmdline:parse_args", "pyflyby._format:fill", "pyflyby._format:pyfill",
           "pyflyby._importstmt:Import.split", "pyflyby._importstmt:Import.from_split",
           "pyflyby._importstmt:ImportStatement._from_imports", "pyflyby._importstmt:ImportStatement.imports",
           "pyflyby._importstmt:ImportStatement.pretty_print",
           "pyflyby._importclns:ImportSet._from_imports", "pyflyby._importclns:ImportSet._by_module_name",
           "pyflyby._importclns:ImportSet.get_statements", "pyflyby._importclns:ImportSet.imports",
           "pyflyby._importclns:ImportSet.by_import_as", "pyflyby._importclns:ImportSet.conflicting_imports",
           "pyflyby._importclns:ImportSet.with_imports", "pyflyby._importclns:ImportSet.without_imports",
           "pyflyby._importclns:ImportSet.pretty_print", "pyflyby._idents:dotted_prefixes"]

REQ = ["Imports.Import", "Imports.ImportSet", "Imports.Format", "Imports.ImportLex", "Imports.Cli", "Imports.Wire"]

# ---------------------------------------------------------------------------------------------
# generators

ALPHA0 = "abcxyz_AZ"
ALPHA = "abcxyz_019AZ"
FUTURES = ["division", "annotations", "print_function", "absolute_import", "generators", "with_statement"]


def ident(r, maxlen=12):
    n = r.randint(1, maxlen)
    s = r.choice(ALPHA0) + "".join(r.choice(ALPHA) for _ in range(n - 1))
    return s if not keyword.iskeyword(s) else s + "_"


def dotted(r, lo=1, hi=3):
    return ".".join(ident(r, r.choice([2, 3, 8, 20, 60])) for _ in range(r.randint(lo, hi)))


def rand_import(r, pool):
    """one well-formed import as [fullname, import_as]"""
    k = r.random()
    if k < 0.18:                                     # import a.b
        d = r.choice(pool) if r.random() < .4 else dotted(r)
        return [d, d]
    if k < 0.26:                                     # import a as c
        return [ident(r), ident(r)]
    if k < 0.36:                                     # import a.b as c == from a import b as c
        return [r.choice(pool) + "." + ident(r), ident(r)]
    if k < 0.66:                                     # from a import b
        m = r.choice(pool) if r.random() < .7 else dotted(r)
        b = ident(r, r.choice([2, 8, 30, 60]))
        return [m + "." + b, b]
    if k < 0.78:                                     # relative
        lvl = "." * r.randint(1, 3)
        mod = (r.choice(pool) + ".") if r.random() < .6 else ""
        b = ident(r)
        return [lvl + mod + b, b if r.random() < .7 else ident(r)]
    if k < 0.86:                                     # star
        m = r.choice(pool) if r.random() < .7 else dotted(r)
        if r.random() < .2:
            m = "." * r.randint(1, 2) + (m if r.random() < .5 else "")
            if m.endswith("."):
                return [m + "*", "*"]
        return [m + ".*", "*"]
    if k < 0.94:                                     # __future__
        return ["__future__." + r.choice(FUTURES), None]
    return [r.choice(pool) + "." + ident(r), ident(r)]


def rand_params(r):
    al = r.random()
    if al < .2:
        align = {"bool": False}
    elif al < .45:
        align = {"bool": True}
    elif al < .75:
        align = {"col": r.choice([0, 1, 8, 16, 24, 32, 40, r.randint(0, 70)])}
    else:
        align = {"cols": [r.choice([0, 8, 16, 24, 32, 40, 48, r.randint(0, 60)]) for _ in range(r.choice([1, 2, 2, 3, 4]))]}
    w = r.random()
    width = None if w < .12 else (79 if w < .2 else (0 if w < .22 else r.randint(10, 200) if w < .5 else r.randint(10, 70)))
    return {"width": width, "indent": r.choice([0, 1, 2, 4, 4, 8]), "hanging": r.choice(["never", "auto", "always"]),
            "align": align, "from_spaces": r.choice([0, 1, 1, 1, 2, 3, 5, 8]),
            "separate": r.random() < .6, "align_future": r.random() < .4}


def one_line_len(imports, P):
    """length of some statement of the set if printed on one line (to aim widths at boundaries)"""
    by = {}
    for f, a in imports:
        if f == a or "." not in f.lstrip("."):
            by.setdefault(None, []).append(f if f == a else "%s as %s" % (f, a))
        else:
            m, b = f.rsplit(".", 1)
            by.setdefault(m or ".", []).append(b if a == b else "%s as %s" % (b, a))
    out = []
    for m, toks in by.items():
        head = "import " if m is None else "from%s%s import " % (" " * max(1, P["from_spaces"]), m)
        out.append(len(head) + len(", ".join(sorted(toks))))
    return out


def gen_set_case(r, i):
    pool = [dotted(r) for _ in range(r.randint(1, 4))]
    imports = []
    for _ in range(r.choice([0, 1, 1, 2, 3, 4, 5, 6, 7, 9])):
        f, a = rand_import(r, pool)
        if a is None:
            a = f.split(".")[-1]
        imports.append([f, a])
    if r.random() < .15:
        # several un-aliased plain imports sharing a root package (each binds the same top-level name), also `import aa`
        root = ident(r, 4)
        for d in r.sample([root, root + "." + ident(r, 3), root + "." + ident(r, 3) + "." + ident(r, 3), root + "." + ident(r, 5)], r.randint(2, 4)):
            imports.append([d, d])
    P = rand_params(r)
    if r.random() < .15:
        # __future__ together with modules whose names sort before '__future__' (uppercase, _A.._Z, __a..__e,
        # ___): the __future__ statement must still come first, under every separate/align_future setting
        imports.append(["__future__." + r.choice(FUTURES), None])
        for _ in range(r.randint(1, 3)):
            m = r.choice(["A", "Zeta", "_A", "_Zz", "_0x", "__a", "__e9", "___", "__F", "B.c", "__future", "__futur"]) + r.choice(["", "", "x", "_1"])
            k = r.random()
            if k < .4:
                imports.append([m, m])
            elif k < .5:
                imports.append([m, ident(r, 4)])
            elif k < .9:
                b = ident(r, 6)
                imports.append([m + "." + b, b])
            else:
                imports.append([m + ".*", "*"])
        imports = [[f, a if a is not None else f.split(".")[-1]] for f, a in imports]
        P["separate"] = r.random() < .35
        P["align_future"] = r.random() < .5
    shadow = r.random() < .7
    if not shadow:                                   # avoid most accidental conflicts, keep a few
        seen = {}
        keep = []
        for f, a in imports:
            if a != "*" and a in seen and seen[a] != f and r.random() < .85:
                continue
            seen[a] = f
            keep.append([f, a])
        imports = keep
    if imports and r.random() < .45:                 # boundary stream: width at a statement's length -1/0/+1/+2
        ls = one_line_len(imports, P)
        P["width"] = max(1, r.choice(ls) + r.choice([-2, -1, 0, 1, 2]))
    how, P = gen_how(r, P)
    return {"kind": "set", "i": i, "imports": imports, "shadow": shadow, "params": P, "how": how}


SPLIT_ALPHA = "ab.*_"


def gen_split_case(r, i):
    f = "".join(r.choice(SPLIT_ALPHA) for _ in range(r.randint(0, 7)))
    a = r.choice([f, f.split(".")[-1], "".join(r.choice(SPLIT_ALPHA) for _ in range(r.randint(0, 3))), "*"])
    return {"kind": "split", "i": i, "imp": [f, a]}


def gen_pyfill_case(r, i):
    toks = [ident(r, r.choice([1, 3, 8, 30])) + (" as " + ident(r, 6) if r.random() < .2 else "") for _ in range(r.randint(1, 8))]
    prefix = r.choice(["import ", "from foo import ", " " * r.randint(0, 30) + "import ", "from %s import " % dotted(r)])
    P = rand_params(r)
    if r.random() < .6:                              # boundary: the hanging_indent='auto' test and the one-line test
        base = r.choice([len(prefix) + max(len(t) for t in toks) + 2, len(prefix) + len(", ".join(toks))])
        P["width"] = max(1, base + r.choice([-2, -1, 0, 1]))
    return {"kind": "pyfill", "i": i, "prefix": prefix, "tokens": toks, "params": P}


def gen_algebra_case(r, i):
    pool = [dotted(r, 1, 2) for _ in range(2)]
    def some(n):
        out = []
        for _ in range(r.randint(0, n)):
            f, a = rand_import(r, pool)
            out.append([f, a if a is not None else f.split(".")[-1]])
        return out
    a = some(6)
    b = some(3) + [x for x in a if r.random() < .3]
    for f, x in list(a):
        # the same (module, member) under another local name: removing one must not remove the other
        if x != "*" and "." in f and r.random() < .35:
            mem = f.split(".")[-1]
            variant = [f, mem] if x != mem else [f, ident(r, 4)]
            (b if r.random() < .6 else a).append(variant)
    if r.random() < .3 and a:
        m = r.choice(a)[0].lstrip(".").split(".")[0]
        b.append([m + ".*", "*"])
    return {"kind": "algebra", "i": i, "a": a, "b": b, "name": r.choice([x[1] for x in a + b] + ["q"])}


SOUP = ["import", "from", "as", "a", "b", "cc", "a.b", "a.b.c", ".", "..", "...", ".a", ",", "(", ")", "*", "a1", "_x",
        "import a", "from a import b", "from . import c", "import a.b as c", "b as c", "from a import (b, c)",
        "def", "None", "1a", "match", "x as y"]


def gen_soup_case(r, i):
    lines = []
    for _ in range(r.randint(0, 4)):
        toks = [r.choice(SOUP) for _ in range(r.randint(1, 7))]
        if r.random() < .6:                          # bias towards something statement-shaped
            toks = [r.choice(["import", "from"])] + toks
            if toks[0] == "from" and "import" not in toks and r.random() < .8:
                toks.insert(r.randint(1, len(toks)), "import")
        s = ""
        depth = 0
        for t in toks:
            if t == "(":
                depth += 1
            if t == ")":
                depth = max(0, depth - 1)
            gap = r.choice([" ", " ", " ", "", "  "])
            if s and depth > 0 and r.random() < .2:
                gap = "\n" + " " * r.randint(0, 4)
            elif s and r.random() < .08:
                gap = " \\\n" + " " * r.randint(0, 4)
            s += (gap if s else "") + t
        lines.append(s)
    text = "\n".join(lines) + ("\n" if r.random() < .8 else "")
    return {"kind": "soup", "i": i, "text": text}


def gen_cases(ctx, n):
    cases = []
    for i in range(n):
        r = cm.rng(ctx.seed, "c11", i)
        k = i % 20
        if k < 11:
            cases.append(gen_set_case(r, i))
        elif k < 12:
            cases.append(gen_seq_case(r, i))
        elif k < 13:
            cases.append(gen_cli_case(r, i, None))
        elif k < 14:
            cases.append(gen_split_case(r, i))
        elif k < 16:
            cases.append(gen_pyfill_case(r, i))
        elif k < 17:
            cases.append(gen_algebra_case(r, i))
        else:
            cases.append(gen_soup_case(r, i))
    return cases


def exhaustive_cases(ctx, limit):
    """all sets of <= 3 imports over a small alphabet x a configuration grid (thorough)"""
    import itertools
    base = [["a", "a"], ["a.b", "a.b"], ["a.b", "b"], ["a.c", "c"], ["a.c", "d"], ["bb.c", "c"], ["a.*", "*"],
            [".b", "b"], ["..a.c", "c"], ["__future__.division", "division"], ["a", "d"]]
    cases = []
    i = 0
    for k in range(0, 4):
        for comb in itertools.combinations(base, k):
            for width in (10, 14, 17, 18, 19, 20, 23, 26, 30, 45, 60):
                for hang in ("never", "auto", "always"):
                    for align in ({"bool": False}, {"bool": True}, {"col": 12}, {"cols": [8, 16]}):
                        i += 1
                        if (i * 2654435761 + ctx.seed) % 7 != 0 and len(comb) == 3:
                            continue
                        cases.append({"kind": "set", "i": "x%d" % i, "imports": [list(x) for x in comb], "shadow": True,
                                      "params": {"width": width, "indent": 4 if i % 2 else 2, "hanging": hang, "align": align,
                                                 "from_spaces": 1 + (i % 3) % 2 * 2, "separate": i % 5 != 0,
                                                 "align_future": i % 3 == 0}})
                        if len(cases) >= limit:
                            return cases
    return cases


# ---------------------------------------------------------------------------------------------
# sequences of operations on ONE ImportSet object (instance-level caches), and the command-line tools

def gen_seq_case(r, i):
    base = gen_set_case(r, i)
    imports = base["imports"]
    ops = []
    P0 = base["params"]
    for _ in range(r.randint(3, 7)):
        k = r.random()
        if k < .55:
            P = dict(P0)
            # vary a few fields only, so that successive prints share width / column / from_spaces
            for f in r.sample(["hanging", "indent", "width", "align", "from_spaces", "separate", "align_future"], r.choice([1, 1, 2, 3])):
                P[f] = rand_params(r)[f]
            ops.append(["print", P])
            if r.random() < .5:
                P0 = P
        elif k < .7:
            ops.append(["repr"])
        elif k < .8:
            ops.append(["statements", r.random() < .5])
        elif k < .9:
            names = [a for _, a in imports] or ["q"]
            ops.append(["by_import_as", r.choice(names)])
        else:
            pool = [dotted(r, 1, 2)]
            extra = []
            for _ in range(r.randint(1, 2)):
                f, a = rand_import(r, pool)
                extra.append([f, a if a is not None else f.split(".")[-1]])
            ops.append(["with", extra])
    return {"kind": "seq", "i": i, "imports": imports, "shadow": base["shadow"], "ops": ops}


CLI_FLAG_POOL = ["width", "hanging", "align", "from_spaces", "separate", "align_future", "uniform", "unaligned"]


def rand_flag(r, name):
    if name == "width":
        return ["width", r.choice([30, 40, 50, 60, 79, 100])]
    if name == "hanging":
        return ["hanging", r.choice(["never", "auto", "always"])]
    if name == "align":
        return ["align", r.choice([[0], [1], [32], [24], [8, 16], [16, 40, 24]])]
    if name == "from_spaces":
        return ["from_spaces", r.choice([1, 2, 3, 5])]
    if name in ("separate", "align_future"):
        return [name, r.random() < .5]
    return [name]


def gen_cli_case(r, i, perm_pool):
    base = gen_set_case(r, i)
    # well-formed, import-only file: unique local names, identifiers short enough to make wrapping depend on the options
    pool = [dotted(r, 1, 2) for _ in range(2)]
    imports, seen = [], set()
    for _ in range(r.randint(3, 9)):
        f, a = rand_import(r, pool)
        if f.startswith("."):
            continue
        a = a if a is not None else f.split(".")[-1]
        if len(f) > 45 or (a in seen and a != "*") or (f, a) in [tuple(x) for x in imports]:
            continue
        seen.add(a)
        imports.append([f, a])
    if len(imports) < 2:
        imports += [["os.path.join", "join"], ["collections.OrderedDict", "OD"], ["sys", "sys"]]
    script = "tidy-imports" if r.random() < .65 else "reformat-imports"
    k = r.randrange(4)
    nflags = r.choice([2, 3, 3, 4])
    names = r.sample(CLI_FLAG_POOL, nflags)
    if r.random() < .7 and not ({"uniform", "unaligned"} & set(names)):
        names[r.randrange(len(names))] = r.choice(["uniform", "unaligned"])
    flags = [rand_flag(r, n) for n in names]
    if r.random() < .3:                                  # the same destination twice: last wins
        flags.append(rand_flag(r, r.choice([n for n in names if n not in ("uniform", "unaligned")] or ["width"])))
    r.shuffle(flags)
    pyproject = None
    if script == "tidy-imports" and k != 0:
        pyproject = {}
        for n in r.sample(["width", "hanging", "align", "from_spaces", "separate", "align_future"], r.randint(1, 4)):
            fl = rand_flag(r, n)
            pyproject[n] = fl[1]
        if k == 1:
            flags = []                                   # (b) settings only in pyproject.toml
        elif k == 2:                                     # (c) contradicting: the command line wins
            flags = [rand_flag(r, n) for n in pyproject if r.random() < .8] + flags
            r.shuffle(flags)
    return {"kind": "cli", "i": i, "script": script, "imports": imports, "flags": flags, "pyproject": pyproject}


def cli_argv(flags, r_short):
    out = []
    for j, fl in enumerate(flags):
        n = fl[0]
        short = (r_short + j) % 2 == 0
        if n == "width":
            out.append("--width=%d" % fl[1])
        elif n == "hanging":
            out.append("--hanging-indent=%s" % fl[1])
        elif n == "align":
            out.append(("--align=%s" if short else "--align-imports=%s") % ",".join(map(str, fl[1])))
        elif n == "from_spaces":
            out.append("--from-spaces=%d" % fl[1])
        elif n == "separate":
            out.append("--separate-from-imports" if fl[1] else "--no-separate-from-imports")
        elif n == "align_future":
            out.append("--align-future" if fl[1] else "--no-align-future")
        elif n == "uniform":
            out.append("-u" if short else "--uniform")
        elif n == "unaligned":
            out.append("-n" if short else "--unaligned")
    return out


def pyproject_text(pp):
    lines = ["[tool.other]", "width = 5", "", "[tool.pyflyby]"]
    for k, v in pp.items():
        if k == "width":
            lines.append("width = %d" % v)
        elif k == "hanging":
            lines.append('hanging_indent = "%s"' % v)
        elif k == "align":
            lines.append('align_imports = "%s"' % ",".join(map(str, v)))
        elif k == "from_spaces":
            lines.append("from_spaces = %d" % v)
        elif k == "separate":
            lines.append("separate_from_imports = %s" % ("true" if v else "false"))
        elif k == "align_future":
            lines.append("align_future = %s" % ("true" if v else "false"))
    return "\n".join(lines) + "\n"


def render_import_file(imports):
    """one statement per import, __future__ first (plain Python, no pyflyby)"""
    lines = []
    for f, a in sorted(imports, key=lambda x: (not x[0].startswith("__future__."), 0)):
        if f == a:
            lines.append("import %s" % f)
        elif "." not in f:
            lines.append("import %s as %s" % (f, a))
        else:
            m, b = f.rsplit(".", 1)
            lines.append("from %s import %s%s" % (m, b, "" if a == b else " as " + a))
    return "\n".join(lines) + "\n"


def effective_params(flags, pyproject):
    """documented meaning: every option stores its destination, the shortcuts are their documented expansion,
    for one destination the last one on the command line wins; command line > pyproject > defaults"""
    eff = {"width": None, "hanging": "never", "align": [32], "from_spaces": 3, "separate": False, "align_future": False}
    for k, v in (pyproject or {}).items():
        eff[k] = v
    expanded = []
    for fl in flags:
        if fl[0] == "uniform":
            expanded += [["separate", False], ["from_spaces", 3], ["align", [32]]]
        elif fl[0] == "unaligned":
            expanded += [["separate", True], ["from_spaces", 1], ["align", [0]]]
        else:
            expanded.append(fl)
    for n, v in expanded:
        eff[n] = v
    al = eff["align"]
    align = {"bool": True} if al == [1] else {"bool": False} if al == [0] else {"cols": sorted(set(al))}
    return {"width": eff["width"], "indent": 4, "hanging": eff["hanging"], "align": align, "from_spaces": eff["from_spaces"],
            "separate": eff["separate"], "align_future": eff["align_future"]}


def run_cli(script, argv, cwd):
    """the real bin/ script of REPO, in this process"""
    import contextlib
    import io
    import os
    import runpy
    import sys
    old_argv, old_cwd = sys.argv, os.getcwd()
    out, err = io.StringIO(), io.StringIO()
    os.chdir(cwd)
    sys.argv = [script] + argv
    try:
        with contextlib.redirect_stdout(out), contextlib.redirect_stderr(err):
            try:
                runpy.run_path(script, run_name="__main__")
                code = 0
            except SystemExit as e:
                code = e.code or 0
    finally:
        sys.argv = old_argv
        os.chdir(old_cwd)
    return code, out.getvalue(), err.getvalue()[-300:]


# ---------------------------------------------------------------------------------------------
# implementation side (worker process, pyflyby from REPO)

PARAM_KEYS = {"width": "max_line_length", "indent": "indent", "hanging": "hanging_indent", "align": "align_imports",
              "from_spaces": "from_spaces", "separate": "separate_from_imports", "align_future": "align_future"}
BASE_FIELDS = ("width", "indent", "hanging")
PARAM_DEFAULTS = {"width": None, "indent": 4, "hanging": "never", "align": {"bool": True}, "from_spaces": 1,
                  "separate": True, "align_future": False}


def _kw(d):
    out = {}
    for k, v in d.items():
        if k == "align":
            v = v["bool"] if "bool" in v else (v["col"] if "col" in v else tuple(v["cols"]))
        out[PARAM_KEYS[k]] = v
    return out


def _params(P, how=None):
    """the params object handed to pretty_print.  how = None: ImportFormatParams(**all settings);  otherwise HOW the same
    merged settings are passed: {"mode": ..., "parts": [[cls, settings], ...], "kw": settings}"""
    from pyflyby._format import FormatParams
    from pyflyby._importstmt import ImportFormatParams
    if not how or how["mode"] == "kw":
        return ImportFormatParams(**_kw(P))
    objs = []
    for cls, d in how["parts"]:
        if cls == "none":
            objs.append(None)
        else:
            objs.append((FormatParams if cls == "base" else ImportFormatParams)(**_kw(d)))
    if how["mode"] == "base":
        return objs[0]                                   # a bare FormatParams instance goes straight to pretty_print
    return ImportFormatParams(*objs, **_kw(how["kw"]))


def merged_settings(how):
    eff = dict(PARAM_DEFAULTS)
    for cls, d in how["parts"]:
        if cls != "none":
            eff.update(d)
    eff.update(how["kw"])
    return eff


def gen_how(r, P):
    """returns (how, effective P): the same settings passed in different ways; later objects / keywords override"""
    k = r.random()
    if k < .4:
        return {"mode": "kw", "parts": [], "kw": dict(P)}, P
    other = rand_params(r)
    if k < .55:                                          # FormatParams base instance, directly
        how = {"mode": "base", "parts": [["base", {f: P[f] for f in BASE_FIELDS}]], "kw": {}}
        return how, merged_settings(how)
    if k < .7:                                           # ImportFormatParams(FormatParams(...), import-specific keywords)
        how = {"mode": "wrap", "parts": [["base", {f: P[f] for f in BASE_FIELDS}]],
               "kw": {f: P[f] for f in P if f not in BASE_FIELDS and r.random() < .8}}
        return how, merged_settings(how)
    if k < .85:                                          # ImportFormatParams(other_params, **overrides)
        first = {f: (P[f] if r.random() < .5 else other[f]) for f in P if r.random() < .8}
        how = {"mode": "override", "parts": [["import", first]], "kw": {f: P[f] for f in P if first.get(f, None) != P[f] or r.random() < .3}}
        return how, merged_settings(how)
    # several objects merged positionally (None allowed), then keywords
    p1 = {f: other[f] for f in BASE_FIELDS if r.random() < .7}
    p2 = {f: (P[f] if r.random() < .6 else other[f]) for f in P if r.random() < .6}
    p3 = {f: P[f] for f in P if r.random() < .5}
    parts = [["base", p1], ["none", {}], ["import", p2], ["import", p3]]
    r.shuffle(parts)
    how = {"mode": "positional", "parts": parts, "kw": {f: P[f] for f in P if r.random() < .3}}
    return how, merged_settings(how)


def _pairs(imps):
    return [[i.fullname, i.import_as] for i in imps]


def _printed(f):
    try:
        return {"text": f()}
    except Exception as e:
        return {"error": type(e).__name__}


def _reformat(text, P):
    """the tool-level second pass: reformat_import_statements (bin/reformat-imports) on the printed block; its import
    blocks are read with ImportSet(..., ignore_shadowed=True)"""
    from pyflyby._imports2s import reformat_import_statements
    from pyflyby._parse import PythonBlock
    return reformat_import_statements(PythonBlock(text), params=P).text.joined


def impl_case(c):
    from pyflyby._importclns import ImportSet
    from pyflyby._importstmt import Import
    from pyflyby._format import pyfill, FormatParams
    k = c["kind"]
    if k == "set":
        P = _params(c["params"], c.get("how"))
        s = ImportSet([Import.from_parts(f, a) for f, a in c["imports"]], ignore_shadowed=c["shadow"])
        res = {"set": sorted(_pairs(s._importset)), "imports": _pairs(s.imports),
               "conflicts": sorted(s.conflicting_imports), "print": _printed(lambda: s.pretty_print(P))}
        if "text" in res["print"]:
            text = res["print"]["text"]
            # second pass through pyflyby's own reader (the path every tool takes)
            def again():
                return ImportSet(text).pretty_print(P)
            res["reprint"] = _printed(again)
            res["reformat"] = _printed(lambda: _reformat(text, P))
            res["reread"] = _printed(lambda: sorted(_pairs(ImportSet(text)._importset)))
        return res
    if k == "seq":
        s = ImportSet([Import.from_parts(f, a) for f, a in c["imports"]], ignore_shadowed=c["shadow"])
        res = {"set": sorted(_pairs(s._importset)), "conflicts": sorted(s.conflicting_imports), "ops": []}
        for op in c["ops"]:
            if op[0] == "print":
                P = _params(op[1])
                pr = _printed(lambda: s.pretty_print(P))
                o = {"print": pr}
                if "text" in pr:
                    text = pr["text"]
                    o["reprint"] = _printed(lambda: ImportSet(text).pretty_print(P))
                    o["reformat"] = _printed(lambda: _reformat(text, P))
                res["ops"].append(o)
            elif op[0] == "repr":
                res["ops"].append({"repr": repr(s)})
            elif op[0] == "statements":
                res["ops"].append({"statements": [[st.fromname, [list(a) for a in st.aliases]] for st in s.get_statements(separate_from_imports=op[1])]})
            elif op[0] == "by_import_as":
                res["ops"].append({"by": _pairs(s.by_import_as.get(op[1], ()))})
            elif op[0] == "with":
                res["ops"].append({"with": sorted(_pairs(s.with_imports(ImportSet([Import.from_parts(f, a) for f, a in op[1]]))._importset))})
        return res
    if k == "cli":
        import os
        import shutil
        import tempfile
        d = tempfile.mkdtemp(prefix="verif-c11cli-")
        try:
            with open(os.path.join(d, "t.py"), "w") as fh:
                fh.write(render_import_file(c["imports"]))
            if c["pyproject"] is not None:
                with open(os.path.join(d, "pyproject.toml"), "w") as fh:
                    fh.write(pyproject_text(c["pyproject"]))
            argv = ["--print"] + (["--no-add", "--no-remove-unused"] if c["script"] == "tidy-imports" else [])
            argv += cli_argv(c["flags"], c["i"] if isinstance(c["i"], int) else 0) + ["t.py"]
            script = os.path.join(os.environ.get("VERIF_REPO", "/repo"), "bin", c["script"])
            code, out, err = run_cli(script, argv, d)
        finally:
            shutil.rmtree(d, ignore_errors=True)
        eff = effective_params(c["flags"], c["pyproject"] if c["script"] == "tidy-imports" else None)
        s = ImportSet([Import.from_parts(f, a) for f, a in c["imports"]], ignore_shadowed=True)
        return {"argv": argv, "code": code, "out": out, "err": err, "effective": eff,
                "lib": _printed(lambda: s.pretty_print(_params(eff)))}
    if k == "split":
        imp = Import.from_parts(*c["imp"])
        sp = imp.split
        back = Import.from_split(sp)
        return {"split": [sp.module_name, sp.member_name, sp.import_as], "back": [back.fullname, back.import_as]}
    if k == "pyfill":
        P = c["params"]
        return {"text": pyfill(c["prefix"], c["tokens"],
                               FormatParams(max_line_length=P["width"], indent=P["indent"], hanging_indent=P["hanging"]))}
    if k == "algebra":
        a = ImportSet([Import.from_parts(f, x) for f, x in c["a"]])
        b = ImportSet([Import.from_parts(f, x) for f, x in c["b"]])
        return {"with": sorted(_pairs(a.with_imports(b)._importset)),
                "without": sorted(_pairs(a.without_imports(b)._importset)),
                "by": _pairs(a.by_import_as.get(c["name"], ()))}
    if k == "soup":
        return {}
    raise ValueError(k)


# ---------------------------------------------------------------------------------------------
# model side

def c_pairs(l):
    return cm.clist([cm.cpair(cm.cstr(f), cm.cstr(a)) for f, a in l])


def c_params(P):
    al = P["align"]
    if "bool" in al:
        a = "(AlignBool %s)" % cm.cbool(al["bool"])
    elif "col" in al:
        a = "(AlignCol %s)" % cm.cnat(al["col"])
    else:
        a = "(AlignCols %s)" % cm.clist([cm.cnat(x) for x in al["cols"]])
    return "(mkParams %s %s %s %s %s %s %s)" % (
        cm.copt(P["width"], cm.cnat), cm.cnat(P["indent"]), {"never": "Never", "auto": "Auto", "always": "Always"}[P["hanging"]],
        a, cm.cnat(P["from_spaces"]), cm.cbool(P["separate"]), cm.cbool(P["align_future"]))


def model_exprs(cases):
    exprs, index = [], []
    for ci, c in enumerate(cases):
        k = c["kind"]
        if k == "set":
            exprs.append("run_case %s %s %s" % (c_params(c["params"]), cm.cbool(c["shadow"]), c_pairs(c["imports"])))
            index.append((ci, "case"))
        elif k == "split":
            exprs.append("run_split %s %s" % (cm.cstr(c["imp"][0]), cm.cstr(c["imp"][1])))
            index.append((ci, "split"))
        elif k == "pyfill":
            exprs.append("run_pyfill %s %s %s" % (c_params(c["params"]), cm.cstr(c["prefix"]),
                                                  cm.clist([cm.cstr(t) for t in c["tokens"]])))
            index.append((ci, "pyfill"))
        elif k == "algebra":
            exprs.append("run_with %s %s" % (c_pairs(c["a"]), c_pairs(c["b"])))
            index.append((ci, "with"))
            exprs.append("run_without %s %s" % (c_pairs(c["a"]), c_pairs(c["b"])))
            index.append((ci, "without"))
            exprs.append("run_by_import_as %s %s" % (c_pairs(c["a"]), cm.cstr(c["name"])))
            index.append((ci, "by"))
        elif k == "soup":
            exprs.append("run_parse %s" % cm.cstr(c["text"]))
            index.append((ci, "parse"))
        elif k == "seq":
            for oi, op in enumerate(c["ops"]):
                if op[0] == "print":
                    exprs.append("run_print %s %s %s" % (c_params(op[1]), cm.cbool(c["shadow"]), c_pairs(c["imports"])))
                elif op[0] == "repr":
                    exprs.append("run_print_allow_conflicts %s %s" % (cm.cbool(c["shadow"]), c_pairs(c["imports"])))
                elif op[0] == "statements":
                    exprs.append("run_statements %s %s %s" % (cm.cbool(c["shadow"]), cm.cbool(op[1]), c_pairs(c["imports"])))
                elif op[0] == "by_import_as":
                    exprs.append("show_imports (by_import_as (from_imports %s (mk_imports %s)) %s)" % (cm.cbool(c["shadow"]), c_pairs(c["imports"]), cm.cstr(op[1])))
                elif op[0] == "with":
                    exprs.append("show_imports (with_imports (from_imports %s (mk_imports %s)) (from_imports false (mk_imports %s)))" % (cm.cbool(c["shadow"]), c_pairs(c["imports"]), c_pairs(op[1])))
                index.append((ci, "op%d" % oi))
        elif k == "cli":
            py = c["pyproject"] if c["script"] == "tidy-imports" else None
            exprs.append("run_cli_print %s %s true %s" % (c_cli_opts([[n, v] for n, v in (py or {}).items()]), c_cli_opts(c["flags"]), c_pairs(c["imports"])))
            index.append((ci, "cli"))
    return exprs, index


def c_cli_opts(flags):
    out = []
    for fl in flags:
        n = fl[0]
        if n == "width":
            out.append("OWidth %s" % cm.cnat(fl[1]))
        elif n == "hanging":
            out.append("OHanging %s" % {"never": "Never", "auto": "Auto", "always": "Always"}[fl[1]])
        elif n == "align":
            out.append("OAlign %s" % cm.clist([cm.cnat(x) for x in fl[1]]))
        elif n == "from_spaces":
            out.append("OFromSpaces %s" % cm.cnat(fl[1]))
        elif n == "separate":
            out.append("OSeparate %s" % cm.cbool(fl[1]))
        elif n == "align_future":
            out.append("OAlignFuture %s" % cm.cbool(fl[1]))
        elif n == "uniform":
            out.append("OUniform")
        elif n == "unaligned":
            out.append("OUnaligned")
    return cm.clist(out)


# ---------------------------------------------------------------------------------------------
# oracle: the property's own predicate (stdlib ast + plain string operations; no pyflyby, no model)

def ast_statements(text):
    """None if the text is not valid Python or holds anything but import statements; otherwise
    [[fromname or None, [[name, asname], ...]], ...] in order."""
    try:
        tree = ast.parse(text)
    except (SyntaxError, ValueError):
        return None
    out = []
    for node in tree.body:
        if isinstance(node, ast.Import):
            out.append([None, [[a.name, a.asname] for a in node.names]])
        elif isinstance(node, ast.ImportFrom):
            out.append(["." * node.level + (node.module or ""), [[a.name, a.asname] for a in node.names]])
        else:
            return None
    return out


def pairs_of_statements(sts):
    """(dotted path of the imported object incl. leading dots, local name) for every alias"""
    out = []
    for frm, aliases in sts:
        for name, asname in aliases:
            if frm is None:
                out.append([name, asname or name])
            else:
                out.append([frm + ("" if frm.endswith(".") else ".") + name, asname or name])
    return out


def alias_tokens_on(line):
    """number of imported names a physical line of a printed import block carries"""
    s = line.strip()
    if s.endswith("\\"):
        s = s[:-1].rstrip()
        if s.startswith("from") and " import" not in s:
            return 0                                    # 'from M \' head line
    if s.startswith("from"):
        k = s.find(" import")
        s = s[k + len(" import"):] if k >= 0 else ""
    elif s.startswith("import"):
        s = s[len("import"):]
    s = s.strip()
    if s.startswith("("):
        s = s[1:]
    if s.endswith(")"):
        s = s[:-1]
    s = s.strip().rstrip(",")
    return len([t for t in s.split(",") if t.strip()])


def is_head_line(line):
    """F17 classifier: an over-long line that carries no imported name: 'from M import (' or 'from M \\'"""
    return alias_tokens_on(line) == 0


def is_unwrappable_plain_import(line):
    """F17 classifier, second form: a plain 'import a, a as b' statement (no parenthesised form exists)"""
    return line.startswith("import ") and alias_tokens_on(line) >= 2


def oracle_set(ctx, c, im):
    """returns list of (clause, detail); known findings are reported through ctx.known_hit"""
    bad = []
    pr = im["print"]
    if "error" in pr:
        if pr["error"] == "ConflictingImportsError" and im["conflicts"]:
            return bad
        if pr["error"] == "ValueError" and "cols" in c["params"]["align"] and not c["params"]["align"]["cols"]:
            return bad
        bad.append(("no_internal_error", "pretty_print raised %s on a non-conflicting set" % pr["error"]))
        return bad
    text = pr["text"]
    sts = ast_statements(text)
    if sts is None:
        bad.append(("roundtrip", "the printed block is not a valid block of import statements: %r" % text))
        return bad
    try:
        # ast.parse accepts what only the compiler rejects (a __future__ import that is not first, ...)
        compile(text, "<c11>", "exec", dont_inherit=True)
    except (SyntaxError, ValueError) as e:
        bad.append(("valid_python", "the printed block does not compile (%s): %r" % (e.msg if isinstance(e, SyntaxError) else e, text)))
        return bad
    got = sorted(pairs_of_statements(sts))
    if got != sorted(im["set"]):
        bad.append(("roundtrip", "re-read imports %r differ from the printed set %r" % (got, sorted(im["set"]))))
    if im.get("reprint") != {"text": text}:
        bad.append(("reprint", "second pass gives %r" % (im.get("reprint"),)))
    if "reformat" in im and text and im["reformat"] != {"text": text}:
        bad.append(("reprint", "reformat_import_statements on the printed block is not the identity: %r becomes %r" % (text, im["reformat"])))
    N = c["params"]["width"] or 79
    for line in text.split("\n"):
        if len(line) > N:
            n = alias_tokens_on(line)
            if n == 1:
                continue
            if is_head_line(line):
                ctx.known_hit("F17", "width clause: an over-long head line carries no imported name (unwrappable 'from M import (' / 'from M \\'), e.g. %r at width %d" % (line, N))
                ctx.bump("known:F17-head")
            elif is_unwrappable_plain_import(line):
                ctx.known_hit("F17", "width clause: an over-long plain 'import a, a as b' line cannot be wrapped (no parenthesised form)")
                ctx.bump("known:F17-plain")
            else:
                bad.append(("width", "line %r is longer than %d and carries %d names" % (line, N, n)))
    return bad


# ---------------------------------------------------------------------------------------------

def compare(ctx, cases, impl, index, model):
    per_case = {}
    for (ci, tag), mv in zip(index, model):
        per_case.setdefault(ci, {})[tag] = mv
    for ci, (c, im) in enumerate(zip(cases, impl)):
        k = c["kind"]
        mv = per_case.get(ci, {})
        nontriv = False
        if "__exc__" in im or "__timeout__" in im:
            ctx.bump("impl_exception")
            ctx.count(c, False)
            ctx.violation("no_internal_error", c, im)
            continue
        if k == "set":
            m = mv["case"]
            if m["set"] != im["set"]:
                ctx.disagreement("ImportSet._from_imports", c, im["set"], m["set"])
            if m["imports"] != im["imports"]:
                ctx.disagreement("ImportSet.imports", c, im["imports"], m["imports"])
            if m["conflicts"] != im["conflicts"]:
                ctx.disagreement("ImportSet.conflicting_imports", c, im["conflicts"], m["conflicts"])
            if m["print"] != im["print"]:
                ctx.disagreement("ImportSet.pretty_print", c, im["print"], m["print"])
            if "text" in im["print"]:
                text = im["print"]["text"]
                sts = ast_statements(text)
                # model parser vs CPython on the implementation's text is checked through m["parsed"] when the prints agree
                if m["print"] == im["print"]:
                    want = None if sts is None else pairs_of_statements(sts)
                    if m["parsed"] != want:
                        ctx.disagreement("parse_imports vs ast.parse", c, want, m["parsed"])
                    if m["parsed"] is not None and m["parsed"] != m["canonical"]:
                        ctx.disagreement("model: parse(print) <> canonical", c, m["canonical"], m["parsed"])
                    if m["parsed"] is not None and m["reprint"] != m["print"]:
                        ctx.disagreement("model: reprint <> print", c, m["print"], m["reprint"])
                if im.get("reread") != {"text": im["set"]}:
                    ctx.bump("reread_differs")
                nlines = text.count("\n")
                nontriv = nlines > 0
                ctx.bump("set:lines>stmts" if ("(" in text or "\\" in text) else "set:flat")
                if "\\" in text:
                    ctx.bump("set:backslash-wrap")
            else:
                ctx.bump("set:error:" + im["print"]["error"])
            for clause, detail in oracle_set(ctx, c, im):
                ctx.violation(clause, c, detail)
            ctx.bump("align:" + next(iter(c["params"]["align"])))
            ctx.bump("hanging:" + c["params"]["hanging"])
        elif k == "seq":
            for oi, (op, o) in enumerate(zip(c["ops"], im["ops"])):
                m = mv["op%d" % oi]
                sub = {"kind": "seq", "i": c["i"], "imports": c["imports"], "shadow": c["shadow"], "ops": c["ops"][:oi + 1]}
                if op[0] == "print":
                    if m != o["print"]:
                        ctx.disagreement("ImportSet.pretty_print (same object, operation %d)" % oi, sub, o["print"], m)
                    fake = {"set": im["set"], "conflicts": im["conflicts"], "print": o["print"], "reprint": o.get("reprint")}
                    if "reformat" in o:
                        fake["reformat"] = o["reformat"]
                    for clause, detail in oracle_set(ctx, {"params": op[1]}, fake):
                        ctx.violation(clause, sub, "operation %d on one ImportSet object: %s" % (oi, detail))
                    nontriv = True
                elif op[0] == "repr":
                    want = None
                    if "text" in m:
                        want = "ImportSet(\'\'\'\n%s\'\'\')" % "".join("  " + l for l in m["text"].splitlines(True))
                    if want != o["repr"]:
                        ctx.disagreement("ImportSet.__repr__ (same object, operation %d)" % oi, sub, o["repr"], want)
                elif op[0] == "statements":
                    if m != o["statements"]:
                        ctx.disagreement("ImportSet.get_statements (same object, operation %d)" % oi, sub, o["statements"], m)
                elif op[0] == "by_import_as":
                    if m != o["by"]:
                        ctx.disagreement("ImportSet.by_import_as (same object, operation %d)" % oi, sub, o["by"], m)
                elif op[0] == "with":
                    if m != o["with"]:
                        ctx.disagreement("ImportSet.with_imports (same object, operation %d)" % oi, sub, o["with"], m)
            ctx.bump("seq")
            ctx.bump("seq:ops", len(c["ops"]))
        elif k == "cli":
            m = mv["cli"]
            if im["code"] != 0:
                ctx.violation("no_internal_error", c, "%s exited with %r: %s" % (c["script"], im["code"], im["err"]))
            else:
                # oracle: the tool's block is the library's block under the documented effective params
                if im["lib"] != {"text": im["out"]}:
                    ctx.violation("cli_effective_params", c,
                                  "%s %s prints %r; the documented effective parameters %r give %r" %
                                  (c["script"], " ".join(im["argv"]), im["out"], im["effective"], im["lib"]))
                if m["print"] != {"text": im["out"]}:
                    ctx.disagreement("fold_format_options + print_set vs bin/%s" % c["script"], c, im["out"], m)
                fake = {"set": sorted(c["imports"]), "conflicts": [], "print": {"text": im["out"]}, "reprint": {"text": im["out"]}}
                for clause, detail in oracle_set(ctx, {"params": im["effective"]}, fake):
                    if clause in ("roundtrip", "valid_python", "width"):
                        ctx.violation(clause, c, detail)
            nontriv = bool(c["flags"]) or c["pyproject"] is not None
            ctx.bump("cli:" + c["script"] + (":pyproject" if c["pyproject"] is not None else "") + (":flags" if c["flags"] else ""))
        elif k == "split":
            if mv["split"] != im:
                ctx.disagreement("Import.split/from_split", c, im, mv["split"])
            nontriv = im["split"][0] is not None
            ctx.bump("split")
        elif k == "pyfill":
            if mv["pyfill"] != im["text"]:
                ctx.disagreement("pyfill", c, im["text"], mv["pyfill"])
            nontriv = im["text"].count("\n") > 1
            ctx.bump("pyfill")
        elif k == "algebra":
            for tag in ("with", "without", "by"):
                if mv[tag] != im[tag]:
                    ctx.disagreement("ImportSet.%s" % tag, c, im[tag], mv[tag])
            nontriv = im["without"] != sorted(c["a"])
            ctx.bump("algebra")
            # oracle (plain rule): without_imports removes exactly the listed imports (same path AND same local name),
            # plus - when a star import is listed - imports under that module
            aset = sorted(set(map(tuple, c["a"])))
            bset = set(map(tuple, c["b"]))
            got = set(map(tuple, im["without"]))
            if not got <= set(aset):
                ctx.violation("without_imports_exact", c, "without_imports invented %r" % sorted(got - set(aset)))
            if not any(x == "*" for _, x in bset):
                want = [list(t) for t in aset if t not in bset]
                if im["without"] != want:
                    ctx.violation("without_imports_exact", c, "without_imports gives %r, expected %r (an import is removed only "
                                  "when path and local name both match)" % (im["without"], want))
        elif k == "soup":
            sts = ast_statements(c["text"])
            want = None if sts is None else {"stmts": sts, "imports": pairs_of_statements(sts)}
            if mv["parse"] != want:
                ctx.disagreement("parse_stmts vs ast.parse", c, want, mv["parse"])
            nontriv = sts is not None and len(sts) > 0
            ctx.bump("soup:valid" if sts is not None else "soup:invalid")
        ctx.count(c, nontriv)
        if nontriv and k == "set":
            ctx.sample({"case": c, "impl": im["print"]})


def run(ctx):
    n = 1600 if ctx.quick else 40000
    ctx.coverage["rule"] = ("cases from one seeded PRNG: 5% sequences of operations on one ImportSet object, 5% command-line runs of bin/tidy-imports / bin/reformat-imports (flags in generated orders, [tool.pyflyby] of a pyproject.toml, both), 55% import sets x parameter draws (45% of them with the width aimed at a statement's "
                            "one-line length -2..+2), 5% Import.split on strings over 'ab.*_', 10% pyfill (60% at the auto/one-line boundaries), 5% set algebra, 15% token soup "
                            "for the parser; thorough adds all sets of <=3 imports over an 11-import alphabet x widths x hanging x align; "
                            "non-trivial = the set printed at least one line / the split has a module / pyfill wrapped / soup is a valid "
                            "import block; distinct by hash of the case")
    ctx.assumptions += [
        "identifiers are ASCII and not Python keywords (the model lexer's NAME); black mode (use_black) is out of scope",
        "ImportSet objects are built with Import.from_parts (the text reader of pyflyby is exercised only by the reprint clause)",
        "the model prints the REPAIRED ImportStatement.pretty_print (fixes/F02-F25-no-paren-plain-star-import.diff)",
    ]
    ctx.notes["trusted_base"] = ["CPython ast.parse as the reference reader of the printed text (oracle) and as the reference for the model parser"]
    cm.check_anchors(ctx, ANCHORS)
    n *= getattr(ctx, "scale", 1)
    cases = cm.load_corpus("C11") + gen_cases(ctx, n)
    if not ctx.quick:
        cases += exhaustive_cases(ctx, 20000)
    impl = cm.run_impl("c11", "impl_case", cases)
    exprs, index = model_exprs(cases)
    model = cm.coq_eval_json(REQ, exprs, shard=200)
    compare(ctx, cases, impl, index, model)
    ctx.notes["model_evaluations_in_kernel"] = len(exprs)


def replay(payload):
    case = payload.get("case") or payload["disagreements"][0]["case"]
    impl = cm.run_impl("c11", "impl_case", [case], jobs=1)
    exprs, index = model_exprs([case])
    model = cm.coq_eval_json(REQ, exprs)
    ctx = cm.Ctx("C11", "replay", 0)
    orc = oracle_set(ctx, case, impl[0]) if case["kind"] == "set" and "print" in impl[0] else []
    print(json.dumps({"case": case, "impl": impl[0], "model": model, "oracle": orc, "known": ctx.known_hits}, indent=1))
    return 0

"""C03 - rewriter output always compiles and is a fixed point.

ANCHORS: harness/c04_s2s.py (shared with C04).

Correspondence (open mode): reformat_import_statements, fix_unused_and_missing_imports (all flag combinations),
replace_star_imports, remove_broken_imports, transform_imports - complete output text and the class of the internal
error raised vs Tidy/Fix.v fed with the captured block decomposition, renderings, analysis result, database
answers; plus a sample of real `bin/tidy-imports --print` runs against the same in-process pipeline.
Oracle (independent of the model): no exception, compile(output) under the module's own __future__ statements,
ast.get_docstring equality, tool(tool(x)) == tool(x)."""
import ast
import json
import os
import shutil
import subprocess
import sys
import tempfile

from . import common as cm
from . import c04_s2s as S

ANCHORS = S.ANCHORS

TMAPS = [[["pkg.sub", "newpkg.s"], ["m", "mm"]], [["os.path", "ospath2"]], [["a", "aa.bb"]], [["keyword", "kw"]],
         [["pkg", "\u0928\u093e\u092e"]]]


def gen_cases(ctx, n):
    cases = []
    for i in range(n):
        r = cm.rng(ctx.seed, "c03", i)
        if i % 33 == 32:
            cases.append(gen_size_case(r, i))
            continue
        if i % 33 == 31:
            cases.append(gen_black_case(r, i))
            continue
        k = i % 20
        kind = ("tidy" if k < 10 else "reformat" if k < 12 else "star" if k < 14 else "broken" if k < 16
                else "transform" if k < 19 else "cli")
        uni = r.random() < .25                  # a quarter of the stream carries non-ASCII text and identifiers
        c = {"kind": kind, "stream": "unicode" if uni else "layout", "i": i, "src": S.gen_layout_src(r, uni),
             "db": r.choice(S.DBS + [S.DB_UNI] * 4) if uni else r.choice(S.DBS),
             "flags": S.gen_flags(r), "params": r.choice(S.PARAMS)}
        if kind == "transform":
            c["tmap"] = r.choice(TMAPS)
        if kind == "cli":
            c["params"] = {"align_imports": [32], "from_spaces": 3, "separate_from_imports": False}   # the CLI's defaults
            c["flags"] = {"add_missing": True, "remove_unused": "AUTOMATIC", "add_mandatory": True}
        if kind == "tidy" and r.random() < .1:
            c["filename"] = r.choice(["/nonexistent-verif/pkgdir/__init__.py", "/nonexistent-verif/.pyflyby/x.py"])
        cases.append(c)
    return cases


# ---------------------------------------------------------------------------------------------
# size extremes (oracle only): the unmodified tree handles binary-operator / attribute chains of ~950 levels (Python's
# recursion limit of 1000 minus the frames of the caller; from ~960 on: known finding F43) and CPython itself refuses
# more than 200 nested brackets; the stream stays at 600-850 resp. 150-190

def size_src(shape, n):
    if shape == "sum":
        return "import os, sys\nTOTAL = " + " + ".join("v%d" % i for i in range(n)) + "\nimport keyword\n"
    if shape == "attr":
        return "from pkg import a\nT = a" + ".b" * n + "; import m\n"
    if shape == "mixed":
        return "import os\nT = " + " - ".join("a.b(v%d)[%d]" % (i, i) for i in range(n)) + "\n"
    if shape == "paren":
        return "import os\nT = " + "(" * n + "1" + ")" * n + "\nfrom m import x\n"
    if shape == "call":
        return "import os\nT = " + "f(" * n + "os" + ")" * n + "\n"
    if shape == "list":
        return "import os\nT = " + "[" * n + "os" + "]" * n + "; import m\n"
    if shape == "longline":
        return "import os\nS = '" + "x" * n + "'; import m\nL = [" + ", ".join("n%d" % i for i in range(n // 8)) + "]  # " + "c" * 500 + "\n"
    if shape == "statements":
        return "".join("v%d = os.x%d\n" % (i, i) if i % 50 else "import m%d\n" % i for i in range(n)) + "import os\n"
    if shape == "imports":
        return "".join("from pkg%d.sub import name%d as alias%d\n" % (i % 17, i, i) for i in range(n)) + "alias3\n"
    if shape == "blocks":
        return "".join("import mod%d\nmod%d.f()\n" % (i, i if i % 3 else i + 1) for i in range(n))
    if shape == "dotted":
        name = ".".join("component%d" % i for i in range(n))
        return "import %s\nfrom %s import leaf as l\n%s.x\n" % (name, name, name)
    raise ValueError(shape)


SIZES = {"sum": (600, 850), "attr": (600, 850), "mixed": (280, 400), "paren": (150, 190), "call": (150, 190), "list": (150, 190),
         "longline": (20000, 60000), "statements": (800, 3000), "imports": (300, 900), "blocks": (150, 400), "dotted": (40, 120)}


def gen_size_case(r, i):
    shape = r.choice(sorted(SIZES))
    lo, hi = SIZES[shape]
    kind = r.choice(["reformat", "tidy", "transform"])
    if kind == "tidy" and shape in ("sum", "mixed"):
        lo, hi = 300, 450          # the scope analysis of tidy spends two frames per operator level: ~480 on the agreed tree (F43)
    n = r.randint(lo, hi)
    c = {"kind": kind, "stream": "size", "oracle_only": True, "i": i, "size": [shape, n], "src": size_src(shape, n),
         "db": "import os\n", "flags": dict(T), "params": r.choice([None, {"max_line_length": 40}])}
    if kind == "transform":
        c["tmap"] = [["m", "mm"]]
    return c


# black mode (oracle only; the formatter model does not cover it): pyproject.toml [tool.black] tables
def gen_black_case(r, i):
    tbl = {}
    if r.random() < .7:
        tbl["line-length"] = r.choice([40, 60, 79, 88, 120])
    k = r.random()
    if k < .35:
        tbl["target-version"] = [r.choice(["py38", "py39", "py311", "py312"])]
    elif k < .6:
        tbl["target-version"] = sorted(r.sample(["py38", "py39", "py310", "py311", "py312"], 2))
    elif k < .7:
        tbl["target-version"] = r.choice(["py39", "py312"])                  # a plain string is accepted too
    if r.random() < .4:
        tbl["skip-string-normalization"] = r.random() < .5
    if r.random() < .3:
        tbl["skip-magic-trailing-comma"] = r.random() < .5
    if r.random() < .2:
        tbl["preview"] = True
    par = dict(r.choice([{}, {"max_line_length": 60}, {"align_imports": False}, {"separate_from_imports": False, "from_spaces": 3}]), use_black=True)
    return {"kind": r.choice(["reformat", "tidy", "tidy"]), "stream": "black", "oracle_only": True, "i": i, "src": S.gen_layout_src(r),
            "db": r.choice(S.DBS), "flags": S.gen_flags(r), "params": par, "pyproject": tbl if r.random() < .9 else None}


T = {"add_missing": True, "remove_unused": True, "add_mandatory": True}
WITNESSES = [
    {"kind": "tidy", "w": "F9", "src": '"""doc"""\n"second"\nx = 1\n', "db": S.DBS[2], "flags": T, "params": None},
    {"kind": "tidy", "w": "F23", "src": "import a\nx = 1; import b\na\n", "db": "", "flags": T, "params": None},
    {"kind": "tidy", "w": "F24", "src": "from m import np\nnp\n", "db": "__mandatory_imports__=['import numpy as np']\n", "flags": T, "params": None},
    {"kind": "tidy", "w": "F28", "src": "x = 1; import b\nif x:\n    pass\n", "db": "", "flags": T, "params": None},
    {"kind": "tidy", "w": "F35", "src": "import a\na\n", "db": S.DBS[4], "flags": T, "params": None},
    {"kind": "tidy", "w": "F37", "src": "import os\nos.x\ndel os\nos.y\n", "db": "import os\n", "flags": T, "params": None},
    {"kind": "tidy", "w": "F38", "src": "# only a comment", "db": S.DBS[2], "flags": T, "params": None},
    {"kind": "tidy", "w": "F38", "src": '"""doc"""', "db": S.DBS[2], "flags": T, "params": None},
    {"kind": "tidy", "w": "F8b", "src": "os.x; import a\na\n", "db": "import os\n", "flags": T, "params": None},
    {"kind": "transform", "w": "F36", "src": "from ab.a import x as ab\nab\n", "db": "", "flags": T, "params": None, "tmap": [["ab", "p.q"]]},
    {"kind": "tidy", "w": "F39", "src": "from a.b import os\nx = 1\nimport m\nm\nos\n", "db": "__mandatory_imports__=['import os']\n", "flags": T, "params": None},
    {"kind": "tidy", "w": "F40", "src": "b'x'\nos\n", "db": "import os\n__mandatory_imports__=['from __future__ import division']\n", "flags": T, "params": None},
    {"kind": "tidy", "w": "F41", "src": "from __future__ import annotations\nfrom foo import annotations\nannotations\n", "db": "", "flags": T, "params": None},
    {"kind": "reformat", "w": "F41", "src": "from __future__ import annotations\nfrom foo import annotations\nannotations\n", "db": "", "flags": T, "params": None},
    {"kind": "tidy", "w": "F42", "src": "import os\n'string'\nx = 1\n", "db": "", "flags": T, "params": None},
    {"kind": "tidy", "w": "F23b", "src": "import os as x\ndef f(): import sys as x\nx.getcwd()\n", "db": "", "flags": T, "params": None},
    {"kind": "reformat", "w": "uniform", "src": "from __future__ import division\nimport IPython\nfrom PIL import X\nimport _a\n", "db": "", "flags": T,
     "params": {"separate_from_imports": False, "align_future": True}},
    {"kind": "tidy", "w": "F34b", "src": "class F:\n    d.x\n    (lambda b: {f for e in d})\nimport keyword as d\n", "db": "from m import d\n", "flags": T, "params": None},
    {"kind": "tidy", "w": "utf8-3byte", "src": 's = "\u65e5\u672c\u8a9e"; import os; print(os, s)\n', "db": "", "flags": T, "params": None},
    {"kind": "reformat", "w": "utf8-4byte", "src": 's = "\U0001f600"; import os, sys; print(os, s)  # \u201cq\u201d\n', "db": "", "flags": T, "params": None},
    {"kind": "tidy", "w": "ident-marks", "src": "\u0928\u093e\u092e = 1\nparal\u00b7lel.x\nimport \u0e0a\u0e37\u0e48\u0e2d\n\u0e0a\u0e37\u0e48\u0e2d.y\n", "db": S.DB_UNI, "flags": T, "params": None},
    {"kind": "tidy", "w": "F43", "oracle_only": True, "stream": "size", "src": size_src("sum", 520), "db": "", "flags": T, "params": None},
    {"kind": "reformat", "w": "deep", "oracle_only": True, "stream": "size", "src": size_src("sum", 900), "db": "", "flags": T, "params": None},
    {"kind": "transform", "w": "deep", "oracle_only": True, "stream": "size", "src": size_src("attr", 900), "db": "", "flags": T, "params": None, "tmap": [["m", "mm"]]},
    {"kind": "tidy", "w": "F44", "src": "import os\nfoo()  # type: int\nos\n", "db": "", "flags": T, "params": None},
    {"kind": "reformat", "w": "F44", "src": "import os\nprint(1)  # type: whatever (\n", "db": "", "flags": T, "params": None},
    {"kind": "tidy", "w": "F45", "src": "x = 1; \\\nimport foo\ny = 2\n", "db": "", "flags": T, "params": None},
    {"kind": "tidy", "w": "F45", "src": "x = 1; \\\nimport foo\n", "db": "", "flags": T, "params": None},
    {"kind": "tidy", "w": "empty-docstring", "src": '""\nx = 1\n', "db": S.DBS[2], "flags": T, "params": None},
    {"kind": "tidy", "w": "empty-docstring", "src": "\'\'\'\'\'\'\nos.x\n", "db": "import os\n", "flags": T, "params": None},
    {"kind": "tidy", "w": "empty-docstring", "src": '# c\n"" ""\nos.x\n', "db": "import os\n__mandatory_imports__=['from __future__ import division']\n", "flags": T, "params": None},
    {"kind": "tidy", "w": "empty-docstring", "src": 'r"   "\nos.x\n', "db": "import os\n", "flags": T, "params": None},
    {"kind": "tidy", "w": "F46", "src": "x = 1\nimport __future__\n__future__\n", "db": "__mandatory_imports__=['from __future__ import division']\n", "flags": T, "params": None},
    # (oracle only: the ValueError comes from CompilerFlags while the first pass's output is re-read, outside the model)
    {"kind": "tidy", "w": "F47", "oracle_only": True, "stream": "witness", "src": "import __future__.foo as bar\nbar\n", "db": "", "flags": T, "params": None},
    {"kind": "reformat", "w": "F47", "src": "import __future__.foo as bar\nbar\n", "db": "", "flags": T, "params": None},
    {"kind": "tidy", "w": "F16", "src": "import os.path\nprint(os.getcwd())\n", "db": "import os\n", "flags": T, "params": None},
    {"kind": "tidy", "w": "F34", "src": "from os import sep as b\ndef f():\n    return b\nfrom os import pardir as b\nprint(f())\n", "db": "", "flags": T, "params": None},
]
for _w in WITNESSES:
    _w.setdefault("stream", "witness")


# ---------------------------------------------------------------------------------------------
# implementation side

def _compiles(src):
    import warnings
    try:
        with warnings.catch_warnings():
            warnings.simplefilter("ignore")
            compile(src, "<out>", "exec", dont_inherit=True)
        return None
    except SyntaxError as e:
        return "%s (line %s)" % (e.msg, e.lineno)


def _doc(src):
    try:
        return ast.get_docstring(ast.parse(src), clean=False)
    except SyntaxError:
        return "<<unparsable>>"


def _cli(c):
    """bin/tidy-imports --print on a scratch file, database through PYFLYBY_PATH."""
    d = tempfile.mkdtemp(prefix="verif-c03-")
    try:
        path = os.path.join(d, "mod.py")
        with open(path, "w") as f:
            f.write(c["src"])
        dbp = os.path.join(d, "db", "known.py")
        os.makedirs(os.path.dirname(dbp))
        with open(dbp, "w") as f:
            f.write(c.get("db", ""))
        env = dict(os.environ, PYFLYBY_PATH=dbp, PYFLYBY_LOG_LEVEL="ERROR")
        p = subprocess.run([sys.executable, os.path.join(os.environ["VERIF_REPO"], "bin", "tidy-imports"), "--print", path],
                           stdin=subprocess.DEVNULL, stdout=subprocess.PIPE, stderr=subprocess.PIPE, text=True, env=env,
                           cwd=d, timeout=25)
        return {"rc": p.returncode, "stdout": p.stdout, "stderr": p.stderr[-600:].replace(d, "<tmp>")}
    finally:
        shutil.rmtree(d, ignore_errors=True)


BLACK_SCRIPT = ("import sys, json\nfrom harness import c04_s2s as S\nc = json.load(sys.stdin)\n"
                "a = S.run_tool(c['kind'], c['src'], c['db'], c['flags'], c['params'], c.get('tmap'))\n"
                "b = S.run_tool(c['kind'], a['out'], c['db'], c['flags'], c['params'], c.get('tmap')) if a.get('out') is not None else None\n"
                "print(json.dumps({'first': a, 'second': b}))\n")


def _toml(tbl):
    def v(x):
        if isinstance(x, bool):
            return "true" if x else "false"
        if isinstance(x, list):
            return "[" + ", ".join(v(y) for y in x) + "]"
        return json.dumps(x)
    return "[tool.black]\n" + "".join("%s = %s\n" % (k, v(x)) for k, x in tbl.items())


def impl_oracle_only(c):
    """size / black streams: no capture; black runs in a process of its own whose cwd holds the pyproject.toml
    (black memoises the project root per process)"""
    res = {"kind": c["kind"], "doc_in": _doc(c["src"])}
    if c["stream"] == "black":
        d = tempfile.mkdtemp(prefix="verif-c03-black-")
        try:
            with open(os.path.join(d, ".git"), "w"):          # makes d the project root for black's search
                pass
            if c.get("pyproject") is not None:
                with open(os.path.join(d, "pyproject.toml"), "w") as f:
                    f.write(_toml(c["pyproject"]))
            env = dict(os.environ, PYTHONPATH=os.environ.get("PYTHONPATH", ""))
            p = subprocess.run([sys.executable, "-c", BLACK_SCRIPT], input=json.dumps(c), stdout=subprocess.PIPE, stderr=subprocess.PIPE,
                               text=True, cwd=d, env=env, timeout=50)
            try:
                r = json.loads(p.stdout.strip().split("\n")[-1])
            except Exception:
                r = {"first": {"exc": "subprocess failed", "msg": p.stderr[-300:]}, "second": None}
        finally:
            shutil.rmtree(d, ignore_errors=True)
        res.update(r["first"])
        res["second"] = r["second"]
    else:
        res.update(S.run_tool(c["kind"], c["src"], c.get("db", ""), dict(c.get("flags") or {}), c.get("params"), c.get("tmap")))
        if res.get("out") is not None:
            res["second"] = S.run_tool(c["kind"], res["out"], c.get("db", ""), dict(c.get("flags") or {}), c.get("params"), c.get("tmap"))
    if res.get("out") is not None:
        res["nocompile"] = _compiles(res["out"])
        res["doc_out"] = _doc(res["out"])
    return res


def impl_case(c):
    if c.get("oracle_only"):
        return impl_oracle_only(c)
    kind = c["kind"]
    cc = dict(c, kind="tidy") if kind == "cli" else c
    res = S.impl_case(cc)
    res["kind"] = kind
    out = res.get("out")
    res["doc_in"] = _doc(c["src"])
    if out is not None:
        res["nocompile"] = _compiles(out)
        res["doc_out"] = _doc(out)
        res["second"] = S.run_tool(cc["kind"], out, cc.get("db", ""), dict(cc.get("flags") or {}), cc.get("params"),
                                   cc.get("tmap"), cc.get("filename"))
    if kind == "cli":
        res["cli"] = _cli(c)
        if out is not None:
            from pyflyby._parse import PythonBlock
            from pyflyby._importdb import ImportDB
            import pyflyby._imports2s as I
            try:
                res["canon"] = I.canonicalize_imports(PythonBlock(out), db=ImportDB(c.get("db", "")),
                                                      params=S._params(c.get("params"))).text.joined
            except Exception as e:
                res["canon_exc"] = type(e).__name__
    return res


# ---------------------------------------------------------------------------------------------
# oracle and known-finding classifiers.  Each classifier accepts only the failure it names (a predicate on the
# failing case AND on what failed); everything else stays a VIOLATION.

def top_imports(src):
    """[(local name, fullname, is __future__)] of the top-level import statements (stdlib ast)."""
    out = []
    for st in ast.parse(src).body:
        if isinstance(st, ast.Import):
            for a in st.names:
                out.append(((a.asname or a.name), a.name, False))
        elif isinstance(st, ast.ImportFrom):
            mod = "." * st.level + (st.module or "")
            for a in st.names:
                out.append(((a.asname or a.name), mod + "." + a.name, mod == "__future__"))
    return out


def future_features(src):
    try:
        return sorted({n for n, f, fut in top_imports(src) if fut})
    except SyntaxError:
        return None


def second_pass_delta(im):
    """(imports the second pass removed, imports it added), as multisets of (local name, fullname)."""
    out, out2 = im.get("out"), (im.get("second") or {}).get("out")
    if out is None or out2 is None:
        return None
    try:
        a, b = top_imports(out), top_imports(out2)
    except SyntaxError:
        return None
    rem, add = list(a), []
    for x in b:
        if x in rem:
            rem.remove(x)
        else:
            add.append(x)
    return rem, add


def _reads_in_deferred_scope(src, name):
    """is `name` read inside a function / lambda body (where the analysis may resolve it at definition time)?"""
    tree = ast.parse(src)
    for node in ast.walk(tree):
        if isinstance(node, (ast.FunctionDef, ast.AsyncFunctionDef, ast.Lambda)):
            body = node.body if isinstance(node.body, list) else [node.body]
            for b in body:
                for n in ast.walk(b):
                    if isinstance(n, ast.Name) and n.id == name and isinstance(n.ctx, ast.Load):
                        return True
    return False


def is_F36(c, im, clause):
    """transform_imports with a one-component OLD and a dotted NEW: the dotted NEW is written into a binding
    position (alias `as p.q`, parameter, keyword): the output does not compile, and it does once every NEW is
    replaced by a plain identifier."""
    if c["kind"] != "transform" or clause != "compiles" or im.get("out") is None:
        return False
    news = [v for k, v in c.get("tmap", []) if "." not in k and "." in v]
    if not news:
        return False
    out = im["out"]
    for k, v in enumerate(news):
        out = out.replace(v, "zz_fresh_%d" % k)
    return _compiles(out) is None


def is_F34(c, im, clause):
    """fixed point only: the second pass only REMOVES imports, each of a name N that another top-level import of
    the first output also binds and that is read inside a function / lambda body (the analysis resolves such a
    read at definition time once N is bound above: DESIGN section 7 F34), and the first pass added or removed
    an import of N (or N was bound twice already)."""
    if c["kind"] not in ("tidy", "cli") or clause != "fixed_point":
        return False
    d = second_pass_delta(im)
    if not d or d[1] or not d[0]:
        return False
    first = top_imports(im["out"])
    for n, f, fut in d[0]:
        if fut or sum(1 for n2, _, _ in first if n2.split(".")[0] == n.split(".")[0]) < 2:
            return False
        if not _reads_in_deferred_scope(im["out"], n.split(".")[0]):
            return False
    return True


def is_F39(c, im, clause):
    """fixed point only: the second pass only removes imports, each binding the local name of a mandatory import
    the first pass ADDED into another block (add_import looks for an existing / conflicting import in the chosen
    block only): the same import once more, or a different one that it shadows."""
    if c["kind"] not in ("tidy", "cli") or clause != "fixed_point":
        return False
    d = second_pass_delta(im)
    if not d or d[1] or not d[0]:
        return False
    added_mand = {a[0][1].split(".")[0]: a[0][0] for a in im.get("adds", []) if a[1] is None and a[2][0] == "added"}
    if c.get("oracle_only") and (c.get("flags") or {}).get("add_mandatory", True):
        # no capture in the oracle-only streams: the mandatory names of the database text that the first output binds
        from . import c04_db as D
        first = {n.split(".")[0] for n, f, fut in top_imports(im["out"])}
        added_mand = {n: None for n in D.effective(c.get("db", ""))[1] if n in first}
    for n, f, fut in d[0]:
        root = n.split(".")[0]
        if root not in added_mand:
            return False
    return True


def ast_depth(src):
    """nesting depth of the deepest expression, computed without recursion"""
    try:
        tree = ast.parse(src)
    except (SyntaxError, RecursionError, MemoryError):
        return 10 ** 6
    best, stack = 0, [(tree, 0)]
    while stack:
        node, d = stack.pop()
        best = max(best, d)
        for ch in ast.iter_child_nodes(node):
            stack.append((ch, d + 1))
    return best


def is_F43(c, im, clause):
    """RecursionError on an expression nested deeper than the recursive walkers can follow with Python's default
    recursion limit: ~480 levels for tidy (scope analysis), ~970 for the other rewriters."""
    if clause != "no_internal_error" or im.get("exc") != "RecursionError":
        return False
    return ast_depth(c["src"]) >= (470 if c["kind"] in ("tidy", "cli") else 950)


def _src_imports_plain_future(src, dotted):
    try:
        body = ast.parse(src).body
    except SyntaxError:
        return False
    for st in body:
        if isinstance(st, ast.Import):
            for a in st.names:
                if (a.name.startswith("__future__.") and a.asname) if dotted else (a.name == "__future__"):
                    return True
    return False


def is_F46(c, im, clause):
    """a plain `import __future__` in an import block after code attracts an added `from __future__ import ...`
    (prefix_match counts the shared first component): the output has a __future__ statement after code, in the
    same run of import statements as the `import __future__`."""
    if clause != "compiles" or "from __future__ imports must occur" not in (im.get("nocompile") or ""):
        return False
    if not _src_imports_plain_future(c["src"], False):
        return False
    try:
        body = ast.parse(im["out"]).body
    except SyntaxError:
        return False
    for k, st in enumerate(body):
        if isinstance(st, ast.ImportFrom) and st.module == "__future__":
            lo = k
            while lo > 0 and isinstance(body[lo - 1], (ast.Import, ast.ImportFrom)):
                lo -= 1
            hi = k
            while hi + 1 < len(body) and isinstance(body[hi + 1], (ast.Import, ast.ImportFrom)):
                hi += 1
            run = body[lo:hi + 1]
            if lo > 0 and any(isinstance(x, ast.Import) and any(a.name == "__future__" for a in x.names) for x in run):
                return True
    return False


def is_F47(c, im, clause):
    """`import __future__.foo as bar` is canonicalised to `from __future__ import foo as bar`, which the tool then takes
    for a real __future__ statement: CompilerFlags raises ValueError (tidy) / the printed statement does not compile."""
    if not _src_imports_plain_future(c["src"], True):
        return False
    if clause == "no_internal_error":
        return im.get("exc") == "ValueError" and "CompilerFlags" in (im.get("msg") or "")
    return clause == "compiles" and "future feature" in (im.get("nocompile") or "")


def is_F41(c, im, clause):
    """a __future__ import and another import with the same local name in one block: ignore_shadowed drops the
    __future__ import (`from __future__ import annotations` + `from foo import annotations`)."""
    if clause != "future_kept":
        return False
    try:
        imps = top_imports(c["src"])
    except SyntaxError:
        return False
    lost = set(future_features(c["src"]) or []) - set(future_features(im.get("out") or "") or [])
    return bool(lost) and all(any(n == x and not fut for n, f, fut in imps) for x in lost)


def is_F42(c, im, clause):
    """the module has no docstring and starts (after comments) with imports followed by a bare string statement;
    every one of those imports is removed, so the string becomes the docstring."""
    if clause != "docstring_kept" or im.get("doc_in") is not None or im.get("doc_out") is None:
        return False
    body = ast.parse(c["src"]).body
    k = 0
    while k < len(body) and isinstance(body[k], (ast.Import, ast.ImportFrom)):
        k += 1
    return (0 < k < len(body) and isinstance(body[k], ast.Expr) and isinstance(body[k].value, ast.Constant)
            and isinstance(body[k].value.value, str) and body[k].value.value == im.get("doc_out"))


CLASSIFIERS = [("F47", is_F47), ("F43", is_F43), ("F36", is_F36), ("F39", is_F39), ("F34", is_F34), ("F41", is_F41), ("F42", is_F42)]


def oracle(c, im):
    """-> list of (clause, detail)"""
    bad = []
    if im.get("exc"):
        bad.append(("no_internal_error", "%s raised %s: %s" % (c["kind"], im["exc"], im.get("msg"))))
        return bad
    out = im.get("out")
    if out is None:
        return bad
    if im.get("nocompile"):
        bad.append(("compiles", "output does not compile: %s" % im["nocompile"]))
        return bad
    if im.get("doc_in") != im.get("doc_out"):
        bad.append(("docstring_kept", "docstring %r became %r" % (im.get("doc_in"), im.get("doc_out"))))
    fin, fout = future_features(c["src"]), future_features(out)
    if fin is not None and fout is not None and not set(fin) <= set(fout):
        bad.append(("future_kept", "__future__ features %r of the input, %r of the output" % (fin, fout)))
    sec = im.get("second") or {}
    if sec.get("exc"):
        bad.append(("fixed_point", "second pass raised %s" % sec["exc"]))
    elif sec.get("out") != out:
        bad.append(("fixed_point", "second pass changes the output"))
    if c["kind"] == "cli":
        cli = im.get("cli") or {}
        want = im.get("canon")
        if want is not None and (cli.get("rc") != 0 or cli.get("stdout") != want):
            bad.append(("cli_equals_pipeline", "bin/tidy-imports --print: rc %s, output differs from the in-process pipeline; stderr %r"
                        % (cli.get("rc"), cli.get("stderr", "")[-200:])))
    return bad


def classify_known(ctx, c, im, clause):
    """id of the OPEN known finding whose classifier accepts this failure (a `fixed:` entry suppresses nothing)."""
    open_ids = {e["id"] for e in ctx.open_findings()}
    for fid, pred in CLASSIFIERS:
        if fid in open_ids and pred(c, im, clause):
            return fid
    return None


# ---------------------------------------------------------------------------------------------

def check_cases(ctx, cases):
    impl = cm.run_impl("c03", "impl_case", cases, timeout_case=60)
    mcases = [dict(c, kind="tidy") if c["kind"] == "cli" else c for c in cases]
    main, attrs, ne = S.evaluate_models(mcases, impl)
    for c, mc, im, mv, av in zip(cases, mcases, impl, main, attrs):
        if "__exc__" in im or "__timeout__" in im:
            ctx.disagreement("harness:implementation-side capture failed", c, im, None)
            continue
        S.compare(ctx, mc, im, mv, av, c["kind"])
        S.count_kinds(ctx, c, im)
        nontriv = any(b["k"] == "I" for s in (im.get("snaps") or [])[:1] for b in s["blocks"]) or bool(im.get("adds"))
        ctx.count(c, nontriv)
        for clause, detail in oracle(c, im):
            fid = classify_known(ctx, c, im, clause)
            if fid:
                ctx.known_hit(fid, "%s: %s" % (clause, detail))
                ctx.bump("known:" + fid)
            else:
                ctx.violation(clause, c, detail)
        ctx.bump("stream:" + str(c.get("stream")))
        if nontriv and not c.get("oracle_only"):
            ctx.sample({"kind": c["kind"], "src": c["src"], "out": im.get("out")}, limit=3)
    return ne


def run(ctx):
    n = int(os.environ.get("VERIF_N", 600 if ctx.quick else 15000))
    ctx.coverage["rule"] = ("layout-rich generated modules (docstring/comment prologues, `;` joins, trailing comments, imports after code, "
                            "imports sharing a line with other statements, prologue-only files, missing final newline, very long dotted "
                            "names) x 7 databases (unique / ambiguous / absent / dotted / alias entries, one or two mandatory imports incl. "
                            "__future__) x 5 formatting parameter sets x flag combinations; tools: tidy 50%, reformat, replace_star, "
                            "remove_broken, transform (4 maps), bin/tidy-imports --print 5%; non-trivial = the module has a top-level "
                            "import block or the tool added an import")
    ctx.assumptions += [
        "open mode (DESIGN 3.6): block decomposition (M2), ImportSet.pretty_print per import set (M4), scan_for_import_issues (M7), "
        "database answers, ModuleHandle.exports, exec of single imports, Import.replace and the re.sub body substitution are "
        "taken from the same run; the hypotheses about them are evaluated on every case",
    ]
    ctx.notes["trusted_base"] = ["CPython's compile() as the judge of 'compiles', stdlib ast.get_docstring"]
    cm.check_anchors(ctx, S.ANCHORS)
    n *= getattr(ctx, "scale", 1)
    cases = cm.load_corpus("C03") + WITNESSES + gen_cases(ctx, n)
    ne = 0
    for k in range(0, len(cases), 4000):
        ne += check_cases(ctx, cases[k:k + 4000])
    ctx.notes["model_evaluations_in_kernel"] = ne
    ctx.notes["open_mode_cases"] = len(cases)
    ctx.notes["closed_mode_cases"] = 0


def replay(payload):
    case = payload.get("case") or payload["disagreements"][0]["case"]
    impl = cm.run_impl("c03", "impl_case", [case], jobs=1, timeout_case=60)
    mc = dict(case, kind="tidy") if case["kind"] == "cli" else case
    main, attrs, _ = S.evaluate_models([mc], impl)
    im = impl[0]
    print(json.dumps({"case": case,
                      "impl": {k: im.get(k) for k in ("out", "exc", "msg", "nocompile", "second", "adds", "cli")},
                      "model": main[0], "oracle": oracle(case, im) if "__exc__" not in im else None,
                      "classified": [[cl, [fid for fid, pred in CLASSIFIERS if pred(case, im, cl)]] for cl, _ in
                                     (oracle(case, im) if "__exc__" not in im else [])]}, indent=1))
    return 0

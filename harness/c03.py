"""C03 - rewriter output always compiles and is a fixed point.

Correspondence (open mode): reformat_import_statements, fix_unused_and_missing_imports (all flag combinations),
replace_star_imports, remove_broken_imports, transform_imports - complete output text and the class of the internal
error raised vs Tidy/Fix.v fed with the captured block decomposition, renderings, analysis result, database
answers; plus a sample of real `bin/tidy-imports --print` runs against the same in-process pipeline.
Oracle (independent of the model): no exception, compile(output) under the module's own __future__ statements,
ast.get_docstring equality, tool(tool(x)) == tool(x)."""
import ast
import json
import os
import shutil
import subprocess
import sys
import tempfile

from . import common as cm
from . import c04_s2s as S

TMAPS = [[["pkg.sub", "newpkg.s"], ["m", "mm"]], [["os.path", "ospath2"]], [["a", "aa.bb"]], [["keyword", "kw"]]]


def gen_cases(ctx, n):
    cases = []
    for i in range(n):
        r = cm.rng(ctx.seed, "c03", i)
        k = i % 20
        kind = ("tidy" if k < 10 else "reformat" if k < 12 else "star" if k < 14 else "broken" if k < 16
                else "transform" if k < 19 else "cli")
        c = {"kind": kind, "stream": "layout", "i": i, "src": S.gen_layout_src(r), "db": r.choice(S.DBS),
             "flags": S.gen_flags(r), "params": r.choice(S.PARAMS)}
        if kind == "transform":
            c["tmap"] = r.choice(TMAPS)
        if kind == "cli":
            c["params"] = {"align_imports": [32], "from_spaces": 3, "separate_from_imports": False}   # the CLI's defaults
            c["flags"] = {"add_missing": True, "remove_unused": "AUTOMATIC", "add_mandatory": True}
        if kind == "tidy" and r.random() < .1:
            c["filename"] = r.choice(["/nonexistent-verif/pkgdir/__init__.py", "/nonexistent-verif/.pyflyby/x.py"])
        cases.append(c)
    return cases


T = {"add_missing": True, "remove_unused": True, "add_mandatory": True}
WITNESSES = [
    {"kind": "tidy", "w": "F9", "src": '"""doc"""\n"second"\nx = 1\n', "db": S.DBS[2], "flags": T, "params": None},
    {"kind": "tidy", "w": "F23", "src": "import a\nx = 1; import b\na\n", "db": "", "flags": T, "params": None},
    {"kind": "tidy", "w": "F24", "src": "from m import np\nnp\n", "db": "__mandatory_imports__=['import numpy as np']\n", "flags": T, "params": None},
    {"kind": "tidy", "w": "F28", "src": "x = 1; import b\nif x:\n    pass\n", "db": "", "flags": T, "params": None},
    {"kind": "tidy", "w": "F35", "src": "import a\na\n", "db": S.DBS[4], "flags": T, "params": None},
    {"kind": "tidy", "w": "F37", "src": "import os\nos.x\ndel os\nos.y\n", "db": "import os\n", "flags": T, "params": None},
    {"kind": "tidy", "w": "F38", "src": "# only a comment", "db": S.DBS[2], "flags": T, "params": None},
    {"kind": "tidy", "w": "F38", "src": '"""doc"""', "db": S.DBS[2], "flags": T, "params": None},
    {"kind": "tidy", "w": "F8b", "src": "os.x; import a\na\n", "db": "import os\n", "flags": T, "params": None},
    {"kind": "transform", "w": "F36", "src": "from ab.a import x as ab\nab\n", "db": "", "flags": T, "params": None, "tmap": [["ab", "p.q"]]},
    {"kind": "tidy", "w": "F39", "src": "from a.b import os\nx = 1\nimport m\nm\nos\n", "db": "__mandatory_imports__=['import os']\n", "flags": T, "params": None},
    {"kind": "tidy", "w": "F16", "src": "import os.path\nprint(os.getcwd())\n", "db": "import os\n", "flags": T, "params": None},
    {"kind": "tidy", "w": "F34", "src": "from os import sep as b\ndef f():\n    return b\nfrom os import pardir as b\nprint(f())\n", "db": "", "flags": T, "params": None},
]
for _w in WITNESSES:
    _w["stream"] = "witness"


# ---------------------------------------------------------------------------------------------
# implementation side

def _compiles(src):
    import warnings
    try:
        with warnings.catch_warnings():
            warnings.simplefilter("ignore")
            compile(src, "<out>", "exec", dont_inherit=True)
        return None
    except SyntaxError as e:
        return "%s (line %s)" % (e.msg, e.lineno)


def _doc(src):
    try:
        return ast.get_docstring(ast.parse(src), clean=False)
    except SyntaxError:
        return "<<unparsable>>"


def _cli(c):
    """bin/tidy-imports --print on a scratch file, database through PYFLYBY_PATH."""
    d = tempfile.mkdtemp(prefix="verif-c03-")
    try:
        path = os.path.join(d, "mod.py")
        with open(path, "w") as f:
            f.write(c["src"])
        dbp = os.path.join(d, "db", "known.py")
        os.makedirs(os.path.dirname(dbp))
        with open(dbp, "w") as f:
            f.write(c.get("db", ""))
        env = dict(os.environ, PYFLYBY_PATH=dbp, PYFLYBY_LOG_LEVEL="ERROR")
        p = subprocess.run([sys.executable, os.path.join(os.environ["VERIF_REPO"], "bin", "tidy-imports"), "--print", path],
                           stdin=subprocess.DEVNULL, stdout=subprocess.PIPE, stderr=subprocess.PIPE, text=True, env=env,
                           cwd=d, timeout=25)
        return {"rc": p.returncode, "stdout": p.stdout, "stderr": p.stderr[-600:].replace(d, "<tmp>")}
    finally:
        shutil.rmtree(d, ignore_errors=True)


def impl_case(c):
    kind = c["kind"]
    cc = dict(c, kind="tidy") if kind == "cli" else c
    res = S.impl_case(cc)
    res["kind"] = kind
    out = res.get("out")
    res["doc_in"] = _doc(c["src"])
    if out is not None:
        res["nocompile"] = _compiles(out)
        res["doc_out"] = _doc(out)
        res["second"] = S.run_tool(cc["kind"], out, cc.get("db", ""), dict(cc.get("flags") or {}), cc.get("params"),
                                   cc.get("tmap"), cc.get("filename"))
    if kind == "cli":
        res["cli"] = _cli(c)
        if out is not None:
            from pyflyby._parse import PythonBlock
            from pyflyby._importdb import ImportDB
            import pyflyby._imports2s as I
            try:
                res["canon"] = I.canonicalize_imports(PythonBlock(out), db=ImportDB(c.get("db", "")),
                                                      params=S._params(c.get("params"))).text.joined
            except Exception as e:
                res["canon_exc"] = type(e).__name__
    return res


# ---------------------------------------------------------------------------------------------
# oracle and known-finding classifiers

def is_F36(c, im):
    """transform_imports with a one-component OLD and a dotted NEW: Import.replace renames an alias equal to OLD
    (`... as p.q`) and the textual body substitution writes the dotted NEW into binding positions (parameter,
    keyword, alias)."""
    if c["kind"] != "transform":
        return False
    return any("." not in k and "." in v for k, v in c.get("tmap", []))


def is_F16(c, im):
    """tidy removed a plain dotted import whose package name is still read (C02's finding): not a fixed point."""
    sc = im.get("scan") or {}
    return any("." in f and f == a for _, (f, a) in sc.get("unused", []))


def is_F34(c, im):
    """the analysis resolves a read inside a function / class body / lambda at definition time when the name is
    already bound (C02's finding): adding or removing an import changes what the next pass sees."""
    if not (im.get("adds") or (im.get("scan") or {}).get("unused")):
        return False
    try:
        tree = ast.parse(c["src"])
    except SyntaxError:
        return False
    return any(isinstance(n, (ast.FunctionDef, ast.Lambda, ast.ClassDef)) for n in ast.walk(tree))


def is_F39(c, im):
    """a mandatory import whose local name a DIFFERENT import of another import block already binds is added
    anyway (add_import only looks at the chosen block): it shadows the other import, which the next pass removes."""
    if not (c.get("flags") or {}).get("add_mandatory", True):
        return False
    snaps = im.get("snaps") or []
    if len(snaps) < 2:
        return False
    bound = [(f, a) for b in snaps[1]["blocks"] if b["k"] == "I" for f, a in b["imports"]]
    for mf, ma in im.get("mandatory", []):
        if ma != "*" and any(a.split(".")[0] == ma.split(".")[0] and f != mf for f, a in bound):
            return True
    return False


def oracle(c, im):
    """-> list of (clause, detail)"""
    bad = []
    if im.get("exc"):
        bad.append(("no_internal_error", "%s raised %s: %s" % (c["kind"], im["exc"], im.get("msg"))))
        return bad
    out = im.get("out")
    if out is None:
        return bad
    if im.get("nocompile"):
        bad.append(("compiles", "output does not compile: %s" % im["nocompile"]))
        return bad
    if im.get("doc_in") != im.get("doc_out"):
        bad.append(("docstring_kept", "docstring %r became %r" % (im.get("doc_in"), im.get("doc_out"))))
    sec = im.get("second") or {}
    if sec.get("exc"):
        bad.append(("fixed_point", "second pass raised %s" % sec["exc"]))
    elif sec.get("out") != out:
        bad.append(("fixed_point", "second pass changes the output"))
    if c["kind"] == "cli":
        cli = im.get("cli") or {}
        want = im.get("canon")
        if want is not None and (cli.get("rc") != 0 or cli.get("stdout") != want):
            bad.append(("cli_equals_pipeline", "bin/tidy-imports --print: rc %s, output differs from the in-process pipeline; stderr %r"
                        % (cli.get("rc"), cli.get("stderr", "")[-200:])))
    return bad


def classify_known(c, im, clause):
    if c["kind"] == "transform" and clause in ("compiles", "fixed_point", "no_internal_error") and is_F36(c, im):
        return "F36"
    if c["kind"] in ("tidy", "cli") and clause == "fixed_point":
        if is_F16(c, im):
            return "F16"
        if is_F39(c, im):
            return "F39"
        if is_F34(c, im):
            return "F34"
    return None


# ---------------------------------------------------------------------------------------------

def check_cases(ctx, cases):
    impl = cm.run_impl("c03", "impl_case", cases, timeout_case=60)
    mcases = [dict(c, kind="tidy") if c["kind"] == "cli" else c for c in cases]
    main, attrs, ne = S.evaluate_models(mcases, impl)
    for c, mc, im, mv, av in zip(cases, mcases, impl, main, attrs):
        if "__exc__" in im or "__timeout__" in im:
            ctx.disagreement("harness:implementation-side capture failed", c, im, None)
            continue
        S.compare(ctx, mc, im, mv, av, c["kind"])
        S.count_kinds(ctx, c, im)
        nontriv = any(b["k"] == "I" for s in (im.get("snaps") or [])[:1] for b in s["blocks"]) or bool(im.get("adds"))
        ctx.count(c, nontriv)
        for clause, detail in oracle(c, im):
            fid = classify_known(c, im, clause)
            if fid:
                ctx.known_hit(fid, "%s: %s" % (clause, detail))
                ctx.bump("known:" + fid)
            else:
                ctx.violation(clause, c, detail)
        if c["kind"] == "transform" and im.get("out") is not None and not im.get("nocompile") and is_F36(c, im):
            pass
        if nontriv:
            ctx.sample({"kind": c["kind"], "src": c["src"], "out": im.get("out")}, limit=3)
    return ne


def run(ctx):
    n = int(os.environ.get("VERIF_N", 600 if ctx.quick else 20000))
    ctx.coverage["rule"] = ("layout-rich generated modules (docstring/comment prologues, `;` joins, trailing comments, imports after code, "
                            "imports sharing a line with other statements, prologue-only files, missing final newline, very long dotted "
                            "names) x 7 databases (unique / ambiguous / absent / dotted / alias entries, one or two mandatory imports incl. "
                            "__future__) x 5 formatting parameter sets x flag combinations; tools: tidy 50%, reformat, replace_star, "
                            "remove_broken, transform (4 maps), bin/tidy-imports --print 5%; non-trivial = the module has a top-level "
                            "import block or the tool added an import")
    ctx.assumptions += [
        "open mode (DESIGN 3.6): block decomposition (M2), ImportSet.pretty_print per import set (M4), scan_for_import_issues (M7), "
        "database answers, ModuleHandle.exports, exec of single imports, Import.replace and the re.sub body substitution are "
        "taken from the same run; the hypotheses about them are evaluated on every case",
        "inputs contain no self-documenting f-strings and no PEP 695 syntax (F32/F33, statement splitter), and the checked tree "
        "carries the F2/F25 fix (plain / star imports are never parenthesised)",
    ]
    ctx.notes["trusted_base"] = ["CPython's compile() as the judge of 'compiles', stdlib ast.get_docstring"]
    cases = cm.load_corpus("C03") + WITNESSES + gen_cases(ctx, n)
    ne = 0
    for k in range(0, len(cases), 4000):
        ne += check_cases(ctx, cases[k:k + 4000])
    ctx.notes["model_evaluations_in_kernel"] = ne
    ctx.notes["open_mode_cases"] = len(cases)
    ctx.notes["closed_mode_cases"] = 0


def replay(payload):
    case = payload.get("case") or payload["disagreements"][0]["case"]
    impl = cm.run_impl("c03", "impl_case", [case], jobs=1, timeout_case=60)
    mc = dict(case, kind="tidy") if case["kind"] == "cli" else case
    main, attrs, _ = S.evaluate_models([mc], impl)
    im = impl[0]
    print(json.dumps({"case": case,
                      "impl": {k: im.get(k) for k in ("out", "exc", "msg", "nocompile", "second", "adds", "cli")},
                      "model": main[0], "oracle": oracle(case, im) if "__exc__" not in im else None}, indent=1))
    return 0

"""C04 - tidy-imports leaves nothing fixable behind and never guesses.

Correspondence (open mode): fix_unused_and_missing_imports on generated executable modules x databases, complete
output text / internal error class / add_import log / final import sets vs Tidy/Fix.v fed with the captured
block decomposition, renderings, analysis result and database answers.
Oracle (independent of the model): run the output under a synthetic import universe and collect the names that
are unbound when read; names with a unique database entry must be bound, ambiguous / unknown names must not have
been imported, and no top-level import whose name is never read may remain."""
import ast
import json
import os

from . import common as cm
from . import c04_s2s as S

ANCHORS = S.ANCHORS

# ---------------------------------------------------------------------------------------------
# the synthetic universe and the database over it

DB_EXEC = ("import numpy as np\nimport osx\nfrom pkg import b, c\nfrom m import d\nfrom n import e\n"
           "from pkg.sub import e\nimport pkg.sub as f\nimport pkg.util\nimport aa.bb\n")
DB_EXEC_MAND = DB_EXEC + "__mandatory_imports__=['from __future__ import division']\n"
DB_EXEC_MAND2 = DB_EXEC + "__mandatory_imports__=['from __future__ import division', 'import osx']\n"
# a second universe in which other names are the ambiguous / unique ones
DB_EXEC2 = ("import numpy as np\nfrom pkg import b\nfrom n import b\nfrom qq import b\nfrom pkg.sub import c\nfrom n import c\n"
            "from n import e\nimport osx\nfrom m import d\nfrom qq.sub import d\nimport pkg.sub as f\n")


# a third universe: identifiers with combining marks / U+00B7 as missing names, 3- and 4-byte characters in strings
U_NAM, U_PAR = "\u0928\u093e\u092e", "paral\u00b7lel"
DB_EXEC_U = DB_EXEC + "import %s\nfrom pkg import %s\n" % (U_NAM, U_PAR)
U_STR = ["\u65e5\u672c\u8a9e", "\u20ac", "\u201cq\u201d", "\U0001f600", "\U0001d4b3"]


def db_index(dbtext):
    """local name -> list of full names the database offers for it; read with stdlib ast, not with pyflyby."""
    idx = {}
    for st in ast.parse(dbtext).body:
        if isinstance(st, ast.Import):
            for a in st.names:
                idx.setdefault(a.asname or a.name, []).append(a.name)
        elif isinstance(st, ast.ImportFrom):
            for a in st.names:
                idx.setdefault(a.asname or a.name, []).append((st.module or "") + "." + a.name)
    return idx


def db_mandatory(dbtext):
    for st in ast.parse(dbtext).body:
        if isinstance(st, ast.Assign) and getattr(st.targets[0], "id", None) == "__mandatory_imports__":
            out = set()
            for s in ast.literal_eval(st.value):
                for b in ast.parse(s).body:
                    for a in b.names:
                        out.add((a.asname or a.name).split(".")[0])
            return out
    return set()


UNIQUE = {"np": ("numpy", "np"), "osx": ("osx", "osx"), "b": ("pkg.b", "b"), "c": ("pkg.c", "c"), "d": ("m.d", "d"),
          "f": ("pkg.sub", "f")}
AMBIG = {"e"}
UNKNOWN = {"g", "zz", "pkg", "aa"}          # `import pkg.util` / `import aa.bb` are looked up by first component only
ROOTS = ("numpy", "osx", "pkg", "m", "n", "aa", "qq", "\u0928\u093e\u092e")
LOCALS = ["v1", "v2", "v3"]


def use(r, pool=None):
    n = r.choice(pool or (list(UNIQUE) * 3 + list(AMBIG) + ["g", "zz", "pkg.util", "aa.bb"] + LOCALS))
    if n in LOCALS:
        return n
    for _ in range(r.choice([0, 1, 1, 2])):
        n += "." + r.choice(["x", "y", "sub", "path"])
    if r.random() < .25:
        n += "(%s)" % (use(r, pool) if r.random() < .5 else "1")
    return n


def existing_import(r):
    return r.choice(["import qq", "import qq.sub", "from qq import zq", "import qq.sub as qs", "import numpy as np",
                     "import osx", "from pkg import b", "from m import d, d2", "import pkg.sub as f", "from n import e",
                     "from qq import zr, zs", "import pkg.util", "from pkg import c as c", "from n import zq2", "from pkg.sub import zq3",
                     "from qq.sub import zq4", "from pkg import zq5"])


def gen_exec(r, uni=False):
    lines = []
    pool = (list(UNIQUE) * 2 + [U_NAM, U_PAR] * 3 + list(AMBIG) + ["g", "zz"] + LOCALS) if uni else None
    k = r.random()
    if k < .2:
        lines.append('"""doc"""')
    elif k < .3:
        lines += ['"""doc"""', '"second"']
    elif k < .4:
        lines += ["#!/usr/bin/python", "# comment", ""]
    elif k < .5:
        lines.append("from __future__ import division")
    elif k < .55:
        lines += ['"""doc"""', "from __future__ import annotations"]
    defs = []
    for _ in range(r.randint(2, 8)):
        k = r.random()
        if uni and r.random() < .35:
            s = r.choice(U_STR)
            lines.append(r.choice(['v1 = "%s"; %s; v2 = %s' % (s, existing_import(r), use(r, pool)),
                                   '%s  # %s' % (existing_import(r), s),
                                   'v3 = "%s"; %s  # %s' % (s, use(r, pool), s),
                                   '"%s"; %s' % (s, existing_import(r)),
                                   '%s; v1 = "%s"' % (use(r, pool), s)]))
            continue
        if k < .25:
            for _ in range(r.randint(1, 3)):
                lines.append(existing_import(r) + ("  # note" if r.random() < .1 else ""))
        elif k < .45:
            lines.append("%s = %s" % (r.choice(LOCALS), use(r, pool)))
        elif k < .55:
            lines.append(use(r, pool))
        elif k < .65:
            fn = "fn%d" % len(defs)
            defs.append(fn)
            lines += ["def %s(p=1):" % fn, "    q = %s" % use(r, pool), "    return %s" % use(r, pool)]
        elif k < .72:
            # (a read in a class body proper bypasses the recording globals dict: only methods read names)
            kn = "K%d" % len(lines)
            lines += ["class %s:" % kn, "    z = 1", "    def meth(self):", "        return %s" % use(r, pool)]
            defs.append(kn + "().meth")
        elif k < .80:
            a = r.choice([use(r, pool), "v1 = 1", existing_import(r)])
            b = r.choice([existing_import(r), use(r, pool)])
            lines.append("%s; %s" % (a, b))
            if r.random() < .3:
                lines += ["if v1:", "    pass"]
        elif k < .86:
            lines += ["if %s:" % r.choice(LOCALS), "    %s" % use(r, pool), "else:", "    pass"]
        elif k < .91:
            lines.append("v2 = (%s +\n      %s)" % (use(r, pool), use(r, pool)))
        elif k < .95:
            lines.append(r.choice(["", "# comment", "    # indented comment"]))
        else:
            lines.append("v3 = [%s for i in [1, 2]]" % use(r, pool))
    # function bodies run after the last module-level statement (the domain of the scope analysis, DESIGN C02/C05)
    lines += ["%s()" % fn for fn in defs if r.random() < .7]
    src = "\n".join(lines)
    if r.random() < .9:
        src += "\n"
    return src


def gen_cases(ctx, n):
    cases = []
    for i in range(n):
        r = cm.rng(ctx.seed, "c04", i)
        uni = r.random() < .2
        for _ in range(30):
            src = gen_exec(r, uni)
            if S.compilable(src):
                break
        else:
            src = "np.x\n"
        fl = {"add_missing": True, "remove_unused": True, "add_mandatory": True}
        k = i % 10
        if k == 7:
            fl = S.gen_flags(r)
        db = r.choice([DB_EXEC, DB_EXEC, DB_EXEC_MAND, DB_EXEC_MAND2, DB_EXEC2, DB_EXEC2])
        if uni:
            db = DB_EXEC_U
        c = {"kind": "tidy", "stream": "exec-unicode" if uni else "exec", "i": i, "src": src, "db": db, "flags": fl, "params": r.choice(S.PARAMS)}
        if k == 8:
            c["filename"] = r.choice(["/nonexistent-verif/pkgdir/__init__.py", "/nonexistent-verif/.pyflyby/x.py",
                                      "/nonexistent-verif/pkgdir/mod.py"])
            c["flags"] = dict(fl, remove_unused="AUTOMATIC")
        cases.append(c)
    return cases


WITNESSES = [
    # F8: sorted by name, `np.alpha` (line 5) is taken as the use to precede
    {"kind": "tidy", "stream": "witness", "w": "F8", "src": "v1 = 1\nnp.zeta\nimport qq\nqq\nnp.alpha\n", "db": DB_EXEC,
     "flags": {"add_missing": True, "remove_unused": True, "add_mandatory": False}, "params": None},
    # F8b: the only import block starts after the use on the same line
    {"kind": "tidy", "stream": "witness", "w": "F8b", "src": "np.x; import qq\nqq\n", "db": DB_EXEC,
     "flags": {"add_missing": True, "remove_unused": True, "add_mandatory": False}, "params": None},
    # F24: the unique candidate's name is already bound in the chosen block by another import
    {"kind": "tidy", "stream": "witness", "w": "F24", "src": "from qq import np\nnp\nv1 = 1\n", "db": DB_EXEC + "__mandatory_imports__=['import numpy as np']\n",
     "flags": {"add_missing": True, "remove_unused": True, "add_mandatory": True}, "params": None},
    # F35: two mandatory imports, the new top block ties with the existing first block
    {"kind": "tidy", "stream": "witness", "w": "F35", "src": "import qq\nqq\n", "db": DB_EXEC_MAND2,
     "flags": {"add_missing": True, "remove_unused": True, "add_mandatory": True}, "params": None},
    # F23 (second face): the unused LOCAL import's line is the line right after the global block
    {"kind": "tidy", "stream": "witness", "w": "F23b", "src": "import qq as osx\ndef fn(): import qq.sub as osx\nosx.getcwd()\n", "db": DB_EXEC,
     "flags": {"add_missing": True, "remove_unused": True, "add_mandatory": False}, "params": None},
    # never_guess on a file that already imports from one candidate's module
    {"kind": "tidy", "stream": "witness", "w": "guess", "src": "from n import zq2\nzq2\ne.x\nb.y\n", "db": DB_EXEC2,
     "flags": {"add_missing": True, "remove_unused": True, "add_mandatory": False}, "params": None},
    {"kind": "tidy", "stream": "witness", "w": "utf8", "src": 'v1 = "\u65e5\u672c\u8a9e"; import qq; v2 = %s.x  # \U0001f600\n%s.y\n' % (U_NAM, U_PAR), "db": DB_EXEC_U,
     "flags": {"add_missing": True, "remove_unused": True, "add_mandatory": False}, "params": None},
    # F23: unused import in a block that starts on the line where the previous block's text ends
    {"kind": "tidy", "stream": "witness", "w": "F23", "src": "import qq\nv1 = 1; import zz\nqq\n", "db": DB_EXEC,
     "flags": {"add_missing": True, "remove_unused": True, "add_mandatory": False}, "params": None},
]


# ---------------------------------------------------------------------------------------------
# implementation side: capture + execution of input and output under the universe

def _universe():
    import builtins
    import importlib.abc
    import importlib.machinery
    import types

    class V:
        def __init__(s, tag='v'):
            object.__setattr__(s, '_tag', tag)

        def __getattr__(s, n):
            if n.startswith('__') and n.endswith('__'):
                raise AttributeError(n)
            return V(s._tag + '.' + n)

        def __setattr__(s, n, v):
            pass

        def __call__(s, *a, **k):
            return V(s._tag + '()')

        def __iter__(s):
            return iter([V('i'), V('i')])

        def __add__(s, o):
            return V('add')
        __radd__ = __add__

        def __getitem__(s, k):
            return V('[]')

        def __bool__(s):
            return True

        def __truediv__(s, o):
            return V('div')

    class VMod(types.ModuleType):
        def __getattr__(s, n):
            if n.startswith('__'):
                raise AttributeError(n)
            return V(s.__name__ + ':' + n)

        def __call__(s, *a, **k):
            return V(s.__name__ + '()')

        def __add__(s, o):
            return V('add')
        __radd__ = __add__

        def __bool__(s):
            return True

    class Finder(importlib.abc.MetaPathFinder, importlib.abc.Loader):
        def find_spec(self, name, path=None, target=None):
            if name.split('.')[0] in ROOTS:
                return importlib.machinery.ModuleSpec(name, self, is_package=True)

        def create_module(self, spec):
            m = VMod(spec.name)
            m.__path__ = []
            return m

        def exec_module(self, module):
            pass

    class Rec(dict):
        def __init__(s, *a):
            super().__init__(*a)
            s.missing = []

        def __missing__(s, key):
            if hasattr(builtins, key):
                raise KeyError(key)
            s.missing.append(key)
            return V('unbound:' + key)
    return V, Finder, Rec


def run_program(src):
    """Execute src; -> sorted set of global names that were unbound when read, or {"error": ...}."""
    import sys
    import warnings
    V, Finder, Rec = _universe()
    g = Rec({'__name__': 'prog', 'v1': 0, 'v2': 0, 'v3': 0})
    finder = Finder()
    sys.meta_path.insert(0, finder)
    saved = set(sys.modules)
    try:
        with warnings.catch_warnings():
            warnings.simplefilter("ignore")
            code = compile(src, '<prog>', 'exec', dont_inherit=True)
        exec(code, g)
        return {"unbound": sorted(set(g.missing))}
    except Exception as e:
        return {"error": type(e).__name__ + ": " + str(e)[:80]}
    finally:
        sys.meta_path.remove(finder)
        for k in set(sys.modules) - saved:
            del sys.modules[k]


def impl_case(c):
    res = S.impl_case(c)
    res["run_src"] = run_program(c["src"])
    if res.get("out") is not None:
        res["run_out"] = run_program(res["out"])
    return res


# ---------------------------------------------------------------------------------------------
# oracle

def import_bound(src):
    """name -> list of (module/fullname, kind) bound by top-level import statements (stdlib ast)."""
    out = {}
    for st in ast.parse(src).body:
        if isinstance(st, ast.Import):
            for a in st.names:
                out.setdefault((a.asname or a.name).split('.')[0], []).append(("import", a.name, st.lineno))
        elif isinstance(st, ast.ImportFrom):
            for a in st.names:
                if a.name != "*":
                    out.setdefault(a.asname or a.name, []).append(("from", (st.module or "") + "." + a.name, st.lineno))
    return out


def loaded_names(src):
    names = set()
    for node in ast.walk(ast.parse(src)):
        if isinstance(node, ast.Name) and not isinstance(node.ctx, ast.Store):
            names.add(node.id)
    return names


def oracle(c, im):
    """-> list of (clause, detail).  Only for runs with add_missing and remove_unused in force."""
    out = im.get("out")
    if out is None:
        return []
    bad = []
    sc = im.get("scan") or {}
    fl = c.get("flags") or {}
    try:
        before, after = import_bound(c["src"]), import_bound(out)
    except SyntaxError:
        return [("output_parses", "output of tidy does not parse")]
    # never_guess, straight from the output text and the database text: a name the tool newly binds by a
    # top-level import has exactly one database entry and is bound to that entry (or is a mandatory import)
    idx = db_index(c.get("db", ""))
    mand = db_mandatory(c.get("db", "")) if fl.get("add_mandatory", True) else set()
    unique = {n for n, v in idx.items() if len(set(v)) == 1}
    for nme in sorted(set(after) - set(before)):
        if nme in mand:
            continue
        cands = sorted(set(idx.get(nme, [])))
        if len(cands) != 1:
            bad.append(("never_guess", "name %r with %d database candidates %r is imported by the output: %r"
                        % (nme, len(cands), cands, after[nme])))
        elif not any(h[1] == cands[0] or (h[0] == "from" and h[1] == cands[0]) for h in after[nme]):
            bad.append(("never_guess", "name %r is imported as %r, the database says %r" % (nme, after[nme], cands)))
    ro, rs = im.get("run_out"), im.get("run_src")
    if fl.get("add_missing", True) and rs and "unbound" in rs:
        if ro is None or "error" in ro:
            bad.append(("output_runs", "input runs, output fails: %r" % (ro,)))
        else:
            still = sorted(set(ro["unbound"]) & unique & set(rs["unbound"]))
            if still:
                bad.append(("added_before_first_read", "names with a unique database entry are still unbound when read: %r" % still))
            newly = sorted((set(ro["unbound"]) - set(rs["unbound"])) & unique)
            if newly:
                bad.append(("binding_lost", "names bound in the input are unbound in the output: %r" % newly))
    if sc.get("find_unused") and fl.get("add_missing", True):
        loads = loaded_names(out)
        futures = {"division", "annotations", "print_function"}
        for nme, how in sorted(after.items()):
            if nme in loads or nme in mand or nme in futures:
                continue
            if all(h[1].startswith("__future__.") for h in how):
                continue
            bad.append(("no_unused_left", "top-level import of %r is never read in the output: %r" % (nme, how)))
    return bad


def classify_known(c, im, clause, detail):
    """No open known finding of C04 (F16 is fixed in /repo: commit 659d6a0; a fixed entry suppresses nothing)."""
    return None


# ---------------------------------------------------------------------------------------------

def check_cases(ctx, cases, tag="tidy"):
    impl = cm.run_impl("c04", "impl_case", cases, timeout_case=40)
    main, attrs, ne = S.evaluate_models(cases, impl)
    for c, im, mv, av in zip(cases, impl, main, attrs):
        if "__exc__" in im or "__timeout__" in im:
            ctx.disagreement("harness:implementation-side capture failed", c, im, None)
            continue
        S.compare(ctx, c, im, mv, av, tag)
        S.count_kinds(ctx, c, im)
        nontriv = bool(im.get("adds")) or bool((im.get("scan") or {}).get("unused"))
        ctx.count(c, nontriv)
        if im.get("exc"):
            ctx.violation("no_internal_error(C03)", c, {"raised": im["exc"], "msg": im.get("msg")})
            continue
        rs = im.get("run_src") or {}
        ctx.bump("input_runs" if "unbound" in rs else "input_does_not_run")
        for clause, detail in oracle(c, im):
            fid = classify_known(c, im, clause, detail)
            if fid:
                ctx.known_hit(fid, detail)
                ctx.bump("known:" + fid)
            else:
                ctx.violation(clause, c, detail)
        if nontriv:
            ctx.sample({"src": c["src"], "out": im.get("out"), "log": im.get("adds")}, limit=3)
    return ne


def run(ctx):
    n = int(os.environ.get("VERIF_N", 800 if ctx.quick else 15000))
    ctx.coverage["rule"] = ("executable generated modules (prologues, imports before / between / after uses, `;` lines, defs, "
                            "classes, multi-line expressions) x databases over a synthetic universe (unique / ambiguous / absent / "
                            "dotted entries / aliases / mandatory __future__) x flag combinations (10%) x __init__.py/.pyflyby paths (10%); "
                            "non-trivial = the tool added an import or the analysis reported an unused import")
    ctx.assumptions += [
        "open mode (DESIGN 3.6): the block decomposition (M2), ImportSet.pretty_print per import set (M4), the result of "
        "scan_for_import_issues (M7) and the by_import_as / mandatory answers of the database are taken from the same run; "
        "the model's hypotheses about them (texts concatenate, second-pass blocks end with a newline and do not overlap, "
        "no star/__future__ import is reported unused, by_import_as answers carry the asked name) are evaluated on every case",
        "the execution oracle runs input and output under a synthetic import universe in which every import succeeds",
    ]
    ctx.notes["trusted_base"] = ["CPython's compile/exec and stdlib ast as the judge of NameError and of what a top-level import binds"]
    cm.check_anchors(ctx, S.ANCHORS)
    n *= getattr(ctx, "scale", 1)
    cases = cm.load_corpus("C04") + WITNESSES + gen_cases(ctx, n)
    ne = 0
    for k in range(0, len(cases), 4000):
        ne += check_cases(ctx, cases[k:k + 4000])
    ctx.notes["model_evaluations_in_kernel"] = ne
    ctx.notes["open_mode_cases"] = len(cases)
    ctx.notes["closed_mode_cases"] = 0


def replay(payload):
    case = payload.get("case") or payload["disagreements"][0]["case"]
    impl = cm.run_impl("c04", "impl_case", [case], jobs=1)
    main, attrs, _ = S.evaluate_models([case], impl)
    im = impl[0]
    print(json.dumps({"case": case,
                      "impl": {k: im.get(k) for k in ("out", "exc", "msg", "adds", "scan", "run_src", "run_out")},
                      "model": main[0], "oracle": oracle(case, im) if "__exc__" not in im else None}, indent=1))
    return 0

"""C04 - tidy-imports leaves nothing fixable behind and never guesses.

Correspondence (open mode): fix_unused_and_missing_imports on generated executable modules x databases, complete
output text / internal error class / add_import log / final import sets vs Tidy/Fix.v fed with the captured
block decomposition, renderings, analysis result and database answers.
Oracle (independent of the model): run the output under a synthetic import universe and collect the names that
are unbound when read; names with a unique database entry must be bound, ambiguous / unknown names must not have
been imported, and no top-level import whose name is never read may remain."""
import ast
import json
import os

from . import common as cm
from . import c04_s2s as S
from . import c04_db as D

ANCHORS = S.ANCHORS

# ---------------------------------------------------------------------------------------------
# the synthetic universe and the database over it

DB_EXEC = ("import numpy as np\nimport osx\nfrom pkg import b, c\nfrom m import d\nfrom n import e\n"
           "from pkg.sub import e\nimport pkg.sub as f\nimport pkg.util\nimport aa.bb\n")
DB_EXEC_MAND = DB_EXEC + "__mandatory_imports__=['from __future__ import division']\n"
DB_EXEC_MAND2 = DB_EXEC + "__mandatory_imports__=['from __future__ import division', 'import osx']\n"
# a second universe in which other names are the ambiguous / unique ones
DB_EXEC2 = ("import numpy as np\nfrom pkg import b\nfrom n import b\nfrom qq import b\nfrom pkg.sub import c\nfrom n import c\n"
            "from n import e\nimport osx\nfrom m import d\nfrom qq.sub import d\nimport pkg.sub as f\n")


# a third universe: identifiers with combining marks / U+00B7 as missing names, 3- and 4-byte characters in strings
U_NAM, U_PAR = "\u0928\u093e\u092e", "paral\u00b7lel"
DB_EXEC_U = DB_EXEC + "import %s\nfrom pkg import %s\n" % (U_NAM, U_PAR)
U_STR = ["\u65e5\u672c\u8a9e", "\u20ac", "\u201cq\u201d", "\U0001f600", "\U0001d4b3"]


# a fourth universe: __forget_imports__ (star and plain entries) with look-alike module names: `js` is forgotten,
# `jsx` is not; after forgetting  loads, b: 2 candidates;  dumps, c, e: exactly one;  window, deep, d: none
DB_EXEC_F = ("import numpy as np\nfrom jsx import loads, dumps\nfrom pk2 import loads\nfrom js import window\nfrom js.sub import deep\n"
             "from js import c\nfrom pkg import c\nfrom m import d\nfrom n import e\nfrom pkg.sub import e\nfrom pkg import b\nfrom jsx import b\n"
             "__forget_imports__ = ['from js import *', 'from m import d', 'n.e']\n")
# `pk` is forgotten, `pkg` and `pk2` are not:  b, c, d, f: exactly one;  g2: none
DB_EXEC_F2 = ("import numpy as np\nfrom pkg import b, c\nfrom pk import c\nfrom pk.x import d\nfrom m import d\nfrom pk import g2\nfrom pk2 import f\n"
              "__forget_imports__ = ['from pk import *']\n__mandatory_imports__=['from __future__ import division']\n")


# a fifth universe: one module / member under several local names, each of them unique
DB_EXEC_A = ("import jsn\nimport jsn as js2\nfrom pkg import b\nfrom pkg import b as b2\nimport pkg.sub as f\nimport pkg.sub as f2\n"
             "from m import d as d1, d as d2\nimport numpy as np\nimport numpy\n")


# round 5: the package names themselves are known (`import pkg`, `import qq`): a three-component plain import read only
# through its intermediate package must survive, otherwise `pkg` is a uniquely known name left unbound
DB_EXEC_R5 = DB_EXEC + "import pkg\nimport qq\n"


def db_index(dbtext):
    """local name -> list of full names the database offers for it; read with stdlib ast, not with pyflyby."""
    idx = {}
    for st in ast.parse(dbtext).body:
        if isinstance(st, ast.Import):
            for a in st.names:
                idx.setdefault(a.asname or a.name, []).append(a.name)
        elif isinstance(st, ast.ImportFrom):
            for a in st.names:
                idx.setdefault(a.asname or a.name, []).append((st.module or "") + "." + a.name)
    return idx


def db_mandatory(dbtext):
    for st in ast.parse(dbtext).body:
        if isinstance(st, ast.Assign) and getattr(st.targets[0], "id", None) == "__mandatory_imports__":
            out = set()
            for s in ast.literal_eval(st.value):
                for b in ast.parse(s).body:
                    for a in b.names:
                        out.add((a.asname or a.name).split(".")[0])
            return out
    return set()


UNIQUE = {"np": ("numpy", "np"), "osx": ("osx", "osx"), "b": ("pkg.b", "b"), "c": ("pkg.c", "c"), "d": ("m.d", "d"),
          "f": ("pkg.sub", "f")}
AMBIG = {"e"}
UNKNOWN = {"g", "zz", "pkg", "aa"}          # `import pkg.util` / `import aa.bb` are looked up by first component only
ROOTS = ("numpy", "osx", "pkg", "m", "n", "aa", "qq", "\u0928\u093e\u092e", "js", "jsx", "pk", "pk2", "decoy", "zz", "g", "jsn", "zc")
LOCALS = ["v1", "v2", "v3"]


def use(r, pool=None):
    n = r.choice(pool or (list(UNIQUE) * 3 + list(AMBIG) + ["g", "zz", "pkg.util", "aa.bb"] + LOCALS))
    if n in LOCALS:
        return n
    for _ in range(r.choice([0, 1, 1, 2])):
        n += "." + r.choice(["x", "y", "sub", "path"])
    if r.random() < .25:
        n += "(%s)" % (use(r, pool) if r.random() < .5 else "1")
    return n


def existing_import(r):
    return r.choice(["import qq", "import qq.sub", "from qq import zq", "import qq.sub as qs", "import numpy as np",
                     "import osx", "from pkg import b", "from m import d, d2", "import pkg.sub as f", "from n import e",
                     "from qq import zr, zs", "import pkg.util", "from pkg import c as c", "from n import zq2", "from pkg.sub import zq3",
                     "from qq.sub import zq4", "from pkg import zq5", "import pkg.sub.deep", "import qq.sub.deep2", "import pkg.sub.deep.er",
                     "import osx.path", "import qq.sub.x3"])


def gen_exec(r, uni=False, pool=None):
    lines = []
    if uni:
        pool = list(UNIQUE) * 2 + [U_NAM, U_PAR] * 3 + list(AMBIG) + ["g", "zz"] + LOCALS
    k = r.random()
    if k < .2:
        lines.append('"""doc"""')
    elif k < .3:
        lines += ['"""doc"""', '"second"']
    elif k < .4:
        lines += ["#!/usr/bin/python", "# comment", ""]
    elif k < .5:
        lines.append("from __future__ import division")
    elif k < .55:
        lines += ['"""doc"""', "from __future__ import annotations"]
    defs = []
    for _ in range(r.randint(2, 8)):
        k = r.random()
        if uni and r.random() < .35:
            s = r.choice(U_STR)
            lines.append(r.choice(['v1 = "%s"; %s; v2 = %s' % (s, existing_import(r), use(r, pool)),
                                   '%s  # %s' % (existing_import(r), s),
                                   'v3 = "%s"; %s  # %s' % (s, use(r, pool), s),
                                   '"%s"; %s' % (s, existing_import(r)),
                                   '%s; v1 = "%s"' % (use(r, pool), s)]))
            continue
        if r.random() < .10:                  # the package name of a dotted import as parameter / local / loop variable,
            pk, path = r.choice([("osx", "path"), ("qq", "sub"), ("pkg", "sub"), ("pkg", "sub.deep"), ("qq", "sub.x3")])   # read with the same dotted path
            nm = "sh%d" % len(lines)
            lines += r.choice([["def %s(%s=1):" % (nm, pk), "    return %s.%s.x" % (pk, path)],
                               ["def %s(p=1):" % nm, "    %s = p" % pk, "    return %s.%s" % (pk, path)],
                               ["v1 = (lambda %s: %s.%s.y)" % (pk, pk, path)],
                               ["v2 = [%s.%s for %s in [v1]]" % (pk, path, pk)],
                               ["class %s:" % nm.upper(), "    def meth(self, %s=1):" % pk, "        return %s.%s" % (pk, path)],
                               ["def %s(p=1):" % nm, "    for %s in [p]:" % pk, "        v = %s.%s.z" % (pk, path), "    return p"]])
            if r.random() < .5:
                lines.insert(r.randint(0, max(0, len(lines) - 3)) if not lines or not lines[0].startswith(('"""', "#!", "from __future__")) else len(lines),
                             "import %s.%s" % (pk, path))
            continue
        if r.random() < .10:                  # a plain import with >= 3 components read only through the intermediate package
            lines.append(r.choice(["v1 = pkg.sub.x", "v2 = qq.sub.y(1)", "pkg.sub.z", "v3 = [pkg.sub, qq.sub.w]", "v1 = pkg.sub.deep2"]))
            continue
        if r.random() < .12:                  # an unused import that is NOT top-level, on an early line
            lines += r.choice([["def loc%d(p=1):" % len(lines), "    import qq.zloc", "    return p"],
                               ["if v1:", "    import zc.zcond", "else:", "    pass"],
                               ["def loc%d(p=1):" % len(lines), "    from qq import zl2 as zl3", "    import qq.sub", "    return p"]])
            continue
        if k < .25:
            for _ in range(r.randint(1, 3)):
                lines.append(existing_import(r) + ("  # note" if r.random() < .1 else ""))
        elif k < .45:
            lines.append("%s = %s" % (r.choice(LOCALS), use(r, pool)))
        elif k < .55:
            lines.append(use(r, pool))
        elif k < .65:
            fn = "fn%d" % len(defs)
            defs.append(fn)
            lines += ["def %s(p=1):" % fn, "    q = %s" % use(r, pool), "    return %s" % use(r, pool)]
        elif k < .72:
            # (a read in a class body proper bypasses the recording globals dict: only methods read names)
            kn = "K%d" % len(lines)
            lines += ["class %s:" % kn, "    z = 1", "    def meth(self):", "        return %s" % use(r, pool)]
            defs.append(kn + "().meth")
        elif k < .80:
            a = r.choice([use(r, pool), "v1 = 1", existing_import(r)])
            b = r.choice([existing_import(r), use(r, pool)])
            lines.append("%s; %s" % (a, b))
            if r.random() < .3:
                lines += ["if v1:", "    pass"]
        elif k < .86:
            lines += ["if %s:" % r.choice(LOCALS), "    %s" % use(r, pool), "else:", "    pass"]
        elif k < .91:
            lines.append("v2 = (%s +\n      %s)" % (use(r, pool), use(r, pool)))
        elif k < .95:
            lines.append(r.choice(["", "# comment", "    # indented comment"]))
        else:
            lines.append("v3 = [%s for i in [1, 2]]" % use(r, pool))
    # function bodies run after the last module-level statement (the domain of the scope analysis, DESIGN C02/C05)
    lines += ["%s()" % fn for fn in defs if r.random() < .7]
    src = "\n".join(lines)
    if r.random() < .9:
        src += "\n"
    return src


ALLFLAGS = {"add_missing": True, "remove_unused": True, "add_mandatory": True}
# remove_unused="AUTOMATIC": exempt iff the base name is __init__.py or a path component is .pyflyby (property text)
FILENAMES = ["pkgdir/__init__.py", "pkgdir/mod.py", "pkgdir/x__init__.py", "pkgdir/test__init__.py", "pkgdir/__init__.pyx",
             "pkgdir/__init__.py.bak", "__init__.py/mod.py", ".pyflyby/x.py", "a/.pyflyby/b/x.py", ".pyflybyx/x.py", "x.pyflyby/m.py",
             "pkgdir/a.pyflyby", "pkgdir/_init_.py"]


def exempt(filename):
    if not filename:
        return False
    parts = filename.split("/")
    return parts[-1] == "__init__.py" or ".pyflyby" in parts


def removal_expected(c):
    ru = (c.get("flags") or {}).get("remove_unused", "AUTOMATIC")
    if ru == "AUTOMATIC":
        return not exempt(c.get("filename") or c.get("workfile"))
    return bool(ru)


def gen_src(r, uni=False, pool=None):
    for _ in range(30):
        src = gen_exec(r, uni, pool)
        if S.compilable(src):
            return src
    return "np.x\n"


def gen_seq(r):
    """2-3 modules to be tidied one after the other in ONE process, with overlapping names: what one module defines
    at top level (class, def, assignment, __all__, import) another one reads - inside function bodies and outside -
    without binding it"""
    names = list(UNIQUE)
    r.shuffle(names)
    shared = names[:3]
    mods = []
    for k in range(r.choice([2, 2, 3])):
        body = [l for l in gen_src(r).rstrip("\n").split("\n")
                if not l.startswith(('"""', '"second"', "from __future__", "#!"))]
        lines, tail = [], []
        for j, nm in enumerate(shared):
            role = r.choice(["define", "read_in_def", "read_in_def", "read", "none"]) if k else r.choice(["define", "define", "read_in_def"])
            if role == "define":                   # definitions first: a read before a later definition is F10's business
                lines += r.choice([["class %s:" % nm, "    z = 1"], ["def %s(p=1):" % nm, "    return p"], ["%s = 1" % nm],
                                   ["__all__ = ['%s']" % nm, "%s = 2" % nm], ["class %s(object):" % nm, "    def m(self):", "        return 1"]])
            elif role == "read_in_def":
                fn = "sq%d_%d" % (k, j)
                body += ["def %s(p=1):" % fn, "    return %s.x" % nm]
                tail.append("%s()" % fn)
            elif role == "read":
                body.append("v1 = %s.y" % nm)
        lines += body
        src = "\n".join(lines + tail) + "\n"
        mods.append(src if S.compilable(src) else "np.x\n")
    return mods


def gen_cases(ctx, n):
    cases = []
    for i in range(n):
        r = cm.rng(ctx.seed, "c04", i)
        k = i % 20
        fl = dict(ALLFLAGS)
        par = r.choice(S.PARAMS)
        if k == 19:                                       # sequences of modules in one process
            db = r.choice([DB_EXEC, DB_EXEC_MAND, DB_EXEC2])
            cases.append({"kind": "tidy", "stream": "seq", "i": i, "srcs": gen_seq(r), "src": "", "db": db, "flags": fl, "params": par})
            continue
        if k in (16, 17):                                 # databases with __forget_imports__
            db = r.choice([DB_EXEC_F, DB_EXEC_F, DB_EXEC_F2])
            pool = D.raw_names(db) * 3 + ["zz", "g"] + LOCALS
            cases.append({"kind": "tidy", "stream": "forget", "i": i, "src": gen_src(r, False, pool), "db": db, "flags": fl, "params": par})
            continue
        if k in (14, 15, 18):                             # the database is found the way the tool finds it: PYFLYBY_PATH
            base = r.choice([DB_EXEC, DB_EXEC_MAND, DB_EXEC2, DB_EXEC_F, DB_EXEC_F2])
            tree, entries = D.gen_tree(r, base)
            pool = D.raw_names(base) * 3 + ["zz", "g"] + LOCALS
            c = {"kind": "tidy", "stream": "dbdir", "i": i, "src": gen_src(r, False, pool), "dbtree": tree, "dbpath": entries,
                 "db": D.reached_text(tree, entries), "flags": fl, "params": par, "cli": k == 18}
            if c["cli"]:
                c["flags"] = dict(fl, remove_unused="AUTOMATIC")
                c["params"] = {"align_imports": [32], "from_spaces": 3, "separate_from_imports": False}
                c["workfile"] = "work/" + r.choice(FILENAMES + ["mod.py"] * 4)
            cases.append(c)
            continue
        uni = r.random() < .2
        src = gen_src(r, uni)
        if k == 7:
            fl = S.gen_flags(r)
        db = r.choice([DB_EXEC, DB_EXEC, DB_EXEC_MAND, DB_EXEC_MAND2, DB_EXEC2, DB_EXEC2, DB_EXEC_A, DB_EXEC_A, DB_EXEC_R5, DB_EXEC_R5, DB_EXEC_R5])
        if uni:
            db = DB_EXEC_U
        elif db is DB_EXEC_A:
            src = gen_src(r, False, D.raw_names(db) * 3 + ["zz", "g"] + LOCALS)
        c = {"kind": "tidy", "stream": "exec-unicode" if uni else "exec", "i": i, "src": src, "db": db, "flags": fl, "params": par}
        if k in (8, 9):
            c["filename"] = "/nonexistent-verif/" + r.choice(FILENAMES)
            c["flags"] = dict(fl, remove_unused="AUTOMATIC")
        cases.append(c)
    return cases


WITNESSES = [
    # F8: sorted by name, `np.alpha` (line 5) is taken as the use to precede
    {"kind": "tidy", "stream": "witness", "w": "F8", "src": "v1 = 1\nnp.zeta\nimport qq\nqq\nnp.alpha\n", "db": DB_EXEC,
     "flags": {"add_missing": True, "remove_unused": True, "add_mandatory": False}, "params": None},
    # F8b: the only import block starts after the use on the same line
    {"kind": "tidy", "stream": "witness", "w": "F8b", "src": "np.x; import qq\nqq\n", "db": DB_EXEC,
     "flags": {"add_missing": True, "remove_unused": True, "add_mandatory": False}, "params": None},
    # F24: the unique candidate's name is already bound in the chosen block by another import
    {"kind": "tidy", "stream": "witness", "w": "F24", "src": "from qq import np\nnp\nv1 = 1\n", "db": DB_EXEC + "__mandatory_imports__=['import numpy as np']\n",
     "flags": {"add_missing": True, "remove_unused": True, "add_mandatory": True}, "params": None},
    # F35: two mandatory imports, the new top block ties with the existing first block
    {"kind": "tidy", "stream": "witness", "w": "F35", "src": "import qq\nqq\n", "db": DB_EXEC_MAND2,
     "flags": {"add_missing": True, "remove_unused": True, "add_mandatory": True}, "params": None},
    # F23 (second face): the unused LOCAL import's line is the line right after the global block
    {"kind": "tidy", "stream": "witness", "w": "F23b", "src": "import qq as osx\ndef fn(): import qq.sub as osx\nosx.getcwd()\n", "db": DB_EXEC,
     "flags": {"add_missing": True, "remove_unused": True, "add_mandatory": False}, "params": None},
    # never_guess on a file that already imports from one candidate's module
    {"kind": "tidy", "stream": "witness", "w": "guess", "src": "from n import zq2\nzq2\ne.x\nb.y\n", "db": DB_EXEC2,
     "flags": {"add_missing": True, "remove_unused": True, "add_mandatory": False}, "params": None},
    {"kind": "tidy", "stream": "witness", "w": "utf8", "src": 'v1 = "\u65e5\u672c\u8a9e"; import qq; v2 = %s.x  # \U0001f600\n%s.y\n' % (U_NAM, U_PAR), "db": DB_EXEC_U,
     "flags": {"add_missing": True, "remove_unused": True, "add_mandatory": False}, "params": None},
    # one process, two modules: the first defines `class np`, the second reads np only inside a function body
    {"kind": "tidy", "stream": "seq", "w": "seq", "srcs": ["class np:\n    z = 1\nv1 = np\n", "def fn0(p=1):\n    return np.x\nfn0()\n"], "src": "",
     "db": DB_EXEC, "flags": {"add_missing": True, "remove_unused": True, "add_mandatory": False}, "params": None},
    # star __forget_imports__ for `js`; `jsx` only looks alike: loads stays ambiguous, dumps stays known
    {"kind": "tidy", "stream": "forget", "w": "forget", "src": "loads.x\ndumps.y\nwindow.z\nb\nc\n", "db": DB_EXEC_F,
     "flags": {"add_missing": True, "remove_unused": True, "add_mandatory": False}, "params": None},
    # the only import of np lives under a symlinked directory of the database directory; b has one candidate in a
    # regular file and one under the symlink
    {"kind": "tidy", "stream": "dbdir", "w": "symlink", "src": "np.x\nb.y\n", "cli": True,
     "dbtree": [{"p": "db/known.py", "text": "from pkg import b\n"}, {"p": "ext/dir/e1.py", "text": "import numpy as np\nfrom n import b\n"},
                {"p": "db/linkdir", "link": "ext/dir"}, {"p": "db/.hidden.py", "text": "import zz\n"}],
     "dbpath": ["db"], "db": "from pkg import b\nimport numpy as np\nfrom n import b\n",
     "flags": {"add_missing": True, "remove_unused": "AUTOMATIC", "add_mandatory": True},
     "params": {"align_imports": [32], "from_spaces": 3, "separate_from_imports": False}},
    # two local names for one module, each unique; both read
    {"kind": "tidy", "stream": "witness", "w": "alias", "src": "jsn.x\njs2.y\nb2.z\nb\n", "db": DB_EXEC_A,
     "flags": {"add_missing": True, "remove_unused": True, "add_mandatory": False}, "params": None},
    # a file that merely ends in __init__.py is not exempt from unused-import removal
    {"kind": "tidy", "stream": "witness", "w": "init-lookalike", "src": "import qq\nv1 = 1\n", "db": DB_EXEC, "filename": "/nonexistent-verif/pkgdir/test__init__.py",
     "flags": {"add_missing": True, "remove_unused": "AUTOMATIC", "add_mandatory": False}, "params": None},
    # an unused function-local import on an earlier line than unused top-level imports
    {"kind": "tidy", "stream": "witness", "w": "local-unused-first", "src": "def loc(p=1):\n    import qq.zloc\n    return p\nimport qq\nfrom qq import zq\nv1 = 1\n", "db": DB_EXEC,
     "flags": {"add_missing": True, "remove_unused": True, "add_mandatory": False}, "params": None},
    # round 5: a three-component plain import read only through the intermediate package
    {"kind": "tidy", "stream": "witness", "w": "r5-intermediate", "src": "import pkg.sub.deep\nv1 = pkg.sub.x\n", "db": DB_EXEC_R5,
     "flags": {"add_missing": True, "remove_unused": True, "add_mandatory": False}, "params": None},
    # round 5: an unused dotted import whose package name is a parameter read with the same dotted path
    {"kind": "tidy", "stream": "witness", "w": "r5-shadowed-path", "src": "import osx.path\ndef sh(osx=1):\n    return osx.path.x\nsh()\n", "db": DB_EXEC_R5,
     "flags": {"add_missing": True, "remove_unused": True, "add_mandatory": False}, "params": None},
    {"kind": "tidy", "stream": "witness", "w": "r5-shadowed-path", "src": "import qq.sub\nv2 = [qq.sub for qq in [v1]]\nv1 = (lambda qq: qq.sub.y)\n", "db": DB_EXEC,
     "flags": {"add_missing": True, "remove_unused": True, "add_mandatory": False}, "params": None},
    # F23: unused import in a block that starts on the line where the previous block's text ends
    {"kind": "tidy", "stream": "witness", "w": "F23", "src": "import qq\nv1 = 1; import zz\nqq\n", "db": DB_EXEC,
     "flags": {"add_missing": True, "remove_unused": True, "add_mandatory": False}, "params": None},
]


# ---------------------------------------------------------------------------------------------
# implementation side: capture + execution of input and output under the universe

def _universe():
    import builtins
    import importlib.abc
    import importlib.machinery
    import types

    class V:
        def __init__(s, tag='v'):
            object.__setattr__(s, '_tag', tag)

        def __getattr__(s, n):
            if n.startswith('__') and n.endswith('__'):
                raise AttributeError(n)
            return V(s._tag + '.' + n)

        def __setattr__(s, n, v):
            pass

        def __call__(s, *a, **k):
            return V(s._tag + '()')

        def __iter__(s):
            return iter([V('i'), V('i')])

        def __add__(s, o):
            return V('add')
        __radd__ = __add__

        def __getitem__(s, k):
            return V('[]')

        def __bool__(s):
            return True

        def __truediv__(s, o):
            return V('div')

    class VMod(types.ModuleType):
        def __getattr__(s, n):
            if n.startswith('__'):
                raise AttributeError(n)
            return V(s.__name__ + ':' + n)

        def __call__(s, *a, **k):
            return V(s.__name__ + '()')

        def __add__(s, o):
            return V('add')
        __radd__ = __add__

        def __bool__(s):
            return True

    class Finder(importlib.abc.MetaPathFinder, importlib.abc.Loader):
        def find_spec(self, name, path=None, target=None):
            if name.split('.')[0] in ROOTS:
                return importlib.machinery.ModuleSpec(name, self, is_package=True)

        def create_module(self, spec):
            m = VMod(spec.name)
            m.__path__ = []
            return m

        def exec_module(self, module):
            pass

    class Rec(dict):
        def __init__(s, *a):
            super().__init__(*a)
            s.missing = []

        def __missing__(s, key):
            if hasattr(builtins, key):
                raise KeyError(key)
            s.missing.append(key)
            return V('unbound:' + key)
    return V, Finder, Rec


def run_program(src):
    """Execute src; -> sorted set of global names that were unbound when read, or {"error": ...}."""
    import sys
    import warnings
    V, Finder, Rec = _universe()
    g = Rec({'__name__': 'prog', 'v1': 0, 'v2': 0, 'v3': 0})
    finder = Finder()
    sys.meta_path.insert(0, finder)
    saved = set(sys.modules)
    try:
        with warnings.catch_warnings():
            warnings.simplefilter("ignore")
            code = compile(src, '<prog>', 'exec', dont_inherit=True)
        exec(code, g)
        return {"unbound": sorted(set(g.missing))}
    except Exception as e:
        return {"error": type(e).__name__ + ": " + str(e)[:80]}
    finally:
        sys.meta_path.remove(finder)
        for k in set(sys.modules) - saved:
            del sys.modules[k]


FRESH = ("import sys, json\nfrom harness import c04_s2s as S\nc = json.load(sys.stdin)\n"
         "print(json.dumps(S.run_tool('tidy', c['src'], c['db'], c['flags'], c['params'], None, c.get('filename'))))\n")


def fresh_tidy(c, src):
    """the same call in a process of its own"""
    import subprocess
    import sys
    p = subprocess.run([sys.executable, "-c", FRESH], input=json.dumps(dict(c, src=src)), stdout=subprocess.PIPE,
                       stderr=subprocess.PIPE, text=True, timeout=30)
    try:
        return json.loads(p.stdout.strip().split("\n")[-1])
    except Exception:
        return {"exc": "fresh process failed", "msg": p.stderr[-300:]}


def _one(c):
    res = S.impl_case(c)
    res["run_src"] = run_program(c["src"])
    if res.get("out") is not None:
        res["run_out"] = run_program(res["out"])
    return res


def _cli(c, root):
    import subprocess
    import sys
    path = c["filename"]
    os.makedirs(os.path.dirname(path), exist_ok=True)
    with open(path, "w") as f:
        f.write(c["src"])
    env = dict(os.environ, PYFLYBY_LOG_LEVEL="ERROR")
    p = subprocess.run([sys.executable, os.path.join(os.environ["VERIF_REPO"], "bin", "tidy-imports"), "--print", "--no-canonicalize", path],
                       stdin=subprocess.DEVNULL, stdout=subprocess.PIPE, stderr=subprocess.PIPE, text=True, env=env,
                       cwd=os.path.dirname(path), timeout=25)
    return {"rc": p.returncode, "stdout": p.stdout, "stderr": p.stderr[-400:].replace(root, "<tmp>")}


def impl_case(c):
    if "srcs" in c:                                        # a sequence: every module in this very process, in order
        seq = [_one(dict(c, src=s)) for s in c["srcs"]]
        for s, im in zip(c["srcs"], seq):
            im["fresh"] = fresh_tidy(c, s)
        return {"seq": seq}
    if "dbtree" in c:                                      # the database is looked up through PYFLYBY_PATH on disk
        import shutil
        import tempfile
        root = tempfile.mkdtemp(prefix="verif-c04-")
        old = os.environ.get("PYFLYBY_PATH")
        try:
            D.materialise(root, c["dbtree"])
            os.environ["PYFLYBY_PATH"] = ":".join(os.path.join(root, e) for e in c["dbpath"])
            c2 = dict(c, dbroot=root, filename=os.path.join(root, c.get("workfile", "work/mod.py")))
            res = _one(c2)
            if c.get("cli"):
                res["cli"] = _cli(c2, root)
                if res["cli"]["rc"] == 0:
                    res["run_cli"] = run_program(res["cli"]["stdout"])
            return res
        finally:
            if old is None:
                os.environ.pop("PYFLYBY_PATH", None)
            else:
                os.environ["PYFLYBY_PATH"] = old
            shutil.rmtree(root, ignore_errors=True)
    return _one(c)


# ---------------------------------------------------------------------------------------------
# oracle

def import_bound(src):
    """name -> list of (module/fullname, kind) bound by top-level import statements (stdlib ast)."""
    out = {}
    for st in ast.parse(src).body:
        if isinstance(st, ast.Import):
            for a in st.names:
                out.setdefault((a.asname or a.name).split('.')[0], []).append(("import", a.name, st.lineno))
        elif isinstance(st, ast.ImportFrom):
            for a in st.names:
                if a.name != "*":
                    out.setdefault(a.asname or a.name, []).append(("from", (st.module or "") + "." + a.name, st.lineno))
    return out


def globally_read(src):
    """names that some scope of the module reads AS A GLOBAL: at module level, or inside a function / class / lambda /
    comprehension in which the name is not a parameter, local, loop variable or class-body name.  Own resolver over
    stdlib ast (symtable loses the references of inlined comprehensions in 3.12)."""
    out = set()
    SCOPES = (ast.FunctionDef, ast.AsyncFunctionDef, ast.Lambda, ast.ClassDef, ast.ListComp, ast.SetComp, ast.DictComp, ast.GeneratorExp)

    def bindings(nodes, args=None):
        b, glob = set(), set()
        if args is not None:
            for a in args.posonlyargs + args.args + args.kwonlyargs + [x for x in (args.vararg, args.kwarg) if x]:
                b.add(a.arg)
        stack = list(nodes)
        while stack:
            n = stack.pop()
            if isinstance(n, (ast.FunctionDef, ast.AsyncFunctionDef, ast.ClassDef)):
                b.add(n.name)
                continue
            if isinstance(n, SCOPES):
                continue
            if isinstance(n, ast.Name) and isinstance(n.ctx, (ast.Store, ast.Del)):
                b.add(n.id)
            elif isinstance(n, (ast.Import, ast.ImportFrom)):
                for a in n.names:
                    b.add((a.asname or a.name).split(".")[0])
            elif isinstance(n, ast.ExceptHandler) and n.name:
                b.add(n.name)
            elif isinstance(n, ast.Global):
                glob.update(n.names)
            stack.extend(ast.iter_child_nodes(n))
        return b - glob

    def inner(scopes, new):
        return [s for s in scopes if s[0] != "class"] + [new]

    def visit(n, scopes):
        if isinstance(n, ast.Name):
            if isinstance(n.ctx, ast.Load) and not any(n.id in s[1] for s in scopes):
                out.add(n.id)
            return
        if isinstance(n, (ast.FunctionDef, ast.AsyncFunctionDef)):
            for x in n.decorator_list + n.args.defaults + [d for d in n.args.kw_defaults if d] + ([n.returns] if n.returns else []):
                visit(x, scopes)
            sc = inner(scopes, ("func", bindings(n.body, n.args)))
            for x in n.body:
                visit(x, sc)
            return
        if isinstance(n, ast.Lambda):
            for x in n.args.defaults + [d for d in n.args.kw_defaults if d]:
                visit(x, scopes)
            visit(n.body, inner(scopes, ("func", bindings([], n.args))))
            return
        if isinstance(n, ast.ClassDef):
            for x in n.decorator_list + n.bases + [k.value for k in n.keywords]:
                visit(x, scopes)
            sc = scopes + [("class", bindings(n.body))]
            for x in n.body:
                visit(x, sc)
            return
        if isinstance(n, (ast.ListComp, ast.SetComp, ast.DictComp, ast.GeneratorExp)):
            visit(n.generators[0].iter, scopes)
            sc = inner(scopes, ("comp", bindings([g.target for g in n.generators])))
            for k, g in enumerate(n.generators):
                if k:
                    visit(g.iter, sc)
                for c in g.ifs:
                    visit(c, sc)
            for x in ([n.key, n.value] if isinstance(n, ast.DictComp) else [n.elt]):
                visit(x, sc)
            return
        for ch in ast.iter_child_nodes(n):
            visit(ch, scopes)

    visit(ast.parse(src), [])
    return out


def loaded_names(src):
    names = set()
    for node in ast.walk(ast.parse(src)):
        if isinstance(node, ast.Name) and not isinstance(node.ctx, ast.Store):
            names.add(node.id)
    return names


def oracle(c, im):
    """-> list of (clause, detail).  Only for runs with add_missing and remove_unused in force."""
    out = im.get("out")
    if out is None:
        return []
    bad = []
    sc = im.get("scan") or {}
    fl = c.get("flags") or {}
    try:
        before, after = import_bound(c["src"]), import_bound(out)
    except SyntaxError:
        return [("output_parses", "output of tidy does not parse")]
    # never_guess, straight from the output text and the database text: a name the tool newly binds by a
    # top-level import has exactly one database entry and is bound to that entry (or is a mandatory import)
    # candidates per name: from the database TEXT (for dbdir cases: of the files the search path reaches), after
    # __forget_imports__ by dotted components - harness/c04_db.py, no pyflyby involved
    idx, mand = D.effective(c.get("db", ""))
    if not fl.get("add_mandatory", True):
        mand = set()
    unique = {n for n, v in idx.items() if len(set(v)) == 1}
    for nme in sorted(set(after) - set(before)):
        if nme in mand:
            continue
        cands = sorted(set(idx.get(nme, [])))
        if len(cands) != 1:
            bad.append(("never_guess", "name %r with %d database candidates %r is imported by the output: %r"
                        % (nme, len(cands), cands, after[nme])))
        elif not any(h[1] == cands[0] or (h[0] == "from" and h[1] == cands[0]) for h in after[nme]):
            bad.append(("never_guess", "name %r is imported as %r, the database says %r" % (nme, after[nme], cands)))
    ro, rs = im.get("run_out"), im.get("run_src")
    if fl.get("add_missing", True) and rs and "unbound" in rs:
        if ro is None or "error" in ro:
            bad.append(("output_runs", "input runs, output fails: %r" % (ro,)))
        else:
            still = sorted(set(ro["unbound"]) & unique & set(rs["unbound"]))
            if still:
                bad.append(("added_before_first_read", "names with a unique database entry are still unbound when read: %r" % still))
            newly = sorted((set(ro["unbound"]) - set(rs["unbound"])) & unique)
            if newly:
                bad.append(("binding_lost", "names bound in the input are unbound in the output: %r" % newly))
    if removal_expected(c) and fl.get("add_missing", True):
        loads = globally_read(out)
        futures = {"division", "annotations", "print_function"}
        for nme, how in sorted(after.items()):
            if nme in loads or nme in mand or nme in futures:
                continue
            if all(h[1].startswith("__future__.") for h in how):
                continue
            bad.append(("no_unused_left", "top-level import of %r is never read in the output: %r" % (nme, how)))
    return bad


def classify_known(c, im, clause, detail):
    """No open known finding of C04 (F16 is fixed in /repo: commit 659d6a0; a fixed entry suppresses nothing)."""
    return None


# ---------------------------------------------------------------------------------------------

def expand(cases, impl):
    """sequence cases -> one (original case, per-module case, result) per module"""
    flat = []
    for c, im in zip(cases, impl):
        if isinstance(im, dict) and "seq" in im:
            for k, (s, sub) in enumerate(zip(c["srcs"], im["seq"])):
                flat.append((c, dict({x: y for x, y in c.items() if x != "srcs"}, src=s, seq_index=k), sub))
        else:
            flat.append((c, c, im))
    return flat


def extra_oracle(c, im):
    """the two clauses that need a second run: history independence (sequences), the real CLI (dbdir)"""
    bad = []
    if "fresh" in im:
        fr = im["fresh"]
        if fr.get("out") != im.get("out") or fr.get("exc") != im.get("exc"):
            bad.append(("independent_of_history", "module %d of the sequence: tidied after the others %r, tidied in a fresh process %r"
                        % (c.get("seq_index", -1), im.get("out") or im.get("exc"), fr.get("out") or fr.get("exc"))))
    if "cli" in im:
        cli = im["cli"]
        if cli["rc"] != 0:
            bad.append(("cli_runs", "bin/tidy-imports --print: rc %s, stderr %r" % (cli["rc"], cli["stderr"][-200:])))
        else:
            for clause, detail in oracle(c, dict(im, out=cli["stdout"], run_out=im.get("run_cli"))):
                bad.append((clause + "(bin/tidy-imports)", detail))
    return bad


def check_cases(ctx, cases, tag="tidy"):
    impl = cm.run_impl("c04", "impl_case", cases, timeout_case=90)
    flat = expand(cases, impl)
    main, attrs, ne = S.evaluate_models([x[1] for x in flat], [x[2] for x in flat])
    for (orig, c, im), mv, av in zip(flat, main, attrs):
        if "__exc__" in im or "__timeout__" in im:
            ctx.disagreement("harness:implementation-side capture failed", orig, im, None)
            continue
        S.compare(ctx, c, im, mv, av, tag)
        S.count_kinds(ctx, c, im)
        ctx.bump("stream:" + str(c.get("stream")))
        nontriv = bool(im.get("adds")) or bool((im.get("scan") or {}).get("unused"))
        ctx.count(c, nontriv)
        if im.get("exc"):
            ctx.violation("no_internal_error(C03)", orig, {"raised": im["exc"], "msg": im.get("msg")})
            continue
        rs = im.get("run_src") or {}
        ctx.bump("input_runs" if "unbound" in rs else "input_does_not_run")
        found = oracle(c, im)
        if c.get("stream") == "seq":
            # these modules rebind database names on purpose (class np, __all__ = ['osx'] ...): the execution and
            # unused-binding clauses assume they do not; what is judged is never_guess and history independence
            found = [x for x in found if x[0] == "never_guess"]
        for clause, detail in found + extra_oracle(c, im):
            fid = classify_known(c, im, clause, detail)
            if fid:
                ctx.known_hit(fid, detail)
                ctx.bump("known:" + fid)
            else:
                ctx.violation(clause, orig, detail)
        if nontriv:
            ctx.sample({"src": c["src"], "out": im.get("out"), "log": im.get("adds")}, limit=3)
    return ne


def run(ctx):
    n = int(os.environ.get("VERIF_N", 800 if ctx.quick else 10000))
    ctx.coverage["rule"] = ("streams: exec 70% (20% of it with non-ASCII), forget 10% (databases with star / plain __forget_imports__ and look-alike "
                            "module names), dbdir 15% (database looked up through PYFLYBY_PATH: nested directories, symlinked directory and file, "
                            "hidden / non-.py decoys; a third of them also through bin/tidy-imports --print), seq 5% (2-3 modules with overlapping "
                            "names tidied in one process, each compared with a fresh process); "
                            "executable generated modules (prologues, imports before / between / after uses, `;` lines, defs, "
                            "classes, multi-line expressions) x databases over a synthetic universe (unique / ambiguous / absent / "
                            "dotted entries / aliases / mandatory __future__) x flag combinations (10%) x __init__.py/.pyflyby paths (10%); "
                            "non-trivial = the tool added an import or the analysis reported an unused import")
    ctx.assumptions += [
        "open mode (DESIGN 3.6): the block decomposition (M2), ImportSet.pretty_print per import set (M4), the result of "
        "scan_for_import_issues (M7) and the by_import_as / mandatory answers of the database are taken from the same run; "
        "the model's hypotheses about them (texts concatenate, second-pass blocks end with a newline and do not overlap, "
        "no star/__future__ import is reported unused, by_import_as answers carry the asked name) are evaluated on every case",
        "the execution oracle runs input and output under a synthetic import universe in which every import succeeds",
    ]
    ctx.notes["trusted_base"] = ["CPython's compile/exec and stdlib ast as the judge of NameError and of what a top-level import binds"]
    cm.check_anchors(ctx, S.ANCHORS)
    n *= getattr(ctx, "scale", 1)
    cases = cm.load_corpus("C04") + WITNESSES + gen_cases(ctx, n)
    ne = 0
    for k in range(0, len(cases), 4000):
        ne += check_cases(ctx, cases[k:k + 4000])
    ctx.notes["model_evaluations_in_kernel"] = ne
    ctx.notes["open_mode_cases"] = len(cases)
    ctx.notes["closed_mode_cases"] = 0


def replay(payload):
    case = payload.get("case") or payload["disagreements"][0]["case"]
    impl = cm.run_impl("c04", "impl_case", [case], jobs=1, timeout_case=90)
    flat = expand([case], impl)
    main, attrs, _ = S.evaluate_models([x[1] for x in flat], [x[2] for x in flat])
    for (orig, c, im), mv in zip(flat, main):
        print(json.dumps({"case": c,
                          "impl": {k: im.get(k) for k in ("out", "exc", "msg", "adds", "scan", "run_src", "run_out", "fresh", "cli")},
                          "model": mv, "oracle": (oracle(c, im) + extra_oracle(c, im)) if "__exc__" not in im else None}, indent=1))
    return 0

"""Implementation-side worker: python -m harness.worker <module> <func> <in.json> <out.json> <timeout>"""
import importlib
import json
import os
import signal
import sys
import traceback


class _Timeout(BaseException):
    pass


def _alarm(signum, frame):
    raise _Timeout()


def main():
    module, func, inp, outp, tmo = sys.argv[1:6]
    import pyflyby
    repo = os.environ["VERIF_REPO"]
    assert os.path.realpath(pyflyby.__file__).startswith(os.path.realpath(repo) + "/lib/python"), pyflyby.__file__
    mod = importlib.import_module("harness." + module)
    f = getattr(mod, func)
    cases = json.load(open(inp))
    out = []
    signal.signal(signal.SIGALRM, _alarm)
    for c in cases:
        signal.alarm(int(float(tmo)))
        try:
            r = f(c)
        except _Timeout:
            r = {"__timeout__": True}
        except BaseException as e:
            r = {"__exc__": type(e).__name__, "msg": str(e)[:500], "tb": traceback.format_exc()[-1500:]}
        finally:
            signal.alarm(0)
        out.append(r)
    with open(outp, "w") as fo:
        json.dump(out, fo)


if __name__ == "__main__":
    main()

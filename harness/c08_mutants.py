"""Mutation runs for C08 / C09 (not part of any check; see design.d/C08.md, design.d/C09.md).

  /venv/bin/python harness/c08_mutants.py [mutant ...]

Creates the scratch worktree /tmp/c08-wt of /repo (if missing), applies fixes/F11,F4,F5 plus one
mutation at a time, runs pyflyby's own test file and `./check Cxx quick` against it, prints one
JSON line per mutant, and leaves the worktree with the three fixes applied.  Remove it afterwards:
  git -C /repo worktree remove --force /tmp/c08-wt
"""
import subprocess, sys, os, re, json
WT = "/tmp/c08-wt"
VERIF = os.path.dirname(os.path.dirname(os.path.abspath(__file__)))
# fixes not yet committed in /repo (F11, F4, F5 are in /repo HEAD)
FIXES = []          # every fix of fixes/ is committed in /repo
def sh(cmd, **kw):
    return subprocess.run(cmd, shell=True, stdout=subprocess.PIPE, stderr=subprocess.STDOUT, text=True, **kw)
def reset():
    sh("git checkout -q .", cwd=WT)
    for f in FIXES:
        r = sh("git apply %s/fixes/%s.diff" % (VERIF, f), cwd=WT); assert r.returncode == 0, r.stdout
MUT = {
 # ---- C08 (lib/python/pyflyby/_file.py)
 "c08-inplace": ("C08", "lib/python/pyflyby/_file.py", '    write_file(temp_filename, data)\n    try:\n        st = os.stat(str(filename))', '    write_file(filename, data)\n    return\n    try:\n        st = os.stat(str(filename))'),
 "c08-nochmod": ("C08", "lib/python/pyflyby/_file.py", '        os.chmod(str(temp_filename), st.st_mode)\n', '        pass\n'),
 "c08-nopid": ("C08", "lib/python/pyflyby/_file.py", 'Filename("%s.tmp.%s" % (filename, os.getpid(),))', 'Filename("%s.tmp.%s" % (filename, 0,))'),
 "c08-rename-first": ("C08", "lib/python/pyflyby/_file.py", '    if st is not None:\n        try:\n            os.chown(', '    if st is not None:\n        os.rename(str(temp_filename), str(filename)); temp_filename = filename\n        try:\n            os.chown('),
 "c08-swallow-rename": ("C08", "lib/python/pyflyby/_file.py", '    os.rename(str(temp_filename), str(filename))\n\n\ndef expand_py', '    try:\n        os.rename(str(temp_filename), str(filename))\n    except OSError:\n        pass\n\n\ndef expand_py'),
 "c08-mode-777": ("C08", "lib/python/pyflyby/_file.py", 'os.chmod(str(temp_filename), st.st_mode)', 'os.chmod(str(temp_filename), st.st_mode & 0o777)'),
 # ---- C09 (lib/python/pyflyby/_cmdline.py)
 "c09-ifchanged-never": ("C09", "lib/python/pyflyby/_cmdline.py", '        logger.debug("unmodified: %s", m.filename)\n        raise AbortActions', '        logger.debug("unmodified: %s", m.filename)'),
 "c09-query-default-yes": ("C09", "lib/python/pyflyby/_cmdline.py", "if input().strip().lower().startswith('y'):", "if not input().strip().lower().startswith('n'):"),
 "c09-skip-noabort": ("C09", "lib/python/pyflyby/_cmdline.py", '        logger.info("Skipping symlink %s" % m.filename)\n        raise AbortActions', '        logger.info("Skipping symlink %s" % m.filename)'),
 "c09-stop-on-error": ("C09", "lib/python/pyflyby/_cmdline.py", '            finally:\n                tb = None # avoid refcycles involving tb\n            continue', '            finally:\n                tb = None # avoid refcycles involving tb\n            break'),
 "c09-badfilename-unreported": ("C09", "lib/python/pyflyby/_cmdline.py", '        errors.append("%s: bad filename" % (arg,))', '        pass'),
 "c09-policy-appended": ("C09", "lib/python/pyflyby/_cmdline.py", 'parser.values.actions = (symlink_callbacks[value],) + parser.values.actions', 'parser.values.actions = parser.values.actions + (symlink_callbacks[value],)'),
 "c09-follow-noop": ("C09", "lib/python/pyflyby/_cmdline.py", '        m.filename = m.filename.realpath', '        pass'),
 "c09-exit1-ignored": ("C09", "lib/python/pyflyby/_cmdline.py", '        except Exit1:\n            exit_code = 1', '        except Exit1:\n            exit_code = 0'),
 # ---- adversarial mutants reported by the coordinator (round 2)
 "c09-follow-one-hop": ("C09", "lib/python/pyflyby/_cmdline.py", '        m.filename = m.filename.realpath', '        m.filename = Filename(os.path.join(os.path.dirname(str(m.filename)), os.readlink(str(m.filename))))'),
 "c09-no-typeerror-guard": ("C09", "lib/python/pyflyby/_cmdline.py", """                    try:
                        e = type_e("While processing %s: %s" % (filename, e))
                        pass
                    except TypeError:
                        # Exception takes more than one argument
                        pass""", """                    e = type_e("While processing %s: %s" % (filename, e))"""),
 "c09-query-first-char": ("C09", "lib/python/pyflyby/_cmdline.py", "if input().strip().lower().startswith('y'):", "if input()[:1] in 'yY':"),
 "c08-hardlink-inplace": ("C08", "lib/python/pyflyby/_file.py", '    temp_filename = Filename("%s.tmp.%s" % (filename, os.getpid(),))\n', '    if os.path.isfile(str(filename)) and not os.path.islink(str(filename)) and os.stat(str(filename)).st_nlink > 1:\n        write_file(filename, data)\n        return\n    temp_filename = Filename("%s.tmp.%s" % (filename, os.getpid(),))\n'),
 "c08-chown-chmod-one-try": ("C08", "lib/python/pyflyby/_file.py", """            os.chown(str(temp_filename), -1, st.st_gid)
        except OSError:
            pass # not member of group
        # chmod last: chown clears the set-user-ID / set-group-ID bits
        os.chmod(str(temp_filename), st.st_mode)""", """            os.chown(str(temp_filename), -1, st.st_gid)
            os.chmod(str(temp_filename), st.st_mode)
        except OSError:
            pass # not member of group"""),
 "c09-expand-realpath-dedup": ("C09", "lib/python/pyflyby/_file.py", """            if f.isfile:
                if f.ext == ".py":
                    stack.append((f, True))""", """            if f.isfile:
                if f.ext == ".py" and f.realpath not in seen:
                    seen.add(f.realpath)
                    stack.append((f.realpath, True))"""),
 "c08-tmpname-143": ("C08", "lib/python/pyflyby/_file.py", '    temp_filename = Filename("%s.tmp.%s" % (filename, os.getpid(),))\n', '    _d, _b = os.path.split(str(filename))\n    temp_filename = Filename(os.path.join(_d, ("%s.tmp.%s" % (_b, os.getpid()))[:143]))\n'),
 "c08-oswrite-short": ("C08", "lib/python/pyflyby/_file.py", '    write_file(temp_filename, data)\n    try:\n        st = os.stat(str(filename))', '    _fd = os.open(str(temp_filename), os.O_WRONLY | os.O_CREAT | os.O_TRUNC | os.O_NOFOLLOW, 0o666)\n    try:\n        os.write(_fd, data.joined.encode("utf-8"))\n    finally:\n        os.close(_fd)\n    try:\n        st = os.stat(str(filename))'),
 "c09-exit-len-errors": ("C09", "lib/python/pyflyby/_cmdline.py", "        raise SystemExit(msg)", "        print(msg, file=sys.stderr)\n        raise SystemExit(len(errors))"),
 "c09-follow-textual-dotdot": ("C09", "lib/python/pyflyby/_cmdline.py", '        m.filename = m.filename.realpath', '        _p = str(m.filename)\n        for _ in range(40):\n            if not os.path.islink(_p):\n                break\n            _p = str(Filename(os.path.join(os.path.dirname(_p), os.readlink(_p))))\n        m.filename = Filename(_p)'),
 "c08-memoized-suffix": ("C08", "lib/python/pyflyby/_file.py", 'def atomic_write_file(filename: Filename, data):\n    assert isinstance(filename, Filename)\n    data = FileText(data)\n    temp_filename = Filename("%s.tmp.%s" % (filename, os.getpid(),))', '_SUFFIX = []\n\ndef _temp_suffix():\n    if not _SUFFIX:\n        _SUFFIX.append(os.getpid())\n    return _SUFFIX[0]\n\ndef atomic_write_file(filename: Filename, data):\n    assert isinstance(filename, Filename)\n    data = FileText(data)\n    temp_filename = Filename("%s.tmp.%s" % (filename, _temp_suffix(),))'),
 "c08-suffix-at-import": ("C08", "lib/python/pyflyby/_file.py", 'def atomic_write_file(filename: Filename, data):\n    assert isinstance(filename, Filename)\n    data = FileText(data)\n    temp_filename = Filename("%s.tmp.%s" % (filename, os.getpid(),))', '_TMP_SUFFIX = os.getpid()\n\ndef atomic_write_file(filename: Filename, data):\n    assert isinstance(filename, Filename)\n    data = FileText(data)\n    temp_filename = Filename("%s.tmp.%s" % (filename, _TMP_SUFFIX,))'),
}
def main(names):
    out = {}
    if not os.path.isdir(WT):
        sh("git -C /repo worktree add %s HEAD" % WT)
    for name in names:
        prop, path, old, new = MUT[name]
        reset()
        p = os.path.join(WT, path); s = open(p).read(); assert old in s, name
        s = s.replace(old, new, 1)
        if name == "c09-expand-realpath-dedup":
            s = s.replace("    stack = []\n    for pathname in reversed(pathnames):", "    stack = []\n    seen = set()\n    for pathname in reversed(pathnames):", 1)
        open(p, "w").write(s)
        t = sh("timeout 900 /venv/bin/python -m pytest -q -p no:cacheprovider tests/%s 2>&1 | grep -E 'passed|failed' | tail -1" % ("test_file.py tests/test_cmdline.py" if name == "c09-expand-realpath-dedup" else ("test_file.py" if prop == "C08" else "test_cmdline.py")), cwd=WT)
        env = dict(os.environ, VERIF_REPO=WT, VERIF_JOBS="4")
        r = sh("timeout 1500 ./check %s quick 2>&1 | tail -4" % prop, cwd=VERIF, env=env)
        last = r.stdout.strip().split("\n")
        viol = [l for l in last if l.startswith("VIOLATION")]
        clause = None
        if viol:
            m = re.search(r"replay=(\S+)", viol[0])
            try:
                d = json.load(open(m.group(1))); clause = d.get("name"); 
            except Exception as e: clause = str(e)
        out[name] = {"tests": t.stdout.strip(), "summary": last[-1], "first_violation": clause, "replay": viol[0] if viol else None}
        print(name, json.dumps(out[name])); sys.stdout.flush()
    reset()
main(sys.argv[1:] or list(MUT))

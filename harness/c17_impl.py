"""C17 implementation side: runs in a worker with pyflyby imported from $VERIF_REPO.
Builds the generated program in a scratch directory, raises the exception for real, calls
pyflyby.saveframe (or bin/saveframe's main), reads the file back raw and through SaveframeReader."""
import importlib
import inspect
import io
import linecache
import logging
import os
import pickle
import re
import shutil
import stat
import sys
import tempfile
import threading
import types

OLD_CONTENT = b"previous content of the file\n"


class Box:
    """a picklable value with equality"""
    def __init__(self, k):
        self.k = k

    def __eq__(self, other):
        return type(other) is Box and other.k == self.k

    def __repr__(self):
        return "Box(%r)" % (self.k,)


class BadReduce:
    def __init__(self, k, exc):
        self.k, self.exc = k, exc

    def __reduce_ex__(self, protocol):
        raise self.exc("cannot pickle BadReduce %d" % self.k)


def make_value(kind, k):
    if kind == "int":
        return 1000 + k
    if kind == "str":
        return "val%d é" % k
    if kind == "list":
        return [k, "x", [k + 1]]
    if kind == "dict":
        return {"#k": k, "#l": [k]}
    if kind == "tuple":
        return (k, "t")
    if kind == "box":
        return Box(k)
    if kind == "none":
        return None
    if kind == "float":
        return k + 0.5
    if kind == "bytes":
        return b"b%d" % k
    if kind == "nested":
        return {"#n": [Box(k), (k, {"#d": None})]}
    if kind == "biglist":
        return list(range(100000)) + [k]
    if kind == "bigstr":
        return ("s%d " % k) * 150000                     # about 1 MB
    if kind == "bigbytes":
        return (b"b%d-" % k) * 250000
    if kind == "bigdict":
        return {"#%d" % j: (j, "v%d" % (j % 7)) for j in range(30000 + k)}
    if kind == "deep":
        x = [k]
        for _ in range(300):
            x = [x]
        return x
    if kind == "shared":
        key = "key%d" % k
        d = {"alpha": key, "beta": [key, key], "gamma": (key,)}
        return [d, dict(d), d, {"alpha": d, "beta": key}, [key, "alpha", "beta"]]
    if kind == "bigunp":
        return list(range(100000)) + [k, (x for x in [k])]       # fails after ~300 KB of picklable prefix
    if kind == "bigunp_dict":
        d = {"#%d" % j: [j, "v"] for j in range(40000)}
        d["#last%d" % k] = threading.Lock()
        return d
    if kind == "bigunp_str":
        return ["x" * 70000, "y" * 70000, "z%d" % k * 70000, BadReduce(k, ValueError)]
    if kind == "toodeep":
        x = [k]
        for _ in range(100000):
            x = [x]
        return x
    if kind == "lambda":
        return lambda: k
    if kind == "gen":
        return (x for x in [k])
    if kind == "lock":
        return threading.Lock()
    if kind == "badreduce":
        return BadReduce(k, ValueError)
    if kind == "badreduce_t":
        return [k, BadReduce(k, TypeError)]
    if kind == "localcls":
        class Local:
            pass
        return Local()
    raise ValueError(kind)


def _invoke(fn):
    try:
        fn()
    except BaseException as e:
        return e
    return None


def _run_script(path):
    with open(path) as f:
        code = compile(f.read(), path, "exec")
    exec(code, {"__name__": "c17_entry", "__file__": path})


def safe_eq(a, b):
    if a is b:
        return True
    if type(a) is not type(b):
        return False
    try:
        if isinstance(a, BaseException):
            return repr(a.args) == repr(b.args)
        if type(a).__eq__ is object.__eq__ and hasattr(a, "__dict__") and not callable(a) and not isinstance(a, types.ModuleType):
            return vars(a) == vars(b)          # plain objects without __eq__ (e.g. __future__._Feature)
        return bool(a == b)
    except Exception:
        return False


class Values:
    """value ids = classes of live values under identity / equality"""
    def __init__(self):
        self.vals = []

    def vid(self, obj, add=True):
        for i, e in enumerate(self.vals):
            if safe_eq(e, obj):
                return i
        if not add:
            return -1
        self.vals.append(obj)
        return len(self.vals) - 1


def picklable(v):
    try:
        pickle.dumps(v, protocol=5)
        return True
    except Exception:
        return False


def chain_frames(exc):
    """the oracle's own walk: distance from the failure point, following cause then context"""
    out = []
    cur = exc
    seen = set()
    while cur is not None and id(cur) not in seen:
        seen.add(id(cur))
        tbs = []
        tb = cur.__traceback__
        while tb is not None:
            tbs.append(tb.tb_frame)
            tb = tb.tb_next
        out.extend(reversed(tbs))
        cur = cur.__cause__ if cur.__cause__ is not None else cur.__context__
    return out


def exn_tree(exc, uid, depth=0):
    if exc is None or depth > 6:
        return None
    tbs = []
    tb = exc.__traceback__
    while tb is not None:
        tbs.append(uid(tb.tb_frame))
        tb = tb.tb_next
    return {"tb": tbs, "cause": exn_tree(exc.__cause__, uid, depth + 1),
            "context": exn_tree(exc.__context__, uid, depth + 1) if exc.__cause__ is None else
                       ({"same_as_cause": True} if exc.__context__ is exc.__cause__ else exn_tree(exc.__context__, uid, depth + 1))}


def describe_frame(fr, values, tmp):
    mod = None
    try:
        m = inspect.getmodule(fr)
        mod = m.__name__ if m is not None else None
    except Exception:
        mod = None
    loc = []
    for name, val in list(fr.f_locals.items()):
        v = values.vid(val)
        loc.append([name, v])
    return {"file": fr.f_code.co_filename, "line": fr.f_lineno, "func": fr.f_code.co_name,
            "qual": getattr(fr.f_code, "co_qualname", fr.f_code.co_name),
            "module": mod if mod is not None else "Module name not found",
            "code": linecache.getline(fr.f_code.co_filename, fr.f_lineno).strip(),
            "globals_name": fr.f_globals.get("__name__"),
            "locals": loc}


def subst(x, tmp):
    if isinstance(x, str):
        return x.replace("{TMP}", tmp)
    if isinstance(x, list):
        return [subst(v, tmp) for v in x]
    if isinstance(x, tuple):
        return tuple(subst(v, tmp) for v in x)
    if isinstance(x, dict):
        return {k: subst(v, tmp) for k, v in x.items()}
    return x


def jsonable_arg(x):
    if isinstance(x, tuple):
        return {"tuple": list(x)}
    return x


def canon_exc(e):
    n = type(e).__name__
    if isinstance(e, re.error):
        return "error"
    return n


def canon_value(obj, values):
    return values.vid(obj, add=False)


def canon_reader_vars(res, names, values):
    """shape of a get_variables answer, decided from the answer alone"""
    names = set(names)

    def is_vardict(d):
        return isinstance(d, dict) and d and all(isinstance(k, str) and k in names for k in d)
    if isinstance(res, dict) and res and all(isinstance(k, int) and not isinstance(k, bool) for k in res):
        if all(is_vardict(v) for v in res.values()):
            return {"byframedict": [[k, [[n, canon_value(v, values)] for n, v in d.items()]] for k, d in res.items()]}
        return {"byframe": [[k, canon_value(v, values)] for k, v in res.items()]}
    if is_vardict(res):
        return {"dict": [[n, canon_value(v, values)] for n, v in res.items()]}
    return {"val": canon_value(res, values)}


def run_queries(path, queries, values, raw):
    from pyflyby import SaveframeReader
    out = []
    rd = SaveframeReader(path)
    for q in queries:
        try:
            if q[0] == "variables":
                v = rd.variables
                out.append({"variables": [[k, list(ns)] for k, ns in v.items()]})
            elif q[0] == "vars":
                names = q[1] if isinstance(q[1], list) else [q[1]]
                kw = {} if q[2] is None else {"frame_idx": q[2]}
                res = rd.get_variables(q[1], **kw)
                out.append(canon_reader_vars(res, names, values))
            else:
                kw = {} if q[2] is None else {"frame_idx": q[2]}
                res = rd.get_metadata(q[1], **kw)
                if q[1] in ("function_object", "exception_object", "traceback"):
                    # opaque fields: oracle-level facts only
                    if isinstance(res, dict):
                        out.append({"opaque": sorted(res), "types": [type(v).__name__ for v in res.values()]})
                    else:
                        out.append({"opaque": None, "types": [type(res).__name__]})
                elif isinstance(res, dict):
                    out.append({"map": [[k, v] for k, v in res.items()]})
                else:
                    out.append({"val": res})
        except Exception as e:
            out.append({"err": canon_exc(e)})
    # the `metadata` / `filename` / `data` properties
    props = {"metadata": list(rd.metadata), "filename_ok": rd.filename == path, "data_ok": rd.data == raw or list(rd.data) == list(raw)}
    return out, props


TAIL = {}          # what read_back found after the pickle (bytes that are not part of the dump)


def read_back(path, values, old_bytes=OLD_CONTENT):
    """raw content of the saved file (ALL its bytes), canonicalised"""
    TAIL.clear()
    with open(path, "rb") as f:
        data = f.read()
    if data == old_bytes:
        return "old", None, None
    try:
        bio = io.BytesIO(data)
        raw = pickle.Unpickler(bio).load()
        TAIL["n"] = len(data) - bio.tell()
        TAIL["bytes"] = data[bio.tell():]
    except Exception:
        return "truncated", None, None
    frames = []
    for k, v in raw.items():
        if not isinstance(k, int):
            continue
        ent = {"key": k, "index": v.get("frame_index"), "file": v.get("filename"), "line": v.get("lineno"),
               "func": v.get("function_name"), "qual": v.get("function_qualname"), "module": v.get("module_name"),
               "code": v.get("code"), "ident": v.get("frame_identifier"),
               "fields": sorted(v), "function_object_type": type(v.get("function_object")).__name__, "vars": []}
        fo = v.get("function_object")
        if isinstance(fo, bytes):
            try:
                o = pickle.loads(fo)
                ent["function_object_name"] = getattr(o, "__name__", None)
            except Exception as e:
                ent["function_object_name"] = "unpicklable:" + type(e).__name__
        for name, blob in v["variables"].items():
            try:
                obj = pickle.loads(blob)
                ent["vars"].append([name, canon_value(obj, values)])
            except Exception as e:
                ent["vars"].append([name, -2])
        frames.append(ent)
    exc = {k: raw.get(k) for k in ("exception_string", "exception_full_string", "exception_class_name", "exception_class_qualname")}
    exc["has_object"] = isinstance(raw.get("exception_object"), BaseException)
    eo = raw.get("exception_object")
    exc["object_kind"] = "object" if isinstance(eo, BaseException) else ("placeholder" if isinstance(eo, str) else type(eo).__name__)
    exc["object_args"] = repr(getattr(raw.get("exception_object"), "args", None))
    exc["object_tb_none"] = getattr(raw.get("exception_object"), "__traceback__", None) is None
    exc["traceback_type"] = type(raw.get("traceback")).__name__
    exc["keys"] = sorted(k for k in raw if not isinstance(k, int))
    return "data", {"frames": frames, "exc": exc}, raw


def impl_case(c):
    logging.disable(logging.CRITICAL)
    tmp = os.path.realpath(tempfile.mkdtemp(prefix="c17-"))
    before_mods = set(sys.modules)
    before_path = list(sys.path)
    old_umask = os.umask(0o022)
    os.umask(old_umask)
    try:
        return _impl(c, tmp)
    finally:
        os.umask(old_umask)
        sys.path[:] = before_path
        for m in set(sys.modules) - before_mods:
            if m.split(".")[0] in ("m0", "m1", "pkg", "c17_entry"):
                del sys.modules[m]
        importlib.invalidate_caches()
        linecache.clearcache()
        for a in ("last_exc", "last_value", "last_type", "last_traceback"):
            if hasattr(sys, a):
                try:
                    delattr(sys, a)
                except Exception:
                    pass
        shutil.rmtree(tmp, ignore_errors=True)


def _impl(c, tmp):
    import pyflyby._saveframe as SF
    root = os.path.join(tmp, c.get("root", "src"))
    prog = c["prog"]
    for rel, text in prog["files"].items():
        p = os.path.join(root, rel)
        os.makedirs(os.path.dirname(p), exist_ok=True)
        with open(p, "w") as f:
            f.write(text)
    sys.path.insert(0, root)
    importlib.invalidate_caches()
    V = [make_value(k, i) for i, k in enumerate(prog["values"])]
    mods = {}
    for m in prog["modules"]:
        mods[m] = importlib.import_module(m)
    for m in list(sys.modules):
        if m.split(".")[0] in ("m0", "m1", "pkg") and hasattr(sys.modules[m], "V"):
            sys.modules[m].V = V
    ent = prog["entry"]
    out = os.path.join(tmp, "out", "frames.pkl")
    os.makedirs(os.path.dirname(out))
    old_bytes = OLD_CONTENT
    if c.get("pre") is not None:
        if c.get("pre_kind") == "prior_dump":
            old_bytes = b""                      # replaced below by a real earlier dump
        elif c.get("pre_kind") == "junk_big":
            # a file longer than any dump of this case
            old_bytes = b"stale tail of an earlier dump; " * 40000
        with open(out, "wb") as f:
            f.write(old_bytes)
        os.chmod(out, c["pre"])
    eff = {"frames": subst(c["sel"]["arg"], root), "variables": c["variables"], "exclude": c["exclude"]}
    for k in ("frames", "variables", "exclude"):
        if isinstance(eff[k], dict) and "tuple" in eff[k]:
            eff[k] = tuple(eff[k]["tuple"])
    obs = {}
    values = Values()

    def observe(exc):
        """live observation, made immediately before the save"""
        frames = chain_frames(exc)
        uids = {}
        by_uid = {}

        def uid(fr):
            u = uids.setdefault(id(fr), len(uids))
            by_uid[u] = fr
            return u
        obs["tree"] = exn_tree(exc, uid)       # every frame of every exception reachable by cause / context
        for fr in frames:
            uid(fr)
        obs["frames"] = {str(u): describe_frame(fr, values, tmp) for u, fr in by_uid.items()}
        obs["order"] = [uid(fr) for fr in frames]
        obs["pk"] = [picklable(v) for v in values.vals]
        try:
            pickle.dumps(exc, protocol=5)
            obs["dump_ok"] = True
        except Exception:
            obs["dump_ok"] = False
        obs["live_exc"] = [str(exc), "%s: %s" % (type(exc).__name__, exc), type(exc).__name__, type(exc).__qualname__, repr(exc.args)]
        obs["cur"] = None
        if c.get("curframe") is not None and frames:
            cf = frames[c["curframe"] % len(frames)]
            obs["cur"] = uid(cf)
            return cf
        return None

    fres = {}

    def read_file():
        um = os.umask(0o022)
        try:
            if os.path.exists(out):
                st = os.stat(out)
                state, data, raw = read_back(out, values, prior.get("bytes", old_bytes))
                fres["file"] = {"mode": stat.S_IMODE(st.st_mode), "state": state}
                if data is not None:
                    # bytes after the pickle: the file must hold exactly the new dump
                    fres["file"]["trailing"] = TAIL.get("n", 0)
                    tail = TAIL.get("bytes", b"")
                    leaked = []
                    if tail:
                        fres["file"]["state"] = "data+tail"
                        for blob_name, blob in prior.get("blobs", []):
                            if blob and blob in tail:
                                leaked.append(blob_name)
                    fres["file"]["tail_holds"] = sorted(set(leaked))[:8]
                    TAIL.clear()
                if data is not None:
                    fres["saved"] = data
                    fres["queries"], fres["props"] = run_queries(out, c["queries"], values, raw)
            else:
                fres["file"] = None
        finally:
            os.umask(um)

    prior = {}

    def prior_dump(exc):
        """a first, larger save to the same path: every frame, no filter; then the mode of the case"""
        try:
            os.chmod(out, 0o644)
            SF._save_frames_and_exception_info_to_file(
                filename=out, frames=(1000, SF.FrameFormat.NUM), variables=None, exclude_variables=None, exception_obj=exc)
            with open(out, "rb") as f:
                prior["bytes"] = f.read()
            raw0 = pickle.loads(prior["bytes"])
            prior["blobs"] = [(n, b) for k, v in raw0.items() if isinstance(k, int) for n, b in v["variables"].items() if len(b) >= 12]
            # make sure it is longer than the second dump can be
            with open(out, "ab") as f:
                f.write(b"\0" * 64)
            prior["bytes"] += b"\0" * 64
        except Exception:
            with open(out, "wb") as f:
                f.write(old_bytes)
        os.chmod(out, c["pre"])

    rx = []
    real_search = re.search

    def rec_search(pattern, string, flags=0):
        try:
            r = real_search(pattern, string, flags)
        except re.error:
            rx.append([pattern, string, 2])
            raise
        rx.append([pattern, string, 1 if r is not None else 0])
        return r
    raised = None
    ret = None
    after_umask = None
    if c.get("script"):
        # bin/saveframe's own main(): it runs the program, catches the exception and saves
        import runpy
        if ent["kind"] == "call":
            spath = os.path.join(root, "entry_script.py")
            with open(spath, "w") as f:
                f.write("import %s\n%s.%s()\n" % (ent["module"], ent["module"], ent["expr"]))
        else:
            spath = os.path.join(root, ent["path"])
        argv = ["saveframe", "--filename=" + out]
        style = c.get("argv_style") or ["eq", "eq", "eq"]

        def opt(name, value, st):
            value = "%s" % (value,)
            if st == "sep" and not value.startswith("-"):
                argv.extend([name, value])
            else:
                argv.append(name + "=" + value)
        if eff["frames"] is not None:
            opt("--frames", eff["frames"], style[0])
        if eff["variables"] is not None:
            opt("--variables", eff["variables"], style[1])
        if eff["exclude"] is not None:
            opt("--exclude_variables", eff["exclude"], style[2])
        argv.append(spath)
        real_save = SF._save_frames_and_exception_info_to_file

        def save_wrapper(**kw):
            exc = kw["exception_obj"]
            if c.get("exc_unpicklable"):
                exc.args = exc.args + (lambda: 0,)
            observe(exc)
            try:
                return real_save(**kw)
            finally:
                read_file()            # before runpy / bin/saveframe mutate the live objects again (sys.argv)
        old_argv = sys.argv
        SF._save_frames_and_exception_info_to_file = save_wrapper
        sys.argv = argv
        re.search = rec_search
        os.umask(c["umask"])
        try:
            try:
                runpy.run_path(os.path.join(os.environ["VERIF_REPO"], "bin", "saveframe"), run_name="__main__")
                ret = out
            finally:
                after_umask = os.umask(0o022)
                re.search = real_search
                sys.argv = old_argv
                SF._save_frames_and_exception_info_to_file = real_save
        except SystemExit as e:
            raised = "SystemExit"
        except Exception as e:
            raised = canon_exc(e)
        if "order" not in obs:
            # the arguments were refused before the program ran: observe the same program raised directly
            exc = _invoke(lambda: _run_script(spath))
            observe(exc)
            del exc
    else:
        if ent["kind"] == "call":
            exc = _invoke(eval("lambda: %s()" % ent["expr"], vars(mods[ent["module"]])))
        elif ent["kind"] == "exec":
            path = os.path.join(root, ent["path"])
            exc = _invoke(lambda: _run_script(path))
        else:
            exc = ValueError("never raised")          # no traceback at all
        if c.get("exc_unpicklable"):
            exc.args = exc.args + (lambda: 0,)
        curframe = observe(exc)
        if c.get("pre") is not None and c.get("pre_kind") == "prior_dump":
            prior_dump(exc)
        sys.last_exc = exc
        sys.last_value = exc
        re.search = rec_search
        os.umask(c["umask"])
        try:
            try:
                ret = _outer(types.SimpleNamespace(curframe=curframe) if curframe is not None else None, out, eff)
            finally:
                after_umask = os.umask(0o022)
                re.search = real_search
        except Exception as e:
            raised = canon_exc(e)
            ret = None
        del exc, curframe
    res = dict(obs)
    res.update({"tmp": root, "eff": {k: jsonable_arg(v) for k, v in eff.items()}, "rx": rx,
                "raised": raised, "ret_ok": (ret == out) if raised is None else None, "umask_after": after_umask,
                "names_valid": names_valid([c["variables"], c["exclude"]]),
                "ints": ints_of(eff["frames"])})
    if "file" not in fres:
        read_file()
    res.update(fres)
    return res


def _call(out, eff):
    from pyflyby import saveframe
    return saveframe(filename=out, frames=eff["frames"], variables=eff["variables"], exclude_variables=eff["exclude"])


def _outer(self, out, eff):
    return _call(out, eff)


def names_valid(args):
    """CPython's str.isidentifier / keyword.iskeyword on every name that can reach validation"""
    import keyword
    names = set()
    for a in args:
        if a is None:
            continue
        if isinstance(a, dict):
            a = a["tuple"]
        if isinstance(a, str):
            for p in a.split(","):
                names.add(p)
                names.add(p.strip())
            names.add(a)
        else:
            names.update(a)
    return [[n, bool(n.isidentifier() and not keyword.iskeyword(n))] for n in sorted(names)]


def ints_of(frames):
    """CPython's int() on every piece of the frames argument the model may convert"""
    pieces = set()
    if isinstance(frames, str):
        pieces.add(frames)
        srcs = [frames]
    elif isinstance(frames, (list, tuple)):
        srcs = [x for x in frames if isinstance(x, str)]
    else:
        srcs = []
    for s in srcs:
        for a in re.split(r",|\.\.", s):
            for b in a.split(":"):
                pieces.add(b)
    out = []
    for p in sorted(pieces):
        try:
            out.append([p, int(p)])
        except ValueError:
            out.append([p, None])
    return out

"""C05 - missing-name analysis agrees with Python's name resolution (and the shared scope model M7).

Stages on every case (a generated term of coq/theories/Scope/PySyntax.v rendered to Python source):
  correspondence   find_missing_imports(src, namespaces) and scan_for_import_issues(PythonBlock(src))
                   against Scope/Finder.v (exact lists);
  environment      (executed stream) CPython's recorded failing global lookups against Scope/PySem.v;
  oracle           (executed stream, no model) executed NameErrors vs pyflyby's report:
                   soundness = every NameError name is reported, precision = every reported name has a
                   failing lookup (only when the program ran to its end).
The bytecode variant (_find_loads_without_stores_in_code) is not modelled."""
import json
import re

from . import common as cm
from . import c05_gen as G

REQ = ["Scope.PySyntax", "Scope.Finder", "Scope.PySem", "Scope.Fragment", "Scope.Check", "Scope.Wire"]

# the Python functions Scope/Finder.v transcribes
ANCHORS = ["pyflyby._autoimp:ScopeStack", "pyflyby._autoimp:symbol_needs_import", "pyflyby._autoimp:_MissingImportFinder",
           "pyflyby._autoimp:scan_for_import_issues", "pyflyby._autoimp:_find_missing_imports_in_ast",
           "pyflyby._autoimp:find_missing_imports"]


# ---------------------------------------------------------------------------------------------
# cases

def gen_ns(r):
    """initial namespaces: a stack of 1-2 levels; the helpers live in the first one"""
    lv = [[G.REG, G.DEC] + [n for n in G.NAMES if r.random() < .08]]
    if r.random() < .25:
        lv.append([n for n in G.NAMES if r.random() < .15])
    return lv


U2_IMPORTS = [lambda a: ["import", [[["pkg"], a]]], lambda a: ["from", ["m"], [["x", a]]],
              lambda a: ["import", [[["pkg", "sub"], a]]], lambda a: ["from", ["pkg"], [["sub", a]]]]


def to_u2(r, prog):
    """a stage-2 shaped program -> one of the unused-side fragment u2: no import statement of its own; 1-4 imports `as`
    fresh names (never a target: bound exactly once) at random top-level positions; some loads redirected to them"""
    fresh = ["imp%d" % k for k in range(1, r.randint(1, 4) + 1)]

    def ex(e):
        t = e[0]
        if t == "load":
            return ["load", r.choice(fresh), e[2]] if (e[1] not in (G.REG, G.DEC) and r.random() < .2) else e
        if t == "op":
            if e[1] == "call" and e[2] and e[2][0][0] == "load" and e[2][0][1] in (G.REG, G.DEC):
                # registration of a def / lambda: the registered object stays what it is
                return ["op", e[1], [x if x[0] == "load" else ex(x) for x in e[2]]]
            return ["op", e[1], [ex(x) for x in e[2]]]
        if t == "attr":
            return ["attr", ex(e[1]), e[2]]
        if t == "lambda":
            return ["lambda", e[1], [ex(x) for x in e[2]], ex(e[3])]
        return e

    def pr(P):
        P = dict(P)
        for k in ("posonly", "args", "kwonly"):
            P[k] = [[n, ex(a) if a is not None else None] for n, a in P[k]]
        for k in ("vararg", "kwarg"):
            if P[k] is not None:
                P[k] = [P[k][0], ex(P[k][1]) if P[k][1] is not None else None]
        P["defaults"] = [ex(x) for x in P["defaults"]]
        P["kw_defaults"] = [ex(x) if x is not None else None for x in P["kw_defaults"]]
        return P

    def st(x):
        t = x[0]
        if t in ("import", "from"):
            return ["pass"]
        if t == "expr":
            return ["expr", ex(x[1])]
        if t == "assign":
            return ["assign", x[1], ex(x[2])]
        if t == "aug":
            return ["aug", x[1], x[2], ex(x[3])]
        if t == "def":
            return ["def", x[1], [ex(d) for d in x[2]], pr(x[3]), ex(x[4]) if x[4] is not None else None, [st(y) for y in x[5]]]
        if t == "for":
            return ["for", x[1], ex(x[2]), [st(y) for y in x[3]], [st(y) for y in x[4]]]
        if t in ("while", "if"):
            return [t, ex(x[1]), [st(y) for y in x[2]], [st(y) for y in x[3]]]
        if t == "with":
            return ["with", [[ex(e), tg] for e, tg in x[1]], [st(y) for y in x[2]]]
        if t == "try":
            return ["try", [st(y) for y in x[1]], [[ty, nm, [st(y) for y in hb]] for ty, nm, hb in x[2]],
                    [st(y) for y in x[3]], [st(y) for y in x[4]]]
        return x
    out = [st(x) for x in prog]
    for a in fresh:
        out.insert(r.randint(0, len(out)), r.choice(U2_IMPORTS)(a))
    return out


def gen_clonecache(r):
    """two consecutive comprehensions with the same number of loop variables in one function or lambda body: the first
    (a generator expression, consumed on the spot) reads a name that is unresolved when visited, the second reads a loop
    variable of the FIRST.  Every deferred read records a copy of its top scope; if copies were ever shared between
    scopes of equal size (CPython reuses the address of the freed first comprehension scope for the second), the second
    read would be resolved against the first comprehension's variables.  The run raises NameError for that name."""
    pool = list(G.NAMES)
    r.shuffle(pool)
    z, later, u, v = pool[0], pool[1], pool[2], pool[3]
    nv = r.choice([1, 1, 2])
    v1 = pool[4:4 + nv]
    v2 = pool[6:6 + nv]

    def tg(vs):
        return ["n", vs[0]] if len(vs) == 1 else ["t", [["n", x] for x in vs]]
    first = ["op", "starlist", [["comp", "gen", [[["load", z, []], tg(v1), []]],
                                 [["op", "call", [["load", later, []], ["load", v1[0], []]]]]]]]
    k2 = r.choice(["set", "list", "dict"])
    elts = [["load", r.choice(v1), []]] if k2 != "dict" else [["load", v2[0], []], ["load", r.choice(v1), []]]
    second = ["comp", k2, [[["load", z, []], tg(v2), []]], elts]
    g = G.Gen(r, True, maxdepth=2, classes=False, comps=False)
    pre = g.stmt(0) if r.random() < .4 else []
    post = g.stmt(0) if r.random() < .4 else []
    if r.random() < .6:
        fn = r.choice(["f", "g"])
        P = {"posonly": [], "args": [[z, None]], "vararg": None, "kwonly": [], "kwarg": None, "defaults": [], "kw_defaults": []}
        body = [["assign", [["n", u]], first], ["assign", [["n", v]], second]]
        core = [["def", fn, [], P, None, body], ["assign", [["n", fn]], ["op", "call", [["load", G.REG, []], ["load", fn, []]]]]]
    else:
        core = [["expr", ["op", "call", [["load", G.REG, []], ["lambda", [z], [], ["op", "tuple", [first, second]]]]]]]
    tail = [["assign", [["n", later]], ["load", G.REG, []]]] if r.random() < .5 else []
    return pre + core + post + tail


def gen_classkw(r):
    """a class statement nested directly in a class body (1-2 levels) whose keyword arguments / bases read names bound only
    in the enclosing class body: Python evaluates them in that class body (the names are visible), and so must the
    finder (keywords visited in the enclosing scope).  The harness's __build_class__ accepts and drops the keywords."""
    pool = list(G.NAMES)
    r.shuffle(pool)
    outer, inner, inner2, m1, m2, src = pool[0], pool[1], pool[2], pool[3], pool[4], pool[5]
    g = G.Gen(r, True, maxdepth=1, classes=False, comps=False)

    def ld(n):
        return ["load", n, [r.choice(G.ATTRS)] if r.random() < .4 else []]
    bind = r.choice([["assign", [["n", m1]], ["load", G.REG, []]],
                     ["import", [[["m"], m1]]],
                     ["for", ["n", m1], ["op", "list", [["load", G.REG, []]]], [["pass"]], []]])
    kws = [ld(m1)] + ([ld(r.choice([m1, m2]))] if r.random() < .4 else [])
    bases = [ld(m1)] if r.random() < .3 else []
    ibody = [["pass"]]
    if r.random() < .4:
        ibody = [["assign", [["n", m2]], ["load", G.REG, []]], ["class", inner2, [], [], [ld(m2)], [["pass"]]]]
    body = [bind] + ([["assign", [["n", m2]], ["load", G.REG, []]]] if r.random() < .6 else []) \
        + [["class", inner, bases, [], kws, ibody]]
    pre = g.stmt(0) if r.random() < .3 else []
    core = [["class", outer, [], [], [], body], ["assign", [["n", outer]], ["op", "call", [["load", G.REG, []], ["load", outer, []]]]]]
    return pre + core


def gen_classinfunc(r):
    """a class statement nested (1-2 levels, optionally through a method) in a function; its CLASS BODY - an assignment value,
    or a statement inside for / if / try in the class body - reads a module-level name that is bound by a statement AFTER the
    enclosing def.  The function is registered and runs after the module: nothing raises, nothing may be reported."""
    pool = list(G.NAMES)
    r.shuffle(pool)
    fn, cn, cn2, late, late2, cv, meth = pool[0], pool[1], pool[2], pool[3], pool[4], pool[5], pool[6]
    P0 = {"posonly": [], "args": [], "vararg": None, "kwonly": [], "kwarg": None, "defaults": [], "kw_defaults": []}

    def rd(n):
        return ["load", n, [r.choice(G.ATTRS)] if r.random() < .5 else []]
    k = r.random()
    if k < .4:
        inner = [["assign", [["n", cv]], rd(late)]]
    elif k < .6:
        inner = [["for", ["n", cv], ["op", "list", [["load", G.REG, []]]], [["expr", rd(late)]], []]]
    elif k < .8:
        inner = [["if", ["load", G.REG, []], [["assign", [["n", cv]], rd(late)]], []]]
    else:
        inner = [["try", [["expr", rd(late)]], [], [], [["pass"]]]]
    if r.random() < .4:
        inner.append(["expr", ["op", "call", [rd(late2), rd(late)]]])
    cls = ["class", cn, [], [], [], inner]
    if r.random() < .3:
        cls = ["class", cn2, [], [], [], [["pass"], cls]]
    body = [cls]
    if r.random() < .3:
        # through a method: def fn(): class cn2: def meth(self): class cn: ...   (the method is registered too)
        PM = dict(P0); PM["args"] = [["self", None]]
        body = [["class", cn2, [], [], [], [["def", meth, [], PM, None, [cls]],
                                             ["assign", [["n", meth]], ["op", "call", [["load", G.REG, []], ["load", meth, []]]]]]]]
    g = G.Gen(r, True, maxdepth=1, classes=False, comps=False)
    mid = g.stmt(0) if r.random() < .4 else []
    binders = [r.choice([["assign", [["n", late]], ["load", G.REG, []]], ["import", [[["m"], late]]]]),
               ["assign", [["n", late2]], ["load", G.REG, []]]]
    return [["def", fn, [], P0, None, body], ["assign", [["n", fn]], ["op", "call", [["load", G.REG, []], ["load", fn, []]]]]] \
        + mid + binders


def make_case(seed, i, kind=None):
    r = cm.rng(seed, "c05", i)
    if kind is None and i % 25 == 24:
        kind = "cc"
    if kind is None and i % 25 == 4:
        kind = "cf"
    if kind == "cf":
        return {"kind": "exec", "i": i, "prog": G.normalise(gen_classinfunc(r)), "ns": gen_ns(r)}
    if kind is None and i % 25 == 14:
        kind = "ck"
    if kind == "cc":
        return {"kind": "exec", "i": i, "prog": G.normalise(gen_clonecache(r)), "ns": gen_ns(r)}
    if kind == "ck":
        return {"kind": "exec", "i": i, "prog": G.normalise(gen_classkw(r)), "ns": gen_ns(r)}
    if kind is None:
        # 2/10 stage-2 programs (functions and lambdas, no class / comprehension), 1/10 stage 1, the rest as before
        kind = {0: "s2", 1: "s2", 2: "s1", 4: "u2", 5: "s3", 6: "s3", 8: "u3"}.get(i % 10, "exec" if i % 4 != 3 else "free")
    if kind == "exec":
        prog = G.gen_program(r, True)
    elif kind == "s1":
        prog = G.gen_program(r, True, classes=False, funcs=False, comps=False)
        kind = "exec"
    elif kind == "s2":
        prog = G.gen_program(r, True, classes=False, funcs=True, comps=False)
        kind = "exec"
    elif kind == "s3":
        prog = G.gen_program(r, True, classes=False, funcs=True, comps=True)
        kind = "exec"
    elif kind == "u2":
        prog = to_u2(r, G.gen_program(r, True, classes=False, funcs=True, comps=False))
        kind = "exec"
    elif kind == "u3":
        prog = to_u2(r, G.gen_program(r, True, classes=False, funcs=True, comps=True))
        kind = "exec"
    else:
        prog = G.gen_program(r, False)
    return {"kind": kind, "i": i, "prog": G.normalise(prog), "ns": gen_ns(r)}


def prepare(case):
    """source text, Gallina term, id table"""
    ids = G.name_ids(case["prog"], extra=[n for lv in case["ns"] for n in lv])
    src, term, spans = G.render(case["prog"], ids)
    case["_spans"] = spans
    return src, term, ids


def builtin_names(ids):
    import builtins
    return sorted(n for n in ids if n in builtins.__dict__ or n == "__file__")


# ---------------------------------------------------------------------------------------------
# implementation side (worker process, pyflyby from $VERIF_REPO)

def impl_case(c):
    from pyflyby import find_missing_imports
    from pyflyby._autoimp import scan_for_import_issues
    from pyflyby._parse import PythonBlock
    src = c["src"]
    out = {}
    nss = [dict((n, 1) for n in lv) for lv in c["ns"]]
    try:
        out["fm"] = [str(x) for x in find_missing_imports(src, nss)]
    except Exception as e:
        out["fm"] = {"exc": type(e).__name__, "msg": str(e)[:200]}
    try:
        m, u = scan_for_import_issues(PythonBlock(src), find_unused_imports=True)
        out["scan"] = {"missing": [[ln, str(n)] for ln, n in m],
                       "unused": [[ln, imp.fullname, imp.import_as] for ln, imp in u]}
    except Exception as e:
        out["scan"] = {"exc": type(e).__name__, "msg": str(e)[:200]}
    if c["kind"] == "exec":
        out["run"] = run_real(src, [n for lv in c["ns"] for n in lv])
    return out


class V:
    """a value that accepts every operation the generated programs perform"""
    def __getattr__(s, n):
        if n.startswith('__') and n.endswith('__'):
            raise AttributeError(n)
        return V()
    def __call__(s, *a, **k): return V()
    def __iter__(s): return iter([V(), V()])
    def __enter__(s): return V()
    def __exit__(s, *a): return False
    def __add__(s, o): return V()
    def __radd__(s, o): return V()
    def __iadd__(s, o): return V()
    def __getitem__(s, k): return V()
    def __setitem__(s, k, v): pass
    def __bool__(s): return True
    def __hash__(s): return 1
    def __eq__(s, o): return True
    def __mro_entries__(s, bases): return ()


def run_real(src, nsnames):
    """execute the program: module level, then every registered function once, in registration order"""
    import builtins
    import importlib.abc
    import importlib.machinery
    import inspect
    import sys
    import types

    class VMod(V, types.ModuleType):
        pass

    class Finder(importlib.abc.MetaPathFinder, importlib.abc.Loader):
        def find_spec(self, name, path=None, target=None):
            if name.split('.')[0] in ('pkg', 'm', 'a', 'n'):
                return importlib.machinery.ModuleSpec(name, self, is_package=True)
            return None
        def create_module(self, spec):
            m = VMod(spec.name)
            m.__path__ = []
            return m
        def exec_module(self, module):
            pass

    class Rec(dict):
        def __missing__(s, key):
            if key in builtins.__dict__:
                raise KeyError(key)
            s.failed.append([sys._getframe(1).f_lineno, key])
            return V()

    class NS(dict):
        """class-body namespace: LOAD_NAME consults it first; a miss continues with the globals (through
        Rec.__missing__, as at module level) unless the name is a free variable of the class body"""
        def __missing__(s, key):
            fr = sys._getframe(1)
            if fr.f_code.co_code[fr.f_lasti] == DEREF_OP:
                raise KeyError(key)         # LOAD_FROM_DICT_OR_DEREF: continue with the enclosing function's cell
            if dict.__contains__(g, key):
                return dict.__getitem__(g, key)
            if key in builtins.__dict__:
                raise KeyError(key)
            g.failed.append([fr.f_lineno, key])
            return V()

    class Meta(type):
        @classmethod
        def __prepare__(mcls, name, bases, **kw):
            return NS()
        def __new__(mcls, name, bases, ns, **kw):
            return type.__new__(mcls, name, bases, dict(ns))
        def __init__(cls, name, bases, ns, **kw):
            type.__init__(cls, name, bases, dict(ns))

    def build_class(func, name, *bases, **kw):
        return builtins.__build_class__(func, name, *bases, metaclass=Meta)

    import dis
    DEREF_OP = dis.opmap["LOAD_FROM_DICT_OR_DEREF"]
    reg = []

    def reg_(f):
        if isinstance(f, types.FunctionType):
            reg.append(f)
        return V()

    g = Rec({n: V() for n in nsnames})
    g.failed = []
    bdict = dict(builtins.__dict__)
    bdict["__build_class__"] = build_class
    g.update({G.REG: reg_, G.DEC: (lambda v: (lambda f: f)), "__name__": "prog", "__builtins__": bdict})
    early = []

    def prof(frame, event, arg):
        if event == 'call' and frame.f_code.co_filename == '<p>':
            fl = frame.f_code.co_flags
            if (fl & 0x1) and not (fl & 0x20):
                early.append(frame.f_code.co_name)

    def describe(e):
        import traceback
        while e.__context__ is not None:        # an exception raised in a finally block hides the first one
            e = e.__context__
        ln = None
        for fr in traceback.extract_tb(e.__traceback__):
            if fr.filename == '<p>':
                ln = fr.lineno
        name = getattr(e, "name", None)
        if name is None and isinstance(e, NameError):
            m = re.search(r"variable '(\w+)'", str(e))
            name = m.group(1) if m else None
        return {"type": type(e).__name__, "name": name, "line": ln, "msg": str(e)[:120]}

    finder = Finder()
    sys.meta_path.insert(0, finder)
    saved = set(sys.modules)
    excs = []
    try:
        code = compile(src, '<p>', 'exec')
        sys.setprofile(prof)
        mod_exc = None
        try:
            exec(code, g)
        except Exception as e:
            mod_exc = describe(e)
            excs.append(mod_exc)
        finally:
            sys.setprofile(None)
        ncalls = 0
        if not excs:
            i = 0
            while i < len(reg) and i < 2000:
                f = reg[i]
                i += 1
                sig = inspect.signature(f)
                args, kwargs = [], {}
                for p in sig.parameters.values():
                    if p.default is p.empty:
                        if p.kind in (p.POSITIONAL_ONLY, p.POSITIONAL_OR_KEYWORD):
                            args.append(V())
                        elif p.kind == p.KEYWORD_ONLY:
                            kwargs[p.name] = V()
                try:
                    f(*args, **kwargs)
                except Exception as e:
                    excs.append(describe(e))
                ncalls += 1
        return {"unbound": sorted(set(map(tuple, g.failed))), "excs": excs, "early": early[:3], "calls": ncalls,
                "module_aborted": mod_exc is not None}
    finally:
        sys.meta_path.remove(finder)
        for k in set(sys.modules) - saved:
            del sys.modules[k]


# ---------------------------------------------------------------------------------------------
# model side

def model_expr(case, term, ids):
    bi = G.Render.L(["%d%%N" % ids[n] for n in builtin_names(ids)])
    ns = G.Render.L([G.Render.L(["%d%%N" % ids[n] for n in lv]) for lv in case["ns"]])
    return "run_all %s %s %s" % (bi, ns, term)


def decode(model, ids):
    rev = {v: k for k, v in ids.items()}

    def dn(d):
        return ".".join(rev[x] for x in d)
    out = {"fm": [dn(d) for d in model["fm"]],
           "scan": {"missing": [[ln, dn(d)] for ln, d in model["scan"]["missing"]],
                    "unused": [[ln, dn(f), dn(a)] for ln, f, a in model["scan"]["unused"]]},
           "trace": [[ln, rev[n], r] for ln, n, r in model["trace"]]}
    for k in ("stage", "star_free", "sound", "precise", "exact", "ustage", "unused_ok", "dx", "unused_doc_ok", "tstage", "tsound", "tprecise"):
        if k in model:
            out[k] = model[k]
    if "scandoc" in model:
        out["scandoc"] = {"missing": [[ln, dn(d)] for ln, d in model["scandoc"]["missing"]],
                          "unused": [[ln, dn(f), dn(a)] for ln, f, a in model["scandoc"]["unused"]]}
    return out


# ---------------------------------------------------------------------------------------------
# known findings: classifiers over (term, missed name, line).  See known_findings.d/C05.json.

def walk(prog, f, path=()):
    """f(stmt, path) for every statement; path = tuple of enclosing ('def'|'class'|..., name) frames"""
    for s in prog:
        f(s, path)
        t = s[0]
        if t in ("def", "class"):
            walk(s[5], f, path + ((t, s[1]),))
        elif t == "for":
            walk(s[3], f, path)
            walk(s[4], f, path)
        elif t in ("while", "if"):
            walk(s[2], f, path)
            walk(s[3], f, path)
        elif t == "with":
            walk(s[2], f, path)
        elif t == "try":
            walk(s[1], f, path)
            for h in s[2]:
                walk(h[2], f, path)
            walk(s[3], f, path)
            walk(s[4], f, path)


def has_class_named(prog, name):
    found = []
    walk(prog, lambda s, p: found.append(1) if (s[0] == "class" and s[1] == name) else None)
    return bool(found)


def has_attr_store_rooted(prog, name):
    found = []

    def tg(t):
        if t[0] == "a" and t[1] == name:
            found.append(1)
        elif t[0] == "t":
            for x in t[1]:
                tg(x)

    def f(s, p):
        if s[0] == "assign":
            for t in s[1]:
                tg(t)
        elif s[0] == "for":
            tg(s[1])
        elif s[0] == "with":
            for _, t in s[1]:
                if t is not None:
                    tg(t)
    walk(prog, f)
    return bool(found)


def expr_has_comp_in_class(prog):
    return True


def in_class_somewhere(prog):
    found = []
    walk(prog, lambda s, p: found.append(1) if s[0] == "class" else None)
    return bool(found)


def comp_targets(prog):
    """names that are a comprehension target somewhere in the program"""
    acc = set()

    def ex(e):
        if e is None:
            return
        t = e[0]
        if t == "op":
            for x in e[2]:
                ex(x)
        elif t == "attr":
            ex(e[1])
        elif t == "lambda":
            for x in e[2]:
                ex(x)
            ex(e[3])
        elif t == "comp":
            for it, tg, ifs in e[2]:
                ex(it)
                tnames(tg, acc)
                for x in ifs:
                    ex(x)
            for x in e[3]:
                ex(x)

    def tnames(t, acc):
        if t[0] == "n":
            acc.add(t[1])
        elif t[0] == "t":
            for x in t[1]:
                tnames(x, acc)

    def f(s, p):
        for x in stmt_exprs(s):
            ex(x)
    walk(prog, f)
    return acc


def stmt_exprs(s):
    t = s[0]
    if t == "expr":
        return [s[1]]
    if t == "assign":
        return [s[2]]
    if t == "aug":
        return [s[3]]
    if t == "def":
        P = s[3]
        out = list(s[2]) + list(P["defaults"]) + [x for x in P["kw_defaults"] if x is not None]
        for p in P["posonly"] + P["args"] + P["kwonly"] + [q for q in (P["vararg"], P["kwarg"]) if q]:
            if p[1] is not None:
                out.append(p[1])
        if s[4] is not None:
            out.append(s[4])
        return out
    if t == "class":
        return list(s[2]) + list(s[3]) + list(s[4])
    if t == "for":
        return [s[2]]
    if t in ("while", "if"):
        return [s[1]]
    if t == "with":
        return [e for e, _ in s[1]]
    if t == "try":
        return [h[0] for h in s[2] if h[0] is not None]
    return []


def classify_miss(case, name, line):
    """which known finding (if any) explains that CPython raised NameError for [name] at [line] and
    pyflyby did not report it.  Predicates over the generated term and its rendering (line spans) only."""
    prog, spans = case["prog"], case["_spans"]
    classes = []          # (stmt, path)
    walk(prog, lambda s, p: classes.append((s, p)) if s[0] == "class" else None)
    inside = [(s, p) for s, p in classes if spans[id(s)][0] < line <= spans[id(s)][1]]
    # F10-class: the name of a class statement - read in that class's own body / method defaults, before
    # the class statement (the entry is deleted when the class is visited), or from a function body
    # that sees the finder's _class_delayed scope
    for s, p in classes:
        if s[1] == name:
            hdr, last = spans[id(s)]
            if line <= last or in_function_body(prog, spans, line):
                return "F10-class"
    # class-level names of a class whose body contains the line
    for s, p in inside:
        if name in block_binds(s[5]):
            if any(k == "def" for k, _ in p) and name in enclosing_function_locals(prog, s):
                return "F10-classrebind"    # LOAD_NAME ignores the enclosing function's local
            return "F10-classcomp"          # a nested scope in the class body reads a class-level name
    if has_attr_store_rooted(prog, name):
        return "F10-attrstore"
    if name in comp_targets_at(prog, spans, line):
        return "F10-firstiter"
    return None


def in_function_body(prog, spans, line):
    found = []
    walk(prog, lambda s, p: found.append(1) if (s[0] == "def" and spans[id(s)][0] < line <= spans[id(s)][1]) else None)
    if found:
        return True
    # a lambda body on that line is a function body too
    return bool(lambdas_at(prog, spans, line))


def block_binds(body):
    acc = set()
    walk(body, lambda s, p: acc.update(stmt_binds(s)) if not p else None)
    return acc


def enclosing_function_locals(prog, cls):
    """parameters and body-bound names of every def that contains the class statement"""
    acc = set()

    def f(s, p):
        if s[0] == "def":
            inner = []
            walk(s[5], lambda x, q: inner.append(x))
            if any(x is cls for x in inner):
                P = s[3]
                for q in P["posonly"] + P["args"] + P["kwonly"] + [z for z in (P["vararg"], P["kwarg"]) if z]:
                    acc.add(q[0])
                acc.update(block_binds(s[5]))
    walk(prog, f)
    return acc


def exprs_at(prog, spans, line):
    """header expressions of the statement whose header (or decorator) is on that line"""
    out = []

    def f(s, p):
        hdr = spans[id(s)][0]
        if s[0] in ("def", "class"):
            decos = s[2] if s[0] == "def" else s[3]
            for i, d in enumerate(decos):
                if hdr - len(decos) + i == line:
                    out.append(d)
            if hdr == line:
                out.extend(x for x in stmt_exprs(s) if not any(x is d for d in decos))
        elif hdr == line:
            out.extend(stmt_exprs(s))
    walk(prog, f)
    return out


def sub_exprs(e, acc):
    if e is None:
        return
    acc.append(e)
    t = e[0]
    if t == "op":
        for x in e[2]:
            sub_exprs(x, acc)
    elif t == "attr":
        sub_exprs(e[1], acc)
    elif t == "lambda":
        for x in e[2]:
            sub_exprs(x, acc)
        sub_exprs(e[3], acc)
    elif t == "comp":
        for it, tg, ifs in e[2]:
            sub_exprs(it, acc)
            for x in ifs:
                sub_exprs(x, acc)
        for x in e[3]:
            sub_exprs(x, acc)


def lambdas_at(prog, spans, line):
    acc = []
    for e in exprs_at(prog, spans, line):
        sub_exprs(e, acc)
    return [e for e in acc if e[0] == "lambda"]


def comp_targets_at(prog, spans, line):
    acc, out = [], set()
    for e in exprs_at(prog, spans, line):
        sub_exprs(e, acc)

    def tn(t):
        if t[0] == "n":
            out.add(t[1])
        elif t[0] == "t":
            for x in t[1]:
                tn(x)
    for e in acc:
        if e[0] == "comp":
            for it, tg, ifs in e[2]:
                tn(tg)
    return out


def class_level_names(prog):
    acc = set()

    def f(s, p):
        if p and p[-1][0] == "class":
            for n in stmt_binds(s):
                acc.add(n)
    walk(prog, f)
    return acc


def stmt_binds(s):
    t = s[0]
    out = []

    def tn(x):
        if x[0] == "n":
            out.append(x[1])
        elif x[0] == "t":
            for y in x[1]:
                tn(y)
    if t == "assign":
        for x in s[1]:
            tn(x)
    elif t == "aug" and not s[2]:
        out.append(s[1])
    elif t == "import":
        for d, a in s[1]:
            out.append(a or d[0])
    elif t == "from":
        for n, a in s[2]:
            out.append(a or n)
    elif t in ("def", "class"):
        out.append(s[1])
    elif t == "for":
        tn(s[1])
    elif t == "with":
        for _, x in s[1]:
            if x is not None:
                tn(x)
    elif t == "try":
        for h in s[2]:
            if h[1]:
                out.append(h[1])
    return out


# ---------------------------------------------------------------------------------------------
# the three comparisons

def check_case(ctx, case, src, ids, im, mo):
    """im = implementation result, mo = decoded model result"""
    rec = {"i": case.get("i", 0), "kind": case["kind"], "src": src, "ns": case["ns"], "prog": case["prog"]}
    nontriv = False
    # 0. which fragment the program falls in, and the theorem statements of that fragment evaluated on it
    stage = mo.get("stage", 0) if mo.get("star_free", True) else 0
    ctx.bump("fragment:stage%d" % stage if stage else "fragment:outside")
    if stage == 1 and not mo.get("exact", True):
        ctx.disagreement("statement check: C05_missing_exact_stage1 is false on this program", rec, None, mo.get("trace"))
    if stage >= 1 and not (mo.get("sound", True) and mo.get("precise", True)):
        ctx.disagreement("statement check: stage-%d soundness / precision is false on this program" % stage, rec,
                         {"sound": mo.get("sound"), "precise": mo.get("precise")}, mo.get("trace"))
    tstage = mo.get("tstage", 0) if mo.get("star_free", True) else 0
    ctx.bump("tfragment:stage%d" % tstage if tstage else "tfragment:outside")
    if tstage >= 2 and not (mo.get("tsound", True) and mo.get("tprecise", True)):
        ctx.disagreement("statement check: stage-%d soundness / precision of scan_for_import_issues' missing list is false" % tstage,
                         rec, {"sound": mo.get("tsound"), "precise": mo.get("tprecise")}, mo.get("trace"))
    ustage = mo.get("ustage", 0) if mo.get("star_free", True) else 0
    ctx.bump("ufragment:stage%d" % ustage if ustage else "ufragment:outside")
    if ustage >= 1 and not mo.get("unused_ok", True):
        ctx.disagreement("statement check: stage-%d unused_sound is false on this program" % ustage, rec, None, mo.get("trace"))
    # 1. correspondence
    if isinstance(im["fm"], dict) or "exc" in im["scan"]:
        ctx.bump("impl_exception")
        ctx.disagreement("pyflyby raised on a generated program", rec, im, None)
    else:
        if im["fm"] != mo["fm"]:
            ctx.disagreement("find_missing_imports", rec, im["fm"], mo["fm"])
        if im["scan"]["missing"] != mo["scan"]["missing"]:
            ctx.disagreement("scan_for_import_issues.missing", rec, im["scan"]["missing"], mo["scan"]["missing"])
        if im["scan"]["unused"] != mo["scan"]["unused"]:
            ctx.disagreement("scan_for_import_issues.unused", rec, im["scan"]["unused"], mo["scan"]["unused"])
        nontriv = bool(im["fm"]) or bool(im["scan"]["unused"])
        ctx.bump("missing_nonempty" if im["fm"] else "missing_empty")
        ctx.bump("unused_nonempty" if im["scan"]["unused"] else "unused_empty")
    # 2./3. executed stream
    if case["kind"] == "exec" and "run" in im:
        run = im["run"]
        full = not run["excs"] and not run["early"]
        ctx.bump("executed_fully" if full else ("executed_early_call" if run["early"] else "executed_with_exception"))
        cp = sorted(set((ln, n) for ln, n in run["unbound"]))
        ps_unb = sorted(set((ln, n) for ln, n, r in mo["trace"] if r[0] == "unbound"))
        ps_ubl = sorted(set((ln, n) for ln, n, r in mo["trace"] if r[0] == "unboundlocal"))
        if full:
            ctx.bump("env_compared")
            if cp != ps_unb:
                ctx.disagreement("PySem vs CPython: failing global lookups", rec, cp, ps_unb)
            if ps_ubl:
                ctx.disagreement("PySem predicts a failing local lookup but CPython ran to the end", rec, [], ps_ubl)
        else:
            for ex in run["excs"][:1]:          # later exceptions may be consequences of the first abort
                if ex["type"] in ("UnboundLocalError", "NameError") and ex["name"] is not None:
                    ctx.bump("cpython_unboundlocal")
                    if (ex["line"], ex["name"]) in ps_ubl:
                        pass
                    elif (ex["type"] == "UnboundLocalError" or "free variable" in ex.get("msg", "")) \
                            and ex["name"] in comp_targets(case["prog"]):
                        # CPython 3.12.1 (PEP 709 inlining): a name that is the target of one inlined
                        # comprehension is read as an (unbound) fast local inside a later comprehension of
                        # the same function - or, when a sibling lambda / def closes over that name, as an
                        # unbound cell ("cannot access free variable ... in enclosing scope", a NameError) although
                        # the language resolves it to the enclosing function's or the global binding.
                        # Interpreter quirk, outside PySem; the run is not compared.
                        ctx.bump("cpython_pep709_quirk")
                    else:
                        ctx.disagreement("CPython raised %s but PySem has no failing local lookup there" % ex["type"],
                                         rec, ex, ps_ubl)
                elif not run["early"]:
                    ctx.bump("cpython_other_exception:" + ex["type"])
        # oracle: no model involved.  A run whose module-level code was aborted by an exception is not
        # used at all (its finally blocks ran with earlier assignments skipped).
        if not isinstance(im["fm"], dict) and not run["module_aborted"] and not run["early"]:
            reported = set(x.split(".")[0] for x in im["fm"])
            for ln, n in cp:
                if n not in reported:
                    fid = classify_miss(case, n, ln)
                    if fid:
                        ctx.known_hit(fid, "NameError name not reported (%s)" % KNOWN_WHAT.get(fid, fid))
                        ctx.bump("known:" + fid)
                    else:
                        ctx.violation("missing_sound", rec, {"name": n, "line": ln, "reported": im["fm"], "cpython": cp})
                    break
            if full:
                raised = set(n for _, n in cp)
                extra = sorted(reported - raised)
                if extra:
                    ctx.violation("missing_precise", rec, {"extra": extra, "reported": im["fm"], "cpython": cp})
            if cp:
                nontriv = True
    ctx.count({"src": src, "ns": case["ns"]}, nontriv)
    if nontriv:
        ctx.sample({"src": src, "ns": case["ns"], "find_missing_imports": im.get("fm"),
                    "cpython_unbound": im.get("run", {}).get("unbound")})


KNOWN_WHAT = {
    "F10-class": "class name read in its own body / defaults, before a later class statement of that name, or through the delayed-class scope",
    "F10-classcomp": "nested scope in a class body reads a class-level name",
    "F10-classrebind": "class body that rebinds a name of the enclosing function reads it with LOAD_NAME",
    "F10-attrstore": "attribute store through an unbound base name, find_unused_imports off",
    "F10-firstiter": "deferred read inside a first iterable sees the comprehension target",
}


def run_cases(ctx, cases):
    prepared = [prepare(c) for c in cases]
    wcases = [{"kind": c["kind"], "src": p[0], "ns": c["ns"]} for c, p in zip(cases, prepared)]
    impl = cm.run_impl("c05", "impl_case", wcases, timeout_case=20)
    exprs = [model_expr(c, p[1], p[2]) for c, p in zip(cases, prepared)]
    model = cm.coq_eval_json(REQ, exprs, shard=60)
    for c, p, im, mo in zip(cases, prepared, impl, model):
        if "__exc__" in im or "__timeout__" in im:
            ctx.bump("worker_exception" if "__exc__" in im else "worker_timeout")
            ctx.count({"src": p[0]}, False)
            continue
        check_case(ctx, c, p[0], p[2], im, decode(mo, p[2]))
    ctx.notes["model_evaluations_in_kernel"] = ctx.notes.get("model_evaluations_in_kernel", 0) + len(exprs)


def run_witnesses(ctx):
    """replay the witness of every open known finding on the implementation and on CPython"""
    cases, meta = [], []
    for e in ctx.open_findings():
        w = e.get("witness") or {}
        if w.get("kind") == "unused":
            continue                              # replayed by run_unused_witnesses
        for k, pw in enumerate(w.get("progs", [])):
            cases.append({"kind": "exec", "i": -1 - len(cases), "prog": pw["prog"], "ns": w["ns"]})
            meta.append((e["id"], pw))
    if not cases:
        return
    prepared = [prepare(c) for c in cases]
    wcases = [{"kind": "exec", "src": p[0], "ns": c["ns"]} for c, p in zip(cases, prepared)]
    impl = cm.run_impl("c05", "impl_case", wcases, timeout_case=20, jobs=1)
    for (fid, pw), c, p, im in zip(meta, cases, prepared, impl):
        assert p[0] == pw["src"], (p[0], pw["src"])
        ctx.bump("witness_replayed")
        raised = set(n for _, n in im["run"]["unbound"])
        reported = set(x.split(".")[0] for x in im["fm"])
        if pw["name"] in raised and pw["name"] not in reported:
            ctx.known_hit(fid, "NameError name not reported (%s); witness %r" % (KNOWN_WHAT.get(fid, fid), pw["src"]))
        elif pw["name"] not in raised:
            ctx.disagreement("known-finding witness: CPython did not raise NameError", {"src": p[0], "ns": c["ns"], "prog": c["prog"], "kind": "exec"}, im, fid)
        else:
            ctx.bump("witness_no_longer_reproduces:" + fid)


P0 = {"posonly": [], "args": [], "vararg": None, "kwonly": [], "kwarg": None, "defaults": [], "kw_defaults": []}
FRAGMENT_WITNESSES = [
    # (id, kind, program, name): the programs of the *_refuted_star / _orelse / _all / _exact_refuted_stage2 theorems
    ("star", "free", [["from", ["m"], [["*", None]]], ["expr", ["load", "q", []]]], "q"),
    ("orelse", "free", [["if", ["op", "const", []], [["pass"]], [["expr", ["load", "q", []]]]]], "q"),
    ("all", "free", [["all", ["q"]]], "q"),
    ("unboundlocal", "exec",
     [["def", "f", [], dict(P0), None, [["expr", ["load", "q", []]], ["assign", [["n", "q"]], ["op", "const", []]]]],
      ["assign", [["n", "f"]], ["op", "call", [["load", "reg_", []], ["load", "f", []]]]]], "q"),
]


def run_fragment_witnesses(ctx):
    """the witnesses that delimit the proved fragments (Properties/C05.v: *_refuted_star, _orelse, _all,
    C05_missing_exact_refuted_stage2), replayed on the implementation, the model and - where the program can run -
    CPython: the stated outcome must be what all sides show"""
    cases = [{"kind": k, "i": -100 - j, "prog": prog, "ns": [["reg_", "dec_", "d"]]} for j, (_, k, prog, _) in enumerate(FRAGMENT_WITNESSES)]
    prepared = [prepare(c) for c in cases]
    wcases = [{"kind": c["kind"], "src": p[0], "ns": c["ns"]} for c, p in zip(cases, prepared)]
    impl = cm.run_impl("c05", "impl_case", wcases, timeout_case=20, jobs=1)
    model = cm.coq_eval_json(REQ, [model_expr(c, p[1], p[2]) for c, p in zip(cases, prepared)])
    for (wid, kind, _, name), c, p, im, mo0 in zip(FRAGMENT_WITNESSES, cases, prepared, impl, model):
        mo = decode(mo0, p[2])
        rec = {"i": c["i"], "kind": kind, "src": p[0], "ns": c["ns"], "prog": c["prog"]}
        ctx.bump("fragment_witness_replayed")
        reads = [(ln, r[0]) for ln, n, r in mo["trace"] if n == name]
        if im.get("fm") != mo["fm"]:
            ctx.disagreement("fragment witness %s: find_missing_imports" % wid, rec, im.get("fm"), mo["fm"])
            continue
        if wid == "star":
            ok = im["fm"] == [] and any(r == "unbound" for _, r in reads) and mo.get("stage", 0) == 0
        elif wid in ("orelse", "all"):
            ok = im["fm"] == [name] and not reads and mo.get("stage", 0) == 0
        else:
            excs = im.get("run", {}).get("excs", [])
            ok = (im["fm"] == [name] and any(r == "unboundlocal" for _, r in reads) and mo.get("stage", 0) == 2
                  and bool(excs) and excs[0]["type"] == "UnboundLocalError" and excs[0]["name"] == name)
        if not ok:
            ctx.disagreement("fragment witness %s does not show the stated outcome" % wid, rec, im, mo.get("trace"))


def run_unused_witnesses(ctx):
    """known findings about the unused report (witness kind 'unused'): the implementation reports the import unused,
    the model agrees, and the model's PySem trace has a read bound to that very import"""
    cases, meta = [], []
    for e in ctx.open_findings():
        w = e.get("witness") or {}
        if w.get("kind") != "unused":
            continue
        for pw in w.get("progs", []):
            cases.append({"kind": "free", "i": -200 - len(cases), "prog": pw["prog"], "ns": w["ns"]})
            meta.append((e["id"], pw))
    if not cases:
        return
    prepared = [prepare(c) for c in cases]
    wcases = [{"kind": "free", "src": p[0], "ns": c["ns"]} for c, p in zip(cases, prepared)]
    impl = cm.run_impl("c05", "impl_case", wcases, timeout_case=20, jobs=1)
    model = cm.coq_eval_json(REQ, [model_expr(c, p[1], p[2]) for c, p in zip(cases, prepared)])
    for (fid, pw), c, p, im, mo0 in zip(meta, cases, prepared, impl, model):
        assert p[0] == pw["src"], (p[0], pw["src"])
        mo = decode(mo0, p[2])
        rec = {"i": c["i"], "kind": "free", "src": p[0], "ns": c["ns"], "prog": c["prog"]}
        ctx.bump("witness_replayed")
        if im["scan"]["unused"] != mo["scan"]["unused"]:
            ctx.disagreement("known-finding witness %s: scan_for_import_issues.unused" % fid, rec, im["scan"]["unused"], mo["scan"]["unused"])
            continue
        reported = any(ln == pw["line"] and full == pw["import"] for ln, full, _ in im["scan"]["unused"])
        used = any(ln == pw["read_line"] and n == pw["name"] and r[0] == "imp" and r[1] == pw["line"] for ln, n, r in mo["trace"])
        if reported and used:
            ctx.known_hit(fid, "import reported unused although a read resolves to it; witness %r" % pw["src"])
        elif not used:
            ctx.disagreement("known-finding witness %s: the model's trace has no read bound to the import" % fid, rec, im, mo["trace"])
        else:
            ctx.bump("witness_no_longer_reproduces:" + fid)


# ---------------------------------------------------------------------------------------------
# oracle-only stream: the initial namespace holds REAL module objects (symbol_needs_import's walk through modules;
# modelled on the C06 / C20 side - AutoImp/Needs.v -, here only executed)

MODS_STD = {"os": ["path", "sep", "altsep", "getcwd", "__dict__", "__class__", "__name__", "nope"],
            "json": ["decoder", "dumps", "__spec__", "nope"],
            "collections": ["abc", "OrderedDict", "__doc__", "nope"],
            "concurrent": ["futures", "nope"],
            "importlib": ["machinery", "import_module", "__dir__", "nope"]}
MODS_STD2 = {"os.path": ["join", "sep", "altsep", "__class__", "nope"], "json.decoder": ["JSONDecoder", "nope"],
             "collections.abc": ["Mapping", "nope"], "concurrent.futures": ["ThreadPoolExecutor", "Future", "wait", "nope"],
             "importlib.machinery": ["ModuleSpec", "nope"]}


def make_mods_case(seed, i):
    """a namespace of real modules and a source whose lines read dotted chains through them.  Generated modules (all
    registered in sys.modules under the name they have in the namespace, as symbol_needs_import demands):
      zpep       attributes served by a module-level __getattr__ (PEP 562), cached or not, next to static ones
      zpkg       a package: zpkg.sub a real submodule; zpkg.lz* created, registered and set by the package's __getattr__ on
                 first access (lazy importer); every submodule has a PEP 562 attribute of its own
      zsub       an instance of a ModuleType subclass: class attribute, property, instance attribute
    plus stdlib modules (attributes inherited from ModuleType such as __dict__ / __class__; concurrent.futures serves
    ThreadPoolExecutor through PEP 562 until first use)."""
    r = cm.rng(seed, "c05mods", i)
    # attributes whose names end in "n" hold None (os.altsep, an unset option): a value, not a missing attribute
    spec = {"zpep": {"static": ["sa", "sb", "son"], "dyn": ["da", "db", "dyn"], "cache": r.random() < .5},
            "zpkg": {"static": ["pa", "pan"], "subs": ["sub"], "lazy": ["lza", "lzb"], "subdyn": ["sd", "sdn"], "substatic": ["sx", "sxn"]},
            "zsub": {"cls": ["inh", "inhn"], "prop": ["pr", "prn"], "own": ["oa", "oan"]}}
    roots = ["zpep", "zpkg", "zsub"] + list(MODS_STD)
    present = [x for x in roots if r.random() < .8]
    extra = [x for x in ["zzmiss", "plainv"] if r.random() < .5]        # zzmiss: not in the namespace; plainv: a non-module value
    lines = []
    for _ in range(r.randint(3, 9)):
        root = r.choice(roots + ["zzmiss", "plainv"])
        if root == "zpep":
            chain = [r.choice(spec["zpep"]["static"] + spec["zpep"]["dyn"] + ["nope"])]
            if r.random() < .3:
                chain.append(r.choice(["x", "nope"]))
        elif root == "zpkg":
            first = r.choice(spec["zpkg"]["static"] + spec["zpkg"]["subs"] + spec["zpkg"]["lazy"] + ["nope"])
            chain = [first]
            if first in spec["zpkg"]["subs"] + spec["zpkg"]["lazy"] and r.random() < .7:
                chain.append(r.choice(spec["zpkg"]["subdyn"] + spec["zpkg"]["substatic"] + ["nope", "__dict__"]))
        elif root == "zsub":
            chain = [r.choice(spec["zsub"]["cls"] + spec["zsub"]["prop"] + spec["zsub"]["own"] + ["nope", "__class__"])]
        elif root in MODS_STD:
            first = r.choice(MODS_STD[root])
            chain = [first]
            if root + "." + first in MODS_STD2 and r.random() < .7:
                chain.append(r.choice(MODS_STD2[root + "." + first]))
        else:
            chain = [r.choice(["a", "b"])] if r.random() < .6 else []
        lines.append(".".join([root] + chain))
    return {"kind": "mods", "i": i, "spec": spec, "present": present + [x for x in extra if x == "plainv"], "src": "\n".join(lines) + "\n"}


def build_universe(spec, present):
    import importlib
    import sys
    import types

    class Obj_:
        def __init__(self):
            self.x = 1

    def val(name):
        return None if name.endswith("n") else Obj_()
    for k in [k for k in sys.modules if k.split(".")[0] in ("zpep", "zpkg", "zsub")]:
        del sys.modules[k]
    ns = {}
    zp = types.ModuleType("zpep")
    for a in spec["zpep"]["static"]:
        setattr(zp, a, val(a))

    def zp_getattr(name, _m=zp, _dyn=tuple(spec["zpep"]["dyn"]), _cache=spec["zpep"]["cache"]):
        if name in _dyn:
            v = val(name)
            if _cache:
                setattr(_m, name, v)
            return v
        raise AttributeError("module 'zpep' has no attribute %r" % name)
    zp.__getattr__ = zp_getattr
    sys.modules["zpep"] = zp

    def submodule(full):
        m = types.ModuleType(full)
        for a in spec["zpkg"]["substatic"]:
            setattr(m, a, val(a))

        def g(name, _dyn=tuple(spec["zpkg"]["subdyn"]), _full=full):
            if name in _dyn:
                return val(name)
            raise AttributeError("module %r has no attribute %r" % (_full, name))
        m.__getattr__ = g
        sys.modules[full] = m
        return m
    zk = types.ModuleType("zpkg")
    zk.__path__ = []
    for a in spec["zpkg"]["static"]:
        setattr(zk, a, val(a))
    for a in spec["zpkg"]["subs"]:
        setattr(zk, a, submodule("zpkg." + a))

    def zk_getattr(name, _m=zk, _lazy=tuple(spec["zpkg"]["lazy"])):
        if name in _lazy:
            sub = submodule("zpkg." + name)
            setattr(_m, name, sub)
            return sub
        raise AttributeError("module 'zpkg' has no attribute %r" % name)
    zk.__getattr__ = zk_getattr
    sys.modules["zpkg"] = zk

    class SubMod(types.ModuleType):
        pass
    for a in spec["zsub"]["cls"]:
        setattr(SubMod, a, val(a))
    for a in spec["zsub"]["prop"]:
        setattr(SubMod, a, property(lambda self, _a=a: val(_a)))
    zs = SubMod("zsub")
    for a in spec["zsub"]["own"]:
        setattr(zs, a, val(a))
    sys.modules["zsub"] = zs
    gen = {"zpep": zp, "zpkg": zk, "zsub": zs}
    for name in present:
        if name in gen:
            ns[name] = gen[name]
        elif name == "plainv":
            ns[name] = Obj_()
        else:
            ns[name] = importlib.import_module(name)
            for sub in MODS_STD2:
                if sub.split(".")[0] == name and sub != "importlib.machinery":
                    importlib.import_module(sub)
    return ns


def impl_mods(c):
    """find_missing_imports(src, [namespace of real modules]) first, then the oracle: every line and every reported name is
    evaluated in that namespace"""
    import builtins
    from pyflyby import find_missing_imports
    ns = build_universe(c["spec"], c["present"])
    out = {}
    try:
        out["fm"] = sorted(str(x) for x in find_missing_imports(c["src"], [ns]))
    except Exception as e:
        out["fm"] = {"exc": type(e).__name__, "msg": str(e)[:200]}
        return out

    def ev(text):
        try:
            eval(compile(text, "<read>", "eval"), dict(vars(builtins)), dict(ns))
            return ["ok"]
        except NameError as e:
            return ["NameError", getattr(e, "name", None)]
        except AttributeError:
            return ["AttributeError"]
        except Exception as e:
            return ["other", type(e).__name__]
    out["lines"] = [[ln, ev(ln)] for ln in c["src"].split("\n") if ln]
    out["reported"] = [[n, ev(n)] for n in out["fm"]]
    return out


def check_mods(ctx, case, im):
    rec = {"i": case["i"], "kind": "mods", "src": case["src"], "spec": case["spec"], "present": case["present"]}
    ctx.bump("mods:cases")
    if isinstance(im.get("fm"), dict):
        ctx.violation("find_missing_imports raised on reads through real modules", rec, im["fm"])
        ctx.count({"src": case["src"], "ns": case["present"]}, False)
        return
    for n, res in im["reported"]:
        ctx.bump("mods:reported")
        if res[0] == "ok":
            ctx.violation("reported missing although every lookup of the dotted name succeeds", rec,
                          {"name": n, "reported": im["fm"], "namespace": case["present"]})
    for ln, res in im["lines"]:
        ctx.bump("mods:read_" + res[0])
        if res[0] == "NameError" and not any(n.split(".")[0] == res[1] for n in im["fm"]):
            ctx.violation("NameError at run time, nothing rooted at the name is reported", rec,
                          {"line": ln, "name": res[1], "reported": im["fm"]})
    ctx.count({"src": case["src"], "ns": case["present"]}, bool(im["fm"]))


# ---------------------------------------------------------------------------------------------
# oracle-only stream: except handlers that RUN (the try body is a call of a namespace-supplied callable that raises).
# PySem / the executed stream never run a handler body; here the source is executed for real, no model.

def make_hnd_case(seed, i):
    """try: raise_()  /  except <type> as e: <the handler binds a name>  /  a read of that name after the try statement, at
    module level or in a function called at the end.  Everything executes, every lookup succeeds: nothing may be reported.
    Variants: the try statement inside a function, an else / finally branch, a second handler, a read of a name that is
    bound nowhere (must be reported)."""
    r = cm.rng(seed, "c05hnd", i)
    x = r.choice(["hx", "hy", "hz"])
    binds = {"assign": ["%s = 1" % x], "import": ["import os as %s" % x], "from": ["from os import path as %s" % x],
             "def": ["def %s():" % x, "    return 1"], "class": ["class %s:" % x, "    pass"],
             "for": ["for %s in [1]:" % x, "    pass"], "with": ["with ctx_() as %s:" % x, "    pass"],
             "aug": ["%s = 1" % x, "%s += 1" % x]}
    kind = r.choice(sorted(binds))
    etype = r.choice(["OSError", "Exception", "(OSError, ValueError)"])
    hdr = ["try:", "    raise_()"]
    if r.random() < .3:
        hdr.append("except KeyError:") ; hdr.append("    pass")
    hdr.append("except %s as err:" % etype)
    body = ["    " + b for b in binds[kind]]
    if r.random() < .3:
        body.append("    err.args")
    tail = []
    if r.random() < .25:
        tail += ["else:", "    never_reached = 1"]
    if r.random() < .25:
        tail += ["finally:", "    fin = 1"]
    stmt = hdr + body + tail
    unbound = r.random() < .3
    read = ["%s" % x] + (["zq_unbound"] if unbound else [])
    lines = []
    where = r.choice(["module", "module", "function", "infunc"])
    if where == "module":
        lines = stmt + read
    elif where == "function":
        lines = ["def later():"] + ["    " + t for t in read] + stmt + ["later()"]
    else:
        lines = ["def whole():"] + ["    " + t for t in stmt + read] + ["whole()"]
    return {"kind": "hnd", "i": i, "src": "\n".join(lines) + "\n", "unbound": unbound}


def impl_hnd(c):
    import builtins
    import contextlib
    from pyflyby import find_missing_imports

    def raise_():
        raise OSError("raised by the harness")

    @contextlib.contextmanager
    def ctx_():
        yield 1
    ns = {"raise_": raise_, "ctx_": ctx_}
    out = {}
    try:
        out["fm"] = sorted(str(x) for x in find_missing_imports(c["src"], [dict(ns)]))
    except Exception as e:
        out["fm"] = {"exc": type(e).__name__, "msg": str(e)[:200]}
        return out
    failing = []

    class G_(dict):
        def __missing__(self, k):
            if hasattr(builtins, k):
                return getattr(builtins, k)
            failing.append(k)
            return 0
    g = G_(ns)
    try:
        exec(compile(c["src"], "<hnd>", "exec"), g)
        out["exc"] = None
    except Exception as e:
        out["exc"] = [type(e).__name__, str(e)[:120]]
    out["failing"] = sorted(set(failing))
    return out


def check_hnd(ctx, case, im):
    rec = {"i": case["i"], "kind": "hnd", "src": case["src"], "unbound": case["unbound"]}
    ctx.bump("hnd:cases")
    if isinstance(im.get("fm"), dict):
        ctx.violation("find_missing_imports raised on a program with an except handler", rec, im["fm"])
    elif im["exc"] is not None:
        ctx.bump("hnd:run_raised")
        ctx.disagreement("handler stream: the generated program raised", rec, im["exc"], None)
    else:
        reported = set(n.split(".")[0] for n in im["fm"])
        raised = set(im["failing"])
        if reported - raised:
            ctx.violation("missing_precise (the except handler ran, every lookup of the name succeeds)", rec,
                          {"extra": sorted(reported - raised), "reported": im["fm"], "cpython_failing": im["failing"]})
        if raised - reported:
            ctx.violation("missing_sound (handler stream)", rec,
                          {"unreported": sorted(raised - reported), "reported": im["fm"], "cpython_failing": im["failing"]})
        ctx.bump("hnd:ok")
    ctx.count({"src": case["src"], "ns": ["raise_", "ctx_"]}, bool(im.get("fm")))


def run_hnd(ctx, n):
    cases = [make_hnd_case(ctx.seed, i) for i in range(n)]
    impl = cm.run_impl("c05", "impl_hnd", cases, timeout_case=30)
    for c, im in zip(cases, impl):
        if "__exc__" in im or "__timeout__" in im:
            ctx.disagreement("handler stream: worker failed", {"i": c["i"], "kind": "hnd", "src": c["src"]}, im, None)
            continue
        check_hnd(ctx, c, im)


def run_mods(ctx, n):
    cases = [make_mods_case(ctx.seed, i) for i in range(n)]
    impl = cm.run_impl("c05", "impl_mods", cases, timeout_case=30)
    for c, im in zip(cases, impl):
        if "__exc__" in im or "__timeout__" in im:
            ctx.bump("mods:worker_exception")
            ctx.disagreement("module-object stream: worker failed", {"i": c["i"], "kind": "mods", "src": c["src"]}, im, None)
            continue
        check_mods(ctx, c, im)


def run(ctx):
    cm.check_anchors(ctx, ANCHORS)
    run_witnesses(ctx)
    run_unused_witnesses(ctx)
    run_fragment_witnesses(ctx)
    n = (600 if ctx.quick else 12000) * ctx.scale
    ctx.coverage["rule"] = (
        "terms of Scope/PySyntax.v from one seeded PRNG, rendered to source: 3/4 'executed' programs (no else/handler/"
        "star/__all__, every def and lambda registered and run after the module), 1/4 'free' programs (all constructs); "
        "of every 10 programs 2 are generated without class / comprehension (stage-2 shaped), 2 without class (stage-3 shaped), 1 "
        "without any nested scope (stage-1 shaped) and 1 inside fragment 2 of the unused side; the counters fragment:stage1 / "
        "fragment:stage2 / fragment:stage3 / fragment:outside (and ufragment:*) are the MEASURED number of programs inside "
        "Fragment.s1_block / s2_block / s3_block (with star-free namespaces) / none - only those inside a stage are "
        "covered by a theorem, and each of them is also checked against the proved statement by vm_compute; "
        "plus an oracle-only stream (1 in 5 evaluations, counters mods:*): 3-9 dotted reads through a namespace of real module objects; "
        "non-trivial = a name is reported missing, an import unused, or CPython recorded a failing global lookup; "
        "distinct by hash of (source, namespaces)")
    ctx.assumptions += [
        "names are ids allocated monotonically in string order; rendering puts every statement header on one line",
        "in the modelled stream the initial namespaces hold non-module values (symbol_needs_import's module walk is modelled on the C06 / C20 side, AutoImp/Needs.v); "
        "the oracle-only stream mods:* holds REAL module objects (stdlib, PEP 562 __getattr__, lazily importing package, ModuleType subclass) - no model: "
        "a reported dotted name must fail to evaluate in that namespace, a NameError at run time must be reported (an AttributeError is not: precision is judged on the root)",
        "PySem = CPython on fully executed programs is an oracle assumption, compared by execution on every run",
        "the bytecode variant _find_loads_without_stores_in_code is NOT modelled",
    ]
    ctx.notes["trusted_base"] = ["CPython 3.12 name resolution, observed through a dict-subclass globals (__missing__)"]
    cases = cm.load_corpus("C05") + [make_case(ctx.seed, i) for i in range(n)]
    step = 3000
    for k in range(0, len(cases), step):
        run_cases(ctx, cases[k:k + step])
    run_mods(ctx, (150 if ctx.quick else 3000) * ctx.scale)
    run_hnd(ctx, (100 if ctx.quick else 2000) * ctx.scale)


def replay(payload):
    """re-run one recorded case through implementation, model and oracle; print the three results"""
    case = payload.get("case") or payload["disagreements"][0]["case"]
    if case.get("kind") == "hnd":
        ctx = cm.Ctx("C05", "replay", 0)
        im = cm.run_impl("c05", "impl_hnd", [case], jobs=1)[0]
        check_hnd(ctx, case, im)
        print(case["src"])
        print(json.dumps({"impl": im, "oracle_violations": [{"name": v["name"], "detail": v["detail"]} for v in ctx.violations]},
                         indent=1, default=str))
        return 0
    if case.get("kind") == "mods":
        ctx = cm.Ctx("C05", "replay", 0)
        im = cm.run_impl("c05", "impl_mods", [case], jobs=1)[0]
        check_mods(ctx, case, im)
        print(case["src"])
        print(json.dumps({"namespace": case["present"], "impl": im,
                          "oracle_violations": [{"name": v["name"], "detail": v["detail"]} for v in ctx.violations]}, indent=1, default=str))
        return 0
    if "prog" not in case:
        print("case has no term")
        return 1
    c = {"kind": case["kind"], "i": case.get("i", 0), "prog": case["prog"], "ns": case["ns"]}
    src, term, ids = prepare(c)
    impl = cm.run_impl("c05", "impl_case", [{"kind": c["kind"], "src": src, "ns": c["ns"]}], jobs=1)
    model = cm.coq_eval_json(REQ, [model_expr(c, term, ids)])
    mo = decode(model[0], ids)
    ctx = cm.Ctx("C05", "replay", 0)
    check_case(ctx, c, src, ids, impl[0], mo)
    print(src)
    print(json.dumps({"namespaces": c["ns"], "impl": impl[0], "model": mo,
                      "oracle_violations": [{"name": v["name"], "detail": v["detail"]} for v in ctx.violations],
                      "known_findings": ctx.known_hits,
                      "disagreements": [{"name": d["name"], "impl": d["impl"], "model": d["model"]} for d in ctx.disagreements]},
                     indent=1, default=str))
    return 0

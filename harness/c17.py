"""C17 - saveframe files hold exactly the selected frames and variables.

Correspondence: pyflyby.saveframe / bin/saveframe's validation+save / SaveframeReader on generated
programs that raise for real, against Saveframe/{Select,Vars,File,Save,Reader}.v.
Oracle: an independent predicate from the property text (keys = distances, values equal to the
live values, excluded / not-included absent, unpicklable skipped alone, mode 0644, umask restored,
reader agrees with the raw file)."""
import json
import re

from . import common as cm
from . import c17_gen as G
from .c17_impl import impl_case          # noqa: F401  (entry point of the workers)

ANCHORS = ["pyflyby._saveframe:_validate_frames", "pyflyby._saveframe:_get_all_matching_frames",
           "pyflyby._saveframe:_get_frames_to_save", "pyflyby._saveframe:_get_all_frames_from_exception_obj",
           "pyflyby._saveframe:_is_variable_name_valid", "pyflyby._saveframe:_validate_variables",
           "pyflyby._saveframe:_validate_saveframe_arguments", "pyflyby._saveframe:_get_frame_local_variables_data",
           "pyflyby._saveframe:_get_frame_metadata", "pyflyby._saveframe:_open_file",
           "pyflyby._saveframe:_get_exception_info",
           "pyflyby._saveframe:_save_frames_and_exception_info_to_file", "pyflyby._saveframe:saveframe",
           "pyflyby._saveframe_reader:SaveframeReader.variables", "pyflyby._saveframe_reader:SaveframeReader.get_metadata",
           "pyflyby._saveframe_reader:SaveframeReader.get_variables"]

REQ = ["Saveframe.Select", "Saveframe.Vars", "Saveframe.File", "Saveframe.Save", "Saveframe.Reader", "Saveframe.Wire"]

FIELD_CTOR = {"frame_index": "(MFrame FIndex)", "filename": "(MFrame FFilename)", "lineno": "(MFrame FLineno)",
              "function_name": "(MFrame FFuncName)", "function_qualname": "(MFrame FQualname)",
              "module_name": "(MFrame FModule)", "code": "(MFrame FCodeLine)", "frame_identifier": "(MFrame FIdent)",
              "exception_string": "(MExc XString)", "exception_full_string": "(MExc XFullString)",
              "exception_class_name": "(MExc XClassName)", "exception_class_qualname": "(MExc XClassQualname)"}
ALL_FIELDS = ["frame_index", "filename", "lineno", "function_name", "function_qualname", "function_object",
              "module_name", "code", "frame_identifier", "exception_string", "exception_full_string",
              "exception_class_name", "exception_class_qualname", "exception_object", "traceback"]


# ---------------------------------------------------------------------------------------------
# model side

def cZ(n):
    return "(%d)%%Z" % n


def c_frame(d, uid):
    loc = cm.clist([cm.cpair(cm.cstr(n), cm.cN(v)) for n, v in d["locals"]])
    return "(mkFrame %s %s %s %s %s %s %s %s)" % (cm.cstr(d["file"]), cZ(d["line"]), cm.cstr(d["func"]), cm.cstr(d["qual"]),
                                                  cm.cN(uid), cm.cstr(d["module"]), cm.cstr(d["code"]), loc)


def c_exn(t, frames):
    if t is None:
        return "None"
    return "(Some %s)" % c_exn1(t, frames)


def c_exn1(t, frames):
    tb = cm.clist(["fr%d" % u for u in t["tb"]])
    cause = c_exn(t["cause"], frames)
    ctx = t["context"]
    if isinstance(ctx, dict) and ctx.get("same_as_cause"):
        context = cause
    else:
        context = c_exn(ctx, frames)
    return "(Exn %s %s %s)" % (tb, cause, context)


def c_frames_arg(a):
    if a is None:
        return "FNone"
    if isinstance(a, bool):
        raise ValueError("bool selector")
    if isinstance(a, int):
        return "(FInt %s)" % cZ(a)
    if isinstance(a, str):
        return "(FStr %s)" % cm.cstr(a)
    if isinstance(a, dict):
        a = a["tuple"]
    return "(FList %s)" % cm.clist([cm.cstr(x) for x in a])


def c_vars_arg(a):
    if a is None:
        return "VNone"
    if isinstance(a, str):
        return "(VStr %s)" % cm.cstr(a)
    if isinstance(a, dict):
        a = a["tuple"]
    return "(VList %s)" % cm.clist([cm.cstr(x) for x in a])


def c_query(q):
    if q[0] == "variables":
        return "RQVariables"
    idx = cm.copt(q[2], cZ)
    if q[0] == "vars":
        vq = "(QStr %s)" % cm.cstr(q[1]) if isinstance(q[1], str) else "(QList %s)" % cm.clist([cm.cstr(x) for x in q[1]])
        return "(RQVars %s %s)" % (vq, idx)
    return "(RQMeta %s %s)" % (FIELD_CTOR.get(q[1], "MInvalid"), idx)


def modelled_queries(c):
    return [q for q in c["queries"] if not (q[0] == "meta" and q[1] in G.OPAQUE_FIELDS)]


def model_expr(c, im):
    """one Gallina expression of type string for the whole case"""
    frames = im["frames"]
    lets = "".join("let fr%s := %s in " % (u, c_frame(d, int(u))) for u, d in sorted(frames.items(), key=lambda kv: int(kv[0])))
    exn = c_exn1(im["tree"], frames)
    rxt = cm.clist(["(%s, %s, %s)" % (cm.cstr(p), cm.cstr(f), cm.cnat(k)) for p, f, k in dedup(im["rx"])])
    validt = cm.clist([cm.cpair(cm.cstr(n), cm.cbool(b)) for n, b in im["names_valid"]])
    unpk = cm.clist([cm.cN(i) for i, ok in enumerate(im["pk"]) if not ok])
    cur = "None" if im["cur"] is None else "(Some fr%d)" % im["cur"]
    excs = cm.clist([cm.cstr(x) for x in im["live_exc"][:4]])
    qs = cm.clist([c_query(q) for q in modelled_queries(c)])
    return "%srun_save %s %s %s %s %s %s %s %s %s %s %s %s %s true %s %s %s" % (
        lets, cm.cbool(bool(c.get("script"))), cm.cbool(N2_REPAIRED), cm.cbool(N1_REPAIRED), c_frames_arg(im["eff"]["frames"]), c_vars_arg(im["eff"]["variables"]),
        c_vars_arg(im["eff"]["exclude"]), cur, exn, rxt, validt, unpk, cm.cN(c["umask"]),
        cm.copt(c.get("pre"), cm.cN), cm.cbool(im["dump_ok"]), excs, qs)


def _repaired(fid):
    """the model variant follows the status of the finding in the known findings: open = the code as it
    was, fixed:<commit> = the code repaired by fixes/<fid>-*.diff.
    C17-N2: debugger default uses re.escape(co_filename).  C17-N1: an unpicklable exception object is
    replaced by a placeholder and the mapping is serialized before the file is opened."""
    for e in cm.load_known("C17"):
        if e.get("id") == fid:
            return str(e.get("status", "open")).startswith("fixed")
    return False


N2_REPAIRED = _repaired("C17-N2")
N1_REPAIRED = _repaired("C17-N1")


def dedup(rx):
    seen, out = set(), []
    for p, f, k in rx:
        if (p, f) not in seen:
            seen.add((p, f))
            out.append((p, f, k))
    return out


def impl_view(c, im):
    """the implementation's observables in the shape of the model's output"""
    f = im["file"]
    fs = {"umask": im["umask_after"],
          "file": None if f is None else [f["mode"], f["state"]]}
    if im["raised"] is not None and not (f is not None and f["state"] == "truncated" and not im["dump_ok"]):
        return dict(fs, result=im["raised"])
    if im["raised"] is not None:
        # the dump of the whole mapping failed after the file was opened
        return dict(fs, result="ok", outcome="body_failed")
    if "saved" not in im:
        # the call returned but the file does not hold a loadable dump
        return dict(fs, result="ok", outcome="unreadable")
    out = dict(fs, result="ok", outcome="saved")
    out["exc_object"] = im["saved"]["exc"]["object_kind"]
    out["frames"] = [{"index": e["key"], "file": e["file"], "line": e["line"], "func": e["func"], "qual": e["qual"],
                      "module": e["module"], "code": e["code"], "ident": e["ident"], "vars": e["vars"]}
                     for e in im["saved"]["frames"]]
    qs = []
    for q, a in zip(c["queries"], im["queries"]):
        if q[0] == "meta" and q[1] in G.OPAQUE_FIELDS:
            continue
        qs.append(a)
    out["queries"] = qs
    return out


def model_view(mv):
    mv = dict(mv)
    if mv.get("outcome") == "body_failed":
        mv.pop("frames", None)
        mv.pop("queries", None)
        mv.pop("exc_object", None)
    return mv


# ---------------------------------------------------------------------------------------------
# oracle: the property's own predicate (no model, no pyflyby code)

def o_matches(pat, fr, tmp):
    rx = pat["re"].replace("{TMP}", tmp)
    if re.search(rx, fr["file"]) is None:
        return False
    if pat["line"] is not None and fr["line"] != pat["line"]:
        return False
    if pat["func"] and pat["func"] not in (fr["func"], fr["qual"]):
        return False
    return True


def o_first_kept(idxs, order):
    """frames repeated across a chain: the first index is kept"""
    seen, out = set(), []
    for k in sorted(set(idxs)):
        if order[k - 1] not in seen:
            seen.add(order[k - 1])
            out.append(k)
    return out


def o_expected_keys(ast, live, order, tmp, cur):
    """list of acceptable key lists, or ('error', classes)"""
    n = len(live)
    if ast["kind"] == "none":
        return [[1]] if n else ("error", ["IndexError"])
    if ast["kind"] == "num":
        return [list(range(1, min(ast["n"], n) + 1))]
    if ast["kind"] == "list":
        sel = [k for k in range(1, n + 1) if any(o_matches(p, live[k - 1], tmp) for p in ast["ps"])]
        return [o_first_kept(sel, order)]
    if ast["kind"] in ("range", "open"):
        mp = [k for k in range(1, n + 1) if o_matches(ast["p"], live[k - 1], tmp)]
        mq = [1] if ast["kind"] == "open" else [k for k in range(1, n + 1) if o_matches(ast["q"], live[k - 1], tmp)]
        if not mp or not mq:
            return ("error", ["ValueError", "IndexError"])
        best = max(abs(i - j) for i in mp for j in mq)
        return [o_first_kept(range(min(i, j), max(i, j) + 1), order) for i in mp for j in mq if abs(i - j) == best]
    raise ValueError(ast)


def raw_names(a, script):
    if a is None:
        return None
    if isinstance(a, dict):
        a = a["tuple"]
    if isinstance(a, str):
        return [x.strip() for x in a.split(",")]
    return list(a)


def oracle(c, im):
    """returns list of (clause, detail)"""
    bad = []
    if im["umask_after"] != c["umask"]:
        bad.append(("mode_0644", "umask %o not restored: %o" % (c["umask"], im["umask_after"])))
    f = im["file"]
    if f is not None and f.get("trailing"):
        bad.append(("file_exact", "the file holds %d bytes after the new dump (stale content of the file it replaced)%s"
                    % (f["trailing"], "; they hold the earlier pickled values of %r" % f["tail_holds"] if f.get("tail_holds") else "")))
    if c.get("pre") is not None:
        if f is None or f["mode"] != c["pre"]:
            bad.append(("mode_0644", "pre-existing file of mode %o now %r" % (c["pre"], f)))
    elif f is not None and f["mode"] != 0o644:
        bad.append(("mode_0644", "created file has mode %o under umask %o" % (f["mode"], c["umask"])))
    live = [im["frames"][str(u)] for u in im["order"]]
    ast = c["sel"]["ast"]
    inc = raw_names(c["variables"], c.get("script"))
    exc = raw_names(c["exclude"], c.get("script"))
    both = bool(c["variables"] if not isinstance(c["variables"], dict) else c["variables"]["tuple"]) and \
           bool(c["exclude"] if not isinstance(c["exclude"], dict) else c["exclude"]["tuple"])
    comma_str = any(isinstance(a, str) and "," in a for a in (c["variables"], c["exclude"])) and not c.get("script")
    if im["raised"] is not None and not im["dump_ok"] and f is not None and f["state"] == "truncated":
        bad.append(("exception_object_unpicklable",
                    "saveframe raised %s while dumping: the exception object cannot be pickled; nothing is saved and the file is left truncated%s"
                    % (im["raised"], " (a pre-existing file lost its content)" if c.get("pre") is not None else "")))
        return bad
    if im["raised"] is not None:
        # a refusal is acceptable where the interface documents one; the selection itself must not fail otherwise
        if ast is not None and not both and not comma_str and im["dump_ok"]:
            exp = o_expected_keys(ast, live, im["order"], im["tmp"], im["cur"]) if ast["kind"] != "debugger" else None
            if not (isinstance(exp, tuple) and im["raised"] in exp[1]):
                bad.append(("selection_spec", "saveframe raised %s on a well-formed selector" % im["raised"]))
        return bad
    if im.get("ret_ok") is False:
        bad.append(("selection_spec", "saveframe did not return the file name"))
    if f is None or f["state"] not in ("data", "data+tail"):
        bad.append(("selection_spec", "no complete file after a successful call: %r" % (f,)))
        return bad
    saved = im["saved"]["frames"]
    keys = [e["key"] for e in saved]
    n = len(live)
    # keys are distances; metadata equal to the live values
    for e in saved:
        k = e["key"]
        if not (isinstance(k, int) and 1 <= k <= n):
            bad.append(("keys_are_distances", "key %r outside 1..%d" % (k, n)))
            continue
        lf = live[k - 1]
        got = (e["index"], e["file"], e["line"], e["func"], e["qual"], e["code"], e["ident"])
        want = (k, lf["file"], lf["line"], lf["func"], lf["qual"], lf["code"], "%s,%s,%s" % (lf["file"], lf["line"], lf["func"]))
        if got != want:
            bad.append(("keys_are_distances", "frame %d metadata %r, live %r" % (k, got, want)))
        if lf["globals_name"] is not None and lf["module"] != "Module name not found" and e["module"] != lf["globals_name"]:
            bad.append(("keys_are_distances", "frame %d module %r, live %r" % (k, e["module"], lf["globals_name"])))
        if e["function_object_type"] not in ("bytes", "str"):
            bad.append(("keys_are_distances", "function_object of type %s" % e["function_object_type"]))
        if e.get("function_object_name") is not None and e["function_object_type"] == "bytes" \
                and not str(e["function_object_name"]).startswith("unpicklable:") and e["function_object_name"] != lf["func"]:
            bad.append(("keys_are_distances", "function_object is %r for frame function %r" % (e["function_object_name"], lf["func"])))
        # variables
        want_vars = []
        for name, vid in lf["locals"]:
            if name.startswith("__"):
                continue
            if inc is not None and name not in inc:
                continue
            if exc is not None and name in exc:
                continue
            if not im["pk"][vid]:
                continue
            want_vars.append([name, vid])
        if e["vars"] != want_vars:
            gn, wn = [x[0] for x in e["vars"]], [x[0] for x in want_vars]
            extra = [x for x in gn if x not in wn]
            missing = [x for x in wn if x not in gn]
            if inc is not None and any(x not in inc for x in extra):
                bad.append(("not_included_absent", "frame %d holds %r, include list %r" % (k, extra, inc)))
            elif exc is not None and any(x in exc for x in extra):
                bad.append(("excluded_absent", "frame %d holds excluded %r" % (k, extra)))
            elif extra or missing:
                bad.append(("var_filter", "frame %d variables %r, expected %r" % (k, gn, wn)))
            else:
                bad.append(("var_filter", "frame %d values differ from the live values: %r vs %r" % (k, e["vars"], want_vars)))
    # exactly the selected frames
    if ast is not None and ast["kind"] == "debugger":
        if im["cur"] is not None:
            curk = [k for k in range(1, n + 1) if im["order"][k - 1] == im["cur"]]
            cf = im["frames"][str(im["cur"])]
            if not any(k in keys for k in curk):
                bad.append(("selection_spec", "debugger mode: the current frame %r is not saved (keys %r)" % (curk, keys)))
            for k in keys:
                lf = live[k - 1]
                if (lf["file"], lf["line"], lf["qual"]) != (cf["file"], cf["line"], cf["qual"]):
                    bad.append(("selection_spec", "debugger mode: frame %d saved, current frame is %r" % (k, curk)))
    elif ast is not None:
        exp = o_expected_keys(ast, live, im["order"], im["tmp"], im["cur"])
        if isinstance(exp, tuple):
            bad.append(("selection_spec", "selector denotes no frame (%s expected), saved keys %r" % (exp[1], keys)))
        elif keys not in exp:
            bad.append(("selection_spec", "saved keys %r, selector denotes %r" % (keys, exp[0] if len(exp) == 1 else exp)))
    else:
        if keys != sorted(set(keys)):
            bad.append(("keys_are_distances", "keys not increasing: %r" % keys))
    # exception fields
    ex = im["saved"]["exc"]
    le = im["live_exc"]
    if im["dump_ok"]:
        obj_ok = ex["has_object"] and ex["object_args"] == le[4]
    else:
        obj_ok = ex["object_kind"] == "placeholder"      # an exception object that cannot be pickled cannot be in the file
    if [ex["exception_string"], ex["exception_full_string"], ex["exception_class_name"], ex["exception_class_qualname"]] != le[:4] \
            or not obj_ok or ex["traceback_type"] not in ("list", "str"):
        bad.append(("keys_are_distances", "exception fields %r, live %r" % (ex, le)))
    # reader
    bad += oracle_reader(c, im)
    return bad


def oracle_reader(c, im):
    """the reader returns the saved values under every query form (expected answers computed from
    the raw file content by the rules of the reader's docstring)"""
    bad = []
    saved = im["saved"]["frames"]
    by_key = {e["key"]: e for e in saved}
    exf = im["saved"]["exc"]
    if im["props"]["metadata"] != ALL_FIELDS or not im["props"]["filename_ok"] or not im["props"]["data_ok"]:
        bad.append(("reader_consistent", "properties: %r" % (im["props"],)))
    for q, a in zip(c["queries"], im["queries"]):
        want = None
        if q[0] == "variables":
            want = {"variables": [[e["key"], [n for n, _ in e["vars"]]] for e in saved]}
        elif q[0] == "vars":
            single = isinstance(q[1], str)
            names = [q[1]] if single else list(q[1])
            if not names:
                want = {"err": "ValueError"}
            elif q[2] is None:
                found = {}
                for e in saved:
                    d = dict(e["vars"])
                    hit = {nm: d[nm] for nm in names if nm in d}
                    if hit:
                        found[e["key"]] = hit
                if not found:
                    want = {"err": "ValueError"}
                elif single:
                    flat = {k: v[names[0]] for k, v in found.items()}
                    want = {"val": list(flat.values())[0]} if len(flat) == 1 else {"byframe": flat}
                else:
                    want = {"dict": list(found.values())[0]} if len(found) == 1 else {"byframedict": found}
            else:
                e = by_key.get(q[2])
                d = dict(e["vars"]) if e else {}
                hit = {nm: d[nm] for nm in names if nm in d}
                if e is None or not hit:
                    want = {"err": "ValueError"}
                elif single:
                    want = {"val": hit[names[0]]}
                else:
                    want = {"dict": hit}
            got = a
            if "dict" in a:
                got = {"dict": dict(map(tuple, a["dict"]))}
            elif "byframe" in a:
                got = {"byframe": dict(map(tuple, a["byframe"]))}
            elif "byframedict" in a:
                got = {"byframedict": {k: dict(map(tuple, d)) for k, d in a["byframedict"]}}
            if got != want:
                bad.append(("reader_consistent", "get_variables%r -> %r, the file holds %r" % (tuple(q[1:]), a, want)))
            continue
        else:
            field, idx = q[1], q[2]
            if field in G.OPAQUE_FIELDS:
                if field == "function_object":
                    ok = ("err" in a and idx is not None and idx not in by_key) or \
                         ("opaque" in a and (a["opaque"] == sorted(by_key) if idx is None else a["opaque"] is None))
                else:
                    ok = ("err" in a and bool(idx)) or ("opaque" in a and a["opaque"] is None)
                if not ok:
                    bad.append(("reader_consistent", "get_metadata%r -> %r" % (tuple(q[1:]), a)))
                continue
            key = {"frame_index": "index", "filename": "file", "lineno": "line", "function_name": "func",
                   "function_qualname": "qual", "module_name": "module", "code": "code", "frame_identifier": "ident"}
            if field in key:
                if idx is None:
                    want = {"map": [[e["key"], e[key[field]]] for e in saved]}
                elif idx in by_key:
                    want = {"val": by_key[idx][key[field]]}
                else:
                    want = {"err": "ValueError"}
            elif field in G.EXC_FIELDS:
                want = {"err": "ValueError"} if idx else {"val": exf[field]}
            else:
                want = {"err": "ValueError"}
        if a != want:
            bad.append(("reader_consistent", "%r -> %r, the file holds %r" % (q, a, want)))
    return bad


# ---------------------------------------------------------------------------------------------
# known findings (classifiers)

REGEX_META = set("+*?()[]{}|^$\\")


def cls_exception_object_unpicklable(c, im, clause):
    """C17-N1: the exception object itself cannot be pickled: the whole dump fails after the file was truncated"""
    return clause == "exception_object_unpicklable" and not im.get("dump_ok", True)


def cls_debugger_path_regex(c, im, clause):
    """C17-N2: in a debugger the default selector is built from the current frame's file name, which is then
    used as a regular expression: a path with regex metacharacters does not match itself (or is an invalid regex)"""
    ast = c["sel"]["ast"]
    if not (ast and ast["kind"] == "debugger" and clause == "selection_spec" and im.get("cur") is not None):
        return False
    return bool(REGEX_META & set(im["frames"][str(im["cur"])]["file"]))


CLASSIFIERS = {"cls_exception_object_unpicklable": cls_exception_object_unpicklable,
               "cls_debugger_path_regex": cls_debugger_path_regex}


def classify(ctx, c, im, clause):
    for e in ctx.open_findings():
        f = CLASSIFIERS.get(e.get("classifier"))
        if f and f(c, im, clause):
            return e
    return None


# ---------------------------------------------------------------------------------------------

def env_checks(ctx, cases, impl):
    """environment-side hypotheses: the model's int() agrees with CPython's on every piece sent"""
    pieces = {}
    for c, im in zip(cases, impl):
        if "__exc__" in im or "__timeout__" in im:
            continue
        for p, v in im["ints"]:
            pieces[p] = v
    keys = sorted(pieces)
    keys = [k for k in keys if len(k) < 200]
    got = cm.coq_eval_json(REQ, ["run_int %s" % cm.cstr(k) for k in keys], shard=500)
    for k, g in zip(keys, got):
        if g != pieces[k]:
            ctx.disagreement("int() (environment hypothesis of _validate_frames)", {"piece": k}, pieces[k], g)
    ctx.bump("env_int_pieces", len(keys))


def check_cases(ctx, cases, impl, model):
    for c, im, mv in zip(cases, impl, model):
        full = c
        if "__exc__" in im or "__timeout__" in im:
            ctx.count(c, False)
            ctx.violation("harness_error", full, im)
            continue
        iv = impl_view(c, im)
        mvv = model_view(mv)
        if iv != mvv:
            ctx.disagreement("saveframe + SaveframeReader", full, iv, mvv)
        bad = oracle(c, im)
        for clause, detail in bad[:3]:
            e = classify(ctx, c, im, clause)
            if e:
                ctx.known_hit(e["id"], e["what"])
                ctx.bump("known:" + e["id"])
            else:
                ctx.violation(clause, full, detail)
        # distribution
        ctx.bump("stream:" + c["stream"])
        ctx.bump("result:" + str(iv.get("result")) + ("/" + iv["outcome"] if "outcome" in iv else ""))
        ast = c["sel"]["ast"]
        ctx.bump("selector:" + (ast["kind"] if ast else "malformed"))
        ctx.bump("frames:%d" % min(len(im["order"]), 12))
        if len(set(im["order"])) < len(im["order"]):
            ctx.bump("chain_with_repeated_frame")
        if im["tree"]["cause"] or im["tree"]["context"]:
            ctx.bump("chained")
        ctx.bump("filter:" + ("both" if c["variables"] is not None and c["exclude"] is not None else
                              "include" if c["variables"] is not None else "exclude" if c["exclude"] is not None else "none"))
        if any(not p for p in im["pk"]):
            ctx.bump("has_unpicklable_local")
        nsaved = len(im.get("saved", {}).get("frames", []))
        ctx.bump("saved_frames:%d" % min(nsaved, 6))
        nontriv = iv.get("result") == "ok" and nsaved > 0
        ctx.count({"i": c["i"], "sel": c["sel"], "v": c["variables"], "x": c["exclude"], "files": c["prog"]["files"]}, nontriv)
        if nontriv and c["stream"] == "main":
            ctx.sample({"selector": im["eff"]["frames"], "variables": c["variables"], "exclude": c["exclude"], "umask": c["umask"],
                        "stack": [[d["file"].replace(im["tmp"], ""), d["line"], d["qual"]] for d in (im["frames"][str(u)] for u in im["order"])],
                        "saved_keys": [e["key"] for e in im["saved"]["frames"]],
                        "saved_vars": [[n for n, _ in e["vars"]] for e in im["saved"]["frames"]]}, limit=3)


def run(ctx):
    cm.check_anchors(ctx, ANCHORS)
    n = (600 if ctx.quick else 20000) * ctx.scale
    ctx.coverage["rule"] = (
        "cases from one seeded PRNG (case i replays from (seed, i)): a generated multi-module program (functions, methods, closures, "
        "recursion, a shared trampoline, try/except re-raising with `from e` / implicit context / `from None` / a handler that calls a "
        "second chain; optionally run as a top-level script) is executed and raises for real; saveframe is called with a generated "
        "selector (none, count, single, list, range, open range with partial file:line:function patterns; 15% malformed strings; 5% "
        "debugger default; 5% through bin/saveframe's script-mode validation), include / exclude arguments (valid, invalid, empty, "
        "both), a umask and optionally a pre-existing file; non-trivial = the call saved at least one frame; distinct by hash of "
        "(program, selector, filters)")
    ctx.assumptions += [
        "re.search(pattern, filename) is an oracle argument: the model is fed the results (match / no match / re.error) of the calls the implementation made on that run; a pair the model asks for that was not recorded is reported as a disagreement",
        "picklability of each local value (pickle.dumps(v, protocol=5) raises an Exception or not) and of the exception object is an oracle argument, computed by the harness on the live values",
        "str.isidentifier / keyword.iskeyword per name is an oracle argument (table computed with CPython on every name in the arguments)",
        "int() on str is modelled for ASCII digits, sign, underscores and Unicode whitespace; agreement with CPython's int() is checked on every piece of every selector sent",
        "pickle.loads(pickle.dumps(v)) == v for the generated values: a value read back that equals no live value is reported",
        "inspect.getmodule(frame).__name__ and linecache.getline(...) are taken from the environment and carried through the model unchanged",
        "frame metadata field function_object (best-effort lookup of the function) and the exception_object / traceback fields are checked by the oracle only",
        "_validate_filename is not modelled: the harness always passes a fresh absolute path in a world-traversable directory",
        "file-system step model: os.umask, os.open(O_CREAT|O_TRUNC) (mode & ~umask for a new file, permission bits kept for an existing one), write, close; single process, no concurrent change of the umask",
    ]
    ctx.notes["trusted_base"] = [
        "CPython pickle / re / os (oracle arguments of the model), the frame and traceback objects of CPython 3.12",
    ]
    cases = cm.load_corpus("C17") + [dict(G.gen_case(ctx.seed, i), from_gen=True) for i in range(n)]
    impl = cm.run_impl("c17", "impl_case", cases, timeout_case=60)
    ok = [(c, im) for c, im in zip(cases, impl) if "__exc__" not in im and "__timeout__" not in im]
    exprs = [model_expr(c, im) for c, im in ok]
    model = cm.coq_eval_json(REQ, exprs, shard=40)
    it = iter(model)
    model_all = [next(it) if ("__exc__" not in im and "__timeout__" not in im) else None for im in impl]
    check_cases(ctx, cases, impl, model_all)
    env_checks(ctx, cases, impl)
    ctx.notes["model_evaluations_in_kernel"] = len(exprs)


def replay(payload):
    case = payload.get("case") or payload["disagreements"][0]["case"]
    impl = cm.run_impl("c17", "impl_case", [case], jobs=1, timeout_case=60)
    im = impl[0]
    if "__exc__" in im:
        print(json.dumps(im, indent=1))
        return 1
    model = cm.coq_eval_json(REQ, [model_expr(case, im)])
    print(json.dumps({"selector": im["eff"], "stack": [im["frames"][str(u)] for u in im["order"]],
                      "impl": impl_view(case, im), "model": model_view(model[0]),
                      "oracle": oracle(case, im)}, indent=1, default=str))
    return 0

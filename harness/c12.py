"""C12 - import database: composition, forgetting and cache coherence.

Correspondence: ImportDB.get_default over histories of lookups (cwd, HOME, target, three environment
variables changing between lookups) in scratch trees with injected st_dev, against Sys/DBPath.v +
Sys/DBCompose.v + Sys/DBCache.v (complete observable after every lookup: hit/loaded/error, the list of
files loaded, the four collections, the lookup index, the set of cache keys).
Oracle (independent of the model): (a) every answer of the caching process equals the answer of a second
process that clears the cache before each lookup; (b) the file list equals the search-path semantics
re-stated on the generator's tree with posixpath; (c) the collections and the index equal plain Python
set algebra on the generator's file contents.
"""
import json
import os
import posixpath
import shutil
import subprocess
import sys
import tempfile

from . import common as cm

REQ = ["Base.StrX", "Sys.DBPath", "Sys.DBCompose", "Sys.DBCache", "Sys.DBWire"]
ANCHORS = ["pyflyby._importdb:_find_etc_dirs", "pyflyby._importdb:_get_env_var", "pyflyby._importdb:_get_python_path",
           "pyflyby._importdb:_get_st_dev", "pyflyby._importdb:_ancestors_on_same_partition",
           "pyflyby._importdb:_expand_tripledots", "pyflyby._importdb:ImportDB.get_default",
           "pyflyby._importdb:ImportDB._from_data", "pyflyby._importdb:ImportDB._from_code",
           "pyflyby._importdb:ImportDB._from_filenames",
           "pyflyby._importdb:ImportDB.__or__", "pyflyby._file:expand_py_files_from_args",
           "pyflyby._file:Filename._from_filename", "pyflyby._file:Filename.list", "pyflyby._file:Filename.ancestors",
           "pyflyby._importclns:ImportSet.without_imports", "pyflyby._importclns:ImportMap.without_imports",
           "pyflyby._importclns:ImportMap._merge", "pyflyby._idents:dotted_prefixes"]
# not anchorable with common.anchor_hashes (cached_attribute objects have no retrievable source):
# ImportDB.by_fullname_or_import_as, Import.split - both are inside the correspondence on every run.
ENVVARS = ("PYFLYBY_PATH", "PYFLYBY_KNOWN_IMPORTS_PATH", "PYFLYBY_MANDATORY_IMPORTS_PATH")

# ---------------------------------------------------------------------------------------------
# generators

KNOWN_POOL = [["pk.sub.mod", "pk.sub.mod"], ["pk.sub.x", "x"], ["pk.y", "y"], ["numpy", "np"], ["m.t1", "t1"],
              ["m", "m"], ["m.t1", "tt"], ["pk.other", "po"], ["pk.sub", "pk.sub"], ["m.sub.t2", "t2"],
              ["q.r.s.t", "q.r.s.t"], ["pk.sub.deep.z", "z"], ["m2.t1", "t1"],
              # imports whose FULL NAME is a module that a star forget names, and string-prefix look-alikes
              ["os.path", "path"], ["os.path", "osp"], ["os.path.join", "join"], ["os.path", "os.path"],
              ["json.dumps", "dumps"], ["js.x", "jx"], ["js", "js"], ["pk.sub", "sub"], ["pk.sub", "psub"]]
FORGET_POOL = KNOWN_POOL + [["pk.sub", "pk.sub"], ["pk", "pk"], ["pk.*", "*"], ["pk.sub.*", "*"], ["m.*", "*"],
                            ["q.r", "q.r"], ["q", "q"], ["q.r.s", "q.r.s"], ["m.sub", "m.sub"],
                            ["os.path.*", "*"], ["os.*", "*"], ["js.*", "*"], ["pk.sub.*", "*"], ["json.*", "*"]]
STAR_FAMILIES = [  # (star forget, imports that must survive it, imports that must go)
    (["os.path.*", "*"], [["os.path", "path"], ["os.path", "osp"], ["os.path", "os.path"]], [["os.path.join", "join"]]),
    (["js.*", "*"], [["json.dumps", "dumps"], ["js", "js"]], [["js.x", "jx"]]),
    (["pk.sub.*", "*"], [["pk.sub", "sub"], ["pk.sub", "psub"], ["pk.y", "y"]], [["pk.sub.x", "x"], ["pk.sub.deep.z", "z"]]),
    (["os.*", "*"], [["os.path", "os.path"]], [["os.path", "path"], ["os.path.join", "join"]])]
MAND_POOL = [["__future__.division", "division"], ["m", "m"], ["m.t1", "t1"], ["pk.y", "y"], ["numpy", "np"],
             ["os.path", "path"], ["os.path.join", "join"], ["pk.sub", "sub"], ["js.x", "jx"]]
CANON_POOL = [["m.t1", "m2.t1"], ["pk.y", "pk.sub.y"], ["old.name", "new.name"], ["m.t1", "m3.t1"], ["a", "b"],
              ["pk.sub.x", "pk.x"], ["os.path", "posixpath"], ["pk.sub", "pk.sub2"]]
RAW_BAD = ["x = 1\n", "def f(:\n", "__forget_imports__ = 3\n", "print('hi')\n", "__canonical_imports__ = ['a']\n"]
EXTRA = "extra12"          # a name that does not exist in the ancestors of the scratch root


def gen_spec(r, rich=True):
    """One database file: a shuffled list of statements."""
    if r.random() < .04:
        return {"raw": r.choice(RAW_BAD)}
    stmts = []
    for _ in range(r.choice([0, 1, 1, 2, 3, 4]) if rich else r.choice([1, 2])):
        stmts.append(["imp", r.choice(KNOWN_POOL)])
    if r.random() < .35:
        stmts.append(["forget", [r.choice(FORGET_POOL) for _ in range(r.randint(1, 3))]])
    if r.random() < .1:
        stmts.append(["forget", [r.choice(FORGET_POOL)]])
    if r.random() < .25:
        stmts.append(["mand", [r.choice(MAND_POOL) for _ in range(r.randint(1, 2))]])
    if r.random() < .25:
        stmts.append(["canon", [r.choice(CANON_POOL) for _ in range(r.randint(1, 2))]])
    if r.random() < .2:
        # a star forget for a dotted module next to imports OF that module (must survive) and FROM it (must go)
        star, keep, go = r.choice(STAR_FAMILIES)
        stmts.append(["forget", [star]])
        for imp in r.sample(keep, r.randint(1, len(keep))) + r.sample(go, r.randint(0, len(go))):
            stmts.append(r.choice([["imp", imp], ["imp", imp], ["mand", [imp]]]))
        if r.random() < .3:
            stmts.append(["canon", [[r.choice(keep)[0], "renamed.thing"]]])
    r.shuffle(stmts)
    return {"stmts": stmts, "ident_form": r.random() < .3}


def intended(spec):
    out = {"known": [], "mand": [], "canon": [], "forget": []}
    for kind, v in spec["stmts"]:
        if kind == "imp":
            out["known"].append(v)
        else:
            out[kind].extend(v)
    return out


def imp_stmt(f, a):
    if a == f:
        return "import " + f
    mod, _, mem = f.rpartition(".")
    if mod:
        return "from %s import %s%s" % (mod, mem, "" if a == mem else " as " + a)
    return "import %s as %s" % (f, a)


def imp_item(f, a, ident_form):
    if ident_form and a == f.rpartition(".")[2] and "." in f and not f.endswith("*"):
        return f                                    # 'xx.yy' = from xx import yy
    return imp_stmt(f, a)


def render(spec):
    if "raw" in spec:
        return spec["raw"]
    lines = ["# generated"]
    for kind, v in spec["stmts"]:
        if kind == "imp":
            lines.append(imp_stmt(*v))
        elif kind == "canon":
            lines.append("__canonical_imports__ = {%s}" % ", ".join("%r: %r" % (k, w) for k, w in v))
        else:
            name = {"mand": "__mandatory_imports__", "forget": "__forget_imports__"}[kind]
            lines.append("%s = [%s]" % (name, ", ".join(repr(imp_item(f, a, spec.get("ident_form"))) for f, a in v)))
    return "\n".join(lines) + "\n"


DB_MEMBERS = ["x.py", "y.py", ".hid.py", "notes.txt", "sub/z.py", "__pycache__/c.py", ".hd/w.py", "bad name.py",
              "~t.py", "k.py~", "d.py/q", "d.py/q.py", "sub/.s.py", "sub/deep/w.py", "py", "a.PY", "\u00e9.py"]


def mkfile(r, dev):
    return {"dev": dev, "file": gen_spec(r)}


def put(node, rel, leaf, dev):
    parts = rel.split("/")
    for p in parts[:-1]:
        nxt = node["dir"].get(p)
        if nxt is None or "dir" not in nxt:
            nxt = node["dir"][p] = {"dev": dev, "dir": {}}
        node = nxt
    node["dir"][parts[-1]] = leaf


def gen_tree(r):
    """Returns (tree, dirs): dirs = relative paths ('' = root) of ordinary directories."""
    tree = {"dev": 1, "dir": {}}
    dirs = [""]
    put(tree, "home", {"dev": 1, "dir": {}}, 1)
    dirs.append("home")
    for _ in range(r.randint(2, 5)):
        parent = r.choice(dirs)
        d = (parent + "/" if parent else "") + r.choice(["a", "b", "proj"])
        if d not in dirs:
            put(tree, d, {"dev": 1, "dir": {}}, 1)
            dirs.append(d)
    for d in sorted(dirs):
        node = get(tree, d)
        k = r.random()
        if k < .3:
            node["dir"][".pyflyby"] = mkfile(r, 1)
        elif k < .65:
            pd = node["dir"][".pyflyby"] = {"dev": 1, "dir": {}}
            for nm in r.sample(DB_MEMBERS, r.randint(1, 4)):
                put(pd, nm, mkfile(r, 1), 1)
        if r.random() < .3:
            ex = node["dir"][EXTRA] = {"dev": 1, "dir": {}}
            put(ex, "e.py", mkfile(r, 1), 1)
            if r.random() < .3:
                put(ex, r.choice(DB_MEMBERS), mkfile(r, 1), 1)
    # symbolic links (never to an ancestor of their own location: the real walk would run until ELOOP)
    links = []
    if r.random() < .55:
        team = {"dev": 1, "dir": {}}
        put(team, "t.py", mkfile(r, 1), 1)
        if r.random() < .6:
            put(team, "sub/u.py", mkfile(r, 1), 1)
        if r.random() < .3:
            put(team, ".hid.py", mkfile(r, 1), 1)
        put(tree, "shared/team", team, 1)
        for d in sorted(dirs):
            node = get(tree, d)
            up = "../" * (d.count("/") + 2 if d else 1)
            team_tg = r.choice(["{ROOT}/shared/team", up + "shared/team"])
            pf = node["dir"].get(".pyflyby")
            if pf is None and r.random() < .35:
                node["dir"][".pyflyby"] = {"link": r.choice([team_tg[3:] if team_tg.startswith("../") else team_tg,
                                                             "{ROOT}/shared/team/t.py", "nowhere"])}
            elif pf is not None and "dir" in pf and r.random() < .6:
                for nm, tg in r.sample([("team", team_tg), ("team", team_tg), ("l.py", "x.py"), ("lnk", "x.py"), ("d2.py", "sub"),
                                        ("dang.py", "nowhere"), ("loopa", "loopb"), ("loopb", "loopa"), ("self.py", "self.py"),
                                        ("tfile.py", "{ROOT}/shared/team/t.py"), ("up.py", "../.pyflyby/y.py")], r.randint(1, 4)):
                    if nm not in pf["dir"]:
                        pf["dir"][nm] = {"link": tg}
            if EXTRA not in node["dir"] and r.random() < .15:
                node["dir"][EXTRA] = {"link": team_tg[3:] if team_tg.startswith("../") else team_tg}
        inner = [d for d in dirs if d]
        if inner:
            tgt = r.choice(inner)
            tree["dir"]["lnkdir"] = {"link": r.choice([tgt, "{ROOT}/" + tgt, "./" + tgt + "/"])}
            links.append("lnkdir")
    tree["_links"] = links
    # devices: mount points (everything below gets another st_dev), possibly the outer id again further down
    k = r.random()
    if k < .3:
        mp = r.choice(dirs[1:])
        setdev(get(tree, mp), r.choice([2, 3]))
        inner = [d for d in dirs if d.startswith(mp + "/")]
        if inner and r.random() < .5:
            setdev(get(tree, r.choice(inner)), 1)
    elif k < .5:
        # every directory flips a coin against its parent: many 1-2-1 patterns along a path
        for d in sorted(dirs[1:], key=lambda x: x.count("/")):
            parent = get(tree, d.rpartition("/")[0])
            setdev(get(tree, d), parent["dev"] if r.random() < .5 else 3 - parent["dev"])
    if r.random() < .1 and ".pyflyby" in tree["dir"]:
        setdev(tree["dir"][".pyflyby"], 5)
    return tree, dirs


def get(tree, rel):
    node = tree
    for p in [x for x in rel.split("/") if x]:
        node = node["dir"][p]
    return node


def setdev(node, dev):
    if "link" in node:
        return
    node["dev"] = dev
    for ch in node.get("dir", {}).values():
        setdev(ch, dev)


def gen_env(r, dirs, links=()):
    if links and r.random() < .12:
        l = "{ROOT}/" + r.choice(list(links))
        return r.choice([l + "/.pyflyby", l + "/" + EXTRA, l + "/.pyflyby:-", l + "/.pyflyby/team", l + "/../.pyflyby"])
    k = r.random()
    if k < .2:
        return None
    if k < .28:
        return "EMPTY"
    if k < .32:
        return r.choice(["", ":", "-", "-:-", "EMPTY:EMPTY", "relative/x", ".../nonexistent12", "EMPTY:-", "./bad name", ".../bad name/x",
                         "~", "~/", "~/../" + EXTRA, "....//x", ".../../" + EXTRA, ".../{ROOT}/" + EXTRA])
    def absd():
        d = r.choice(dirs)
        return "{ROOT}" + ("/" + d if d else "")
    parts = [r.choice(["-", ".../.pyflyby", "~/.pyflyby", "./" + EXTRA, "./.pyflyby", absd() + "/" + EXTRA,
                       absd() + "/" + EXTRA + "/e.py", ".../" + EXTRA, "", absd() + "/nonexistent",
                       absd() + "/.pyflyby", "~/" + EXTRA, "./" + EXTRA + "/../.pyflyby", absd() + "/.pyflyby/notes.txt",
                       absd() + "/.pyflyby/.hid.py", ".../.pyflyby/sub"])
             for _ in range(r.randint(1, 4))]
    return ":".join(parts)


def gen_target(r, dirs, links=()):
    if links and r.random() < .25:
        ad = "{ROOT}/" + r.choice(list(links))
        return r.choice([ad + "/t.py", ad + "/no/such/t.py", ad, ad + "/../t.py", ad + "/.pyflyby/x.py", ad + "/./a/../t.py"])
    d = r.choice(dirs)
    ad = "{ROOT}" + ("/" + d if d else "")
    return r.choice([ad + "/t.py", ad + "/t.py", ad + "/no/such/t.py", ad, "t.py", ".", "", "a/t.py", "../t.py",
                     ad + "/a/../t.py", ad + "/a b/c/t.py", "/dev/null", "/devel/x.py", ad + "/.pyflyby", ad + "/",
                     ad + "/.pyflyby/x.py", "~/t.py"])


def gen_history(r, i, maxlen=4):
    tree, dirs = gen_tree(r)
    links = tree.pop("_links")
    n = r.randint(1, maxlen)
    base = {"cwd": r.choice(dirs), "home": "{ROOT}/home", "target": gen_target(r, dirs, links),
            "env": [gen_env(r, dirs, links), None, None]}
    lookups = []
    for j in range(n):
        lk = dict(base, env=list(base["env"]))
        # change one or two components relative to the previous lookup: coherence is about interleavings
        for what in r.sample(["cwd", "home", "target", "env", "env2", "same", "swap"], r.choice([1, 1, 2])):
            if what == "cwd":
                lk["cwd"] = r.choice(dirs)
            elif what == "home":
                d = r.choice(dirs + list(links))
                lk["home"] = "{ROOT}" + ("/" + d if d else "") + r.choice(["", "", "/"])
            elif what == "swap":
                # cwd and HOME exchanged: a key that mixes the two up serves the other setting's database
                h = lk["home"][len("{ROOT}"):].strip("/")
                if h in dirs:
                    lk["cwd"], lk["home"] = h, "{ROOT}" + ("/" + lk["cwd"] if lk["cwd"] else "")
            elif what == "target":
                lk["target"] = gen_target(r, dirs, links)
            elif what == "env":
                lk["env"][0] = gen_env(r, dirs, links)
            elif what == "env2":
                lk["env"][r.choice([1, 2])] = r.choice([None, "", "/x"])
        lookups.append(lk)
        base = lk
    etc = []
    if r.random() < .4:
        etc = [r.choice(dirs) + "/" + EXTRA if r.random() < .5 else r.choice(dirs) + "/.pyflyby"]
        etc = [e.lstrip("/") for e in etc]
    spine_dev = r.choice([1, 1, 1, 9])
    return {"kind": "history", "i": i, "tree": tree, "lookups": lookups, "etc": etc, "spine_dev": spine_dev}


def gen_swap(r, i):
    """cwd and HOME exchanged between two lookups with a search path that depends on both."""
    def dbdir(names):
        d = {"dev": 1, "dir": {}}
        for n in names:
            put(d, n, {"dev": 1, "file": {"stmts": [["imp", r.choice(KNOWN_POOL)]], "ident_form": False}}, 1)
        return d
    tree = {"dev": 1, "dir": {}}
    for nm in ("A", "B"):
        node = {"dev": 1, "dir": {}}
        if r.random() < .85:
            node["dir"][".pyflyby"] = dbdir(["x.py"]) if r.random() < .5 else \
                {"dev": 1, "file": {"stmts": [["imp", r.choice(KNOWN_POOL)]], "ident_form": False}}
        if r.random() < .7:
            node["dir"][EXTRA] = dbdir(["e.py"])
        tree["dir"][nm] = node
    tree["dir"]["proj"] = {"dev": 1, "dir": {}}
    env = r.choice(["~/.pyflyby:./" + EXTRA, "./.pyflyby:~/" + EXTRA, "-", None, "~/" + EXTRA + ":-", "./" + EXTRA + ":-",
                    "./.pyflyby", "~/.pyflyby", "~/" + EXTRA + ":./" + EXTRA])
    target = r.choice(["{ROOT}/proj/t.py", "{ROOT}/proj", "{ROOT}/A/t.py", "{ROOT}/proj/no/such/t.py"])
    a = {"cwd": "A", "home": "{ROOT}/B", "target": target, "env": [env, None, None]}
    b = {"cwd": "B", "home": "{ROOT}/A", "target": target, "env": [env, None, None]}
    lookups = r.choice([[a, b], [b, a], [a, b, a], [a, a, b]])
    return {"kind": "history", "i": i, "tree": tree, "lookups": lookups, "etc": [], "spine_dev": 1}


def proper_prefixes(full):
    parts = full.split(".")
    return [".".join(parts[:k]) for k in range(1, len(parts))]


def gen_index_view(r, i):
    """Targets whose databases have IDENTICAL known imports but differ only in what the index must hide
    (a forget of a DERIVED parent-package entry), or only in mandatory / canonical entries: anything that
    is remembered per known-set (instead of per database) shows up in one of the two orders."""
    base = r.sample([["corp.pkg.thing", "thing"], ["pk.sub.mod", "pk.sub.mod"], ["q.r.s.t", "q.r.s.t"],
                     ["os.path.join", "join"], ["m.sub.t2", "t2"]], r.randint(1, 3))
    derived = sorted({p for f, _ in base for p in proper_prefixes(f)})

    def overlay():
        k = r.random()
        if k < .55:
            return [["forget", [[p, p] for p in r.sample(derived, r.randint(1, min(2, len(derived))))]]]
        if k < .7:
            return [["mand", [r.choice(MAND_POOL)]]]
        if k < .85:
            return [["canon", [r.choice(CANON_POOL)]]]
        if k < .93:
            return [["forget", [["absent.mod", "mod"]]]]
        return []
    def f(stmts):
        return {"dev": 1, "file": {"stmts": stmts, "ident_form": False}}
    tree = {"dev": 1, "dir": {"home": {"dev": 1, "dir": {}},
                              ".pyflyby": f([["imp", b] for b in base]),
                              "a": {"dev": 1, "dir": {".pyflyby": f(overlay()),
                                                      "b": {"dev": 1, "dir": {".pyflyby": f(overlay())}}}},
                              "c": {"dev": 1, "dir": {".pyflyby": f(overlay())}},
                              "d": {"dev": 1, "dir": {}}}}
    targets = ["{ROOT}/t.py", "{ROOT}/a/t.py", "{ROOT}/a/b/t.py", "{ROOT}/c/t.py", "{ROOT}/d/t.py"]
    seq = [r.choice(targets) for _ in range(r.randint(2, 4))]
    if len(set(seq)) == 1:
        seq[-1] = r.choice([t for t in targets if t != seq[0]])
    lookups = [{"cwd": "d", "home": "{ROOT}/home", "target": t, "env": [None, None, None]} for t in seq]
    return {"kind": "history", "i": i, "tree": tree, "lookups": lookups, "etc": [], "spine_dev": 1}


LONG_CH = "abcdefghijklmnopqrstuvwxyzABCDEFGHIJKLMNOPQRSTUVWXYZ0123456789_=+{},@-"


def gen_deep(r, i):
    """Long absolute paths: components up to 255 bytes, total length beyond 255 / 1024 characters (NAME_MAX is
    per component, PATH_MAX is 4096): nothing on the database path may depend on the length of a name."""
    depth = r.randint(2, 6)
    tree = {"dev": 1, "dir": {"home": {"dev": 1, "dir": {}}}}
    if r.random() < .7:
        tree["dir"][".pyflyby"] = {"dev": 1, "file": gen_spec(r, rich=False)}
    node, rel, dirs = tree, "", [""]
    for lvl in range(depth):
        ln = r.choice([40, 90, 120, 200, 250, 255])
        name = "".join(r.choice(LONG_CH) for _ in range(ln - 1)) + "x"
        if name[0] in "-":
            name = "d" + name[1:]
        ch = {"dev": 1, "dir": {}}
        node["dir"][name] = ch
        rel = (rel + "/" if rel else "") + name
        dirs.append(rel)
        node = ch
        k = r.random()
        if k < .45:
            node["dir"][".pyflyby"] = {"dev": 1, "file": gen_spec(r, rich=False)}
        elif k < .8:
            pd = node["dir"][".pyflyby"] = {"dev": 1, "dir": {}}
            for nm in r.sample(["x.py", "sub/z.py", "y" * r.choice([50, 200, 251]) + ".py", "notes.txt"], r.randint(1, 3)):
                put(pd, nm, {"dev": 1, "file": gen_spec(r, rich=False)}, 1)
        if r.random() < .25:
            put(node, EXTRA + "/e.py", {"dev": 1, "file": gen_spec(r, rich=False)}, 1)
    lookups = []
    for _ in range(r.randint(1, 3)):
        d = r.choice(dirs[1:] + [dirs[-1]] * 3)
        lookups.append({"cwd": r.choice(dirs), "home": "{ROOT}/" + r.choice(["home", dirs[-1]]),
                        "target": "{ROOT}/" + d + r.choice(["/t.py", "/t.py", "/no/such/t.py", "", "/" + "t" * 250 + ".py"]),
                        "env": [r.choice([None, None, ".../.pyflyby", "./.pyflyby:-", "{ROOT}/" + dirs[-1] + "/.pyflyby",
                                          ".../" + EXTRA + ":~/.pyflyby", "./" + EXTRA]), None, None]})
    return {"kind": "history", "i": i, "tree": tree, "lookups": lookups, "etc": [], "spine_dev": 1}


def gen_rootdots(r, i):
    """`.../x` with a multi-component suffix that exists under exactly ONE ancestor of the target directory:
    the file-system root "/", a real ancestor between "/" and the scratch root, the scratch root, a middle
    directory, the nearest one, the target directory itself.  Nothing is written outside the scratch tree."""
    def f():
        spec = gen_spec(r, rich=False)
        return {"dev": 1, "file": spec if "stmts" in spec else {"stmts": [["imp", r.choice(KNOWN_POOL)]], "ident_form": False}}
    tree = {"dev": 1, "dir": {"home": {"dev": 1, "dir": {}}, "rootdb.py": f(),
                              "dbs": {"dev": 1, "dir": {"x.py": f(), "sub": {"dev": 1, "dir": {"z.py": f()}}}},
                              "a": {"dev": 1, "dir": {"adb.py": f(), "adir": {"dev": 1, "dir": {"q.py": f()}},
                                                      "b": {"dev": 1, "dir": {"bdb.py": f(), "c": {"dev": 1, "dir": {"cdb.py": f()}}}}}}}}
    only = {"fsroot": ["{ROOTREL}/rootdb.py", "{ROOTREL}/dbs", "{ROOTREL}/a/adb.py", "{ROOTREL}/a/b/c/cdb.py"],
            "spine": ["{ROOTREL1}/rootdb.py", "{ROOTREL2}/dbs/sub", "{ROOTREL1}/a/b/bdb.py"],
            "scratch": ["rootdb.py", "dbs/x.py", "a/adb.py", "a/b/bdb.py", "dbs"],
            "middle": ["adb.py", "adir/q.py", "b/bdb.py", "adir"],
            "nearest": ["bdb.py", "c/cdb.py"],
            "target": ["cdb.py"]}
    lookups = []
    for _ in range(r.randint(1, 3)):
        kinds = r.sample(sorted(only), r.randint(1, 3))
        parts = [".../" + r.choice(only[k]) for k in kinds]
        if r.random() < .25:
            parts.insert(r.randint(0, len(parts)), r.choice(["-", "./rootdb.py", "{ROOT}/dbs/x.py"]))
        lookups.append({"cwd": r.choice(["", "a", "a/b"]), "home": "{ROOT}/home",
                        "target": "{ROOT}/a/b/c" + r.choice(["/t.py", "/t.py", "", "/no/such/t.py"]),
                        "env": [":".join(parts), None, None]})
    return {"kind": "history", "i": i, "tree": tree, "lookups": lookups, "etc": [], "spine_dev": r.choice([1, 1, 1, 1, 9])}


def gen_partition(r, i):
    """Device boundaries on purpose: a chain of directories with a database at every level, st_dev
    chosen per level (1-2-1 patterns, boundary at the scratch root, boundary above a missing target)."""
    depth = r.randint(2, 4)
    names = [r.choice(["a", "b", "proj"]) for _ in range(depth)]
    tree = {"dev": r.choice([1, 1, 2]), "dir": {"home": {"dev": 1, "dir": {}}}}
    node, rel, dirs = tree, "", [""]
    for lvl in range(depth + 1):
        if r.random() < .8:
            node["dir"][".pyflyby"] = {"dev": node["dev"], "file": {"stmts": [["imp", r.choice(KNOWN_POOL)]], "ident_form": False}}
        if r.random() < .3:
            node["dir"][EXTRA] = {"dev": node["dev"], "dir": {"e.py": {"dev": node["dev"], "file": {"stmts": [["imp", r.choice(KNOWN_POOL)]], "ident_form": False}}}}
        if lvl == depth:
            break
        ch = {"dev": node["dev"] if r.random() < .45 else r.choice([1, 2, 3]), "dir": {}}
        node["dir"][names[lvl]] = ch
        rel = (rel + "/" if rel else "") + names[lvl]
        dirs.append(rel)
        node = ch
    lookups = []
    for _ in range(r.randint(1, 3)):
        d = r.choice(dirs[1:] + [dirs[-1]] * 2)
        lookups.append({"cwd": r.choice(dirs), "home": "{ROOT}/home",
                        "target": "{ROOT}/" + d + r.choice(["/t.py", "/t.py", "/no/such/t.py", ""]),
                        "env": [r.choice([None, None, ".../.pyflyby", ".../" + EXTRA + ":-", ".../.pyflyby:.../" + EXTRA]), None, None]})
    return {"kind": "history", "i": i, "tree": tree, "lookups": lookups, "etc": [],
            "spine_dev": r.choice([tree["dev"], tree["dev"], 9])}


def gen_compose(r, i):
    """No file system: _from_code on in-memory blocks, and ImportDB.__or__."""
    files = [gen_spec(r) for _ in range(r.randint(1, 4))]
    files = [f if "stmts" in f else {"stmts": [], "ident_form": False} for f in files]
    return {"kind": "compose", "i": i, "files": files, "cut": r.randint(0, len(files))}


def gen_etc(r, i):
    tree = {"dev": 1, "dir": {}}
    chain = ["opt", "lib", "python", "pyflyby"]
    put(tree, "/".join(chain), {"dev": 1, "dir": {}}, 1)
    for k in range(len(chain) + 1):
        if r.random() < .35:
            base = "/".join(chain[:k])
            kind = r.choice(["dir", "dir", "file", "half"])
            if kind == "dir":
                put(tree, (base + "/" if base else "") + "etc/pyflyby", {"dev": 1, "dir": {}}, 1)
            elif kind == "file":
                put(tree, (base + "/" if base else "") + "etc/pyflyby", {"dev": 1, "file": {"stmts": []}}, 1)
            else:
                put(tree, (base + "/" if base else "") + "etc", {"dev": 1, "dir": {}}, 1)
    return {"kind": "etc", "i": i, "tree": tree, "module_dir": "/".join(chain)}


def gen_cases(ctx, n):
    cases = []
    for i in range(n):
        r = cm.rng(ctx.seed, "c12", i)
        k = i % 20
        if k < 10:
            cases.append(gen_history(r, i))
        elif k < 11:
            cases.append(gen_rootdots(r, i))
        elif k < 12:
            cases.append(gen_index_view(r, i))
        elif k < 13:
            cases.append(gen_deep(r, i))
        elif k < 14:
            cases.append(gen_swap(r, i))
        elif k < 16:
            cases.append(gen_partition(r, i))
        elif k < 19:
            cases.append(gen_compose(r, i))
        else:
            cases.append(gen_etc(r, i))
    return cases


def gen_exhaustive(ctx, ntrees, alphabet=5, maxlen=4):
    """All lookup sequences up to maxlen over an alphabet of queries, on a few generated trees."""
    import itertools
    cases = []
    for ti in range(ntrees):
        r = cm.rng(ctx.seed, "c12-exh", ti)
        h = gen_history(r, 10 ** 6 + ti, maxlen=4)
        qs = []
        dirs = sorted(set([lk["cwd"] for lk in h["lookups"]] + ["", "home"]))
        while len(qs) < alphabet:
            qs.append({"cwd": r.choice(dirs), "home": "{ROOT}/" + r.choice(["home", "home", ""]).strip("/"),
                       "target": gen_target(r, dirs),
                       "env": [r.choice([None, "./" + EXTRA + ":-", "~/.pyflyby", "-:./.pyflyby", ".../" + EXTRA]), None, None]})
        for ln in range(1, maxlen + 1):
            for seq in itertools.product(range(alphabet), repeat=ln):
                cases.append(dict(h, i="exh-%d-%s" % (ti, "".join(map(str, seq))), lookups=[qs[k] for k in seq]))
    return cases


# ---------------------------------------------------------------------------------------------
# implementation side (runs in a worker process with pyflyby from REPO)

def materialize(node, path, devmap, files, root=None):
    root = root or path
    if "link" in node:
        os.symlink(node["link"].replace("{ROOT}", root), path)
        return
    devmap[path] = node["dev"]
    if "dir" in node:
        os.makedirs(path, exist_ok=True)
        for name, ch in node["dir"].items():
            materialize(ch, os.path.join(path, name), devmap, files, root)
    else:
        with open(path, "w") as f:
            f.write(render(node["file"]))
        files.append(path)


def subst(s, root):
    """{ROOT} = the scratch root; {ROOTREL}, {ROOTREL1}, {ROOTREL2} = the scratch root relative to "/", to its
    first-level and to its second-level real ancestor (for `.../x` entries that resolve only against those)."""
    if s is None:
        return None
    comps = root.strip("/").split("/")
    for k, tag in ((2, "{ROOTREL2}"), (1, "{ROOTREL1}"), (0, "{ROOTREL}")):
        s = s.replace(tag, "/".join(comps[min(k, len(comps) - 1):]))
    return s.replace("{ROOT}", root)


def resolve_lookups(case, root):
    return [{"cwd": os.path.join(root, lk["cwd"]) if lk["cwd"] else root, "home": subst(lk["home"], root),
             "target": subst(lk["target"], root), "env": [subst(e, root) for e in lk["env"]]}
            for lk in case["lookups"]]


def child(job):
    p = subprocess.run([sys.executable, "-m", "harness.c12_child"], input=json.dumps(job), capture_output=True,
                       text=True, timeout=120, cwd=str(cm.VERIF), env=dict(os.environ))
    i = p.stdout.find("RESULT")
    if i < 0:
        raise RuntimeError("c12 child failed: rc=%s %s" % (p.returncode, (p.stderr or p.stdout)[-1500:]))
    return json.loads(p.stdout[i + 6:])


def spine_of(root):
    out, p = [], os.path.dirname(root)
    while True:
        out.append(p)
        if p == "/":
            break
        p = os.path.dirname(p)
    return out


def impl_case(case):
    if case["kind"] == "compose":
        return impl_compose(case)
    top = os.path.realpath(tempfile.mkdtemp(prefix="c12"))
    root = os.path.join(top, "r")
    try:
        devmap, files = {}, []
        materialize(case["tree"], root, devmap, files)
        spine = spine_of(root)
        if case["kind"] == "etc":
            job = {"mode": "fresh", "devmap": {}, "module_file": os.path.join(root, case["module_dir"], "_importdb.py"),
                   "files": [], "lookups": []}
            return {"root": root, "etc": child(job)["etc"], "global_etc": os.path.exists("/etc/pyflyby")}
        for a in spine:
            devmap[a] = case["spine_dev"]
            for nm in (".pyflyby", EXTRA, "bad name"):
                if os.path.lexists(os.path.join(a, nm)):
                    raise RuntimeError("environment assumption broken: %s exists" % os.path.join(a, nm))
        lookups = resolve_lookups(case, root)
        etc = [os.path.join(root, e) for e in case["etc"]]
        job = {"devmap": devmap, "etc": etc, "files": sorted(files), "lookups": lookups}
        cached = child(dict(job, mode="cached"))
        fresh = child(dict(job, mode="fresh"))
        return {"root": root, "cached": cached["lookups"], "fresh": fresh["lookups"],
                "parsed": {os.path.relpath(k, root): v for k, v in fresh["parsed"].items()}}
    finally:
        shutil.rmtree(top, ignore_errors=True)


def impl_compose(case):
    from pyflyby._importdb import ImportDB
    from pyflyby._parse import PythonBlock
    from .c12_child import show_db
    blocks = [PythonBlock(render(f)) for f in case["files"]]
    cut = case["cut"]
    out = {"all": show_db(ImportDB._from_code(blocks))}
    try:
        out["or"] = show_db(ImportDB._from_code(blocks[:cut]) | ImportDB._from_code(blocks[cut:]))
    except AssertionError:
        out["or"] = "AssertionError"
    return out


# ---------------------------------------------------------------------------------------------
# model side

def c_imp(p):
    return cm.cpair(cm.cstr(p[0]), cm.cstr(p[1]))


def c_dbfile(d):
    return "(mkDbfile %s %s %s %s)" % (cm.clist([c_imp(x) for x in d["known"]]), cm.clist([c_imp(x) for x in d["mand"]]),
                                       cm.clist([c_imp(x) for x in d["canon"]]), cm.clist([c_imp(x) for x in d["forget"]]))


def c_parsed(p):
    if "err" in p:
        return "(inl %s)" % cm.cstr(p["err"])
    return "(inr %s)" % c_dbfile(p)


def c_tree(node, rel, parsed, root=""):
    if "link" in node:
        return "(Link %s)" % cm.cstr(node["link"].replace("{ROOT}", root))
    if "dir" in node:
        return "(Dir %s %s)" % (cm.cN(node["dev"]), cm.clist(
            [cm.cpair(cm.cstr(n), c_tree(ch, (rel + "/" + n) if rel else n, parsed, root)) for n, ch in node["dir"].items()]))
    return "(File %s %s)" % (cm.cN(node["dev"]), c_parsed(parsed[rel]) if parsed is not None else "(inl [])")


def c_path(p):
    return cm.clist([cm.cstr(x) for x in p.strip("/").split("/") if x])


def c_env(e):
    return "(%s, %s, %s)" % tuple(cm.copt(x, cm.cstr) for x in e)


def full_tree_expr(case, root, parsed):
    """The scratch tree hung under its real ancestors ("/" ... dirname(root))."""
    expr = c_tree(case["tree"], "", parsed, root)
    comps = [x for x in root.split("/") if x]
    for name in reversed(comps):
        expr = "(Dir %s [(%s, %s)])" % (cm.cN(case.get("spine_dev", 1)), cm.cstr(name), expr)
    return expr


def model_exprs(cases, impl):
    exprs, index = [], []
    for ci, (c, im) in enumerate(zip(cases, impl)):
        if "__exc__" in im or "__timeout__" in im:
            continue
        if c["kind"] == "compose":
            fs = [c_dbfile(intended(f)) for f in c["files"]]
            exprs.append("run_compose Fixed %s" % cm.clist(fs))
            index.append((ci, "all"))
            exprs.append("run_or Fixed %s %s" % (cm.clist(fs[:c["cut"]]), cm.clist(fs[c["cut"]:])))
            index.append((ci, "or"))
            continue
        root = im["root"]
        if c["kind"] == "etc":
            exprs.append("run_etc (%s) %s" % (full_tree_expr(c, root, None), c_path(root + "/" + c["module_dir"])))
            index.append((ci, "etc"))
            continue
        t = full_tree_expr(c, root, im["parsed"])
        etc = cm.clist([c_path(root + "/" + e) for e in c["etc"]])
        qs = cm.clist(["(mkQuery %s %s %s %s)" % (c_path(lk["cwd"]), cm.cstr(lk["home"]), cm.cstr(lk["target"]), c_env(lk["env"]))
                       for lk in resolve_lookups(c, root)])
        exprs.append("run_history Fixed %s %s %s" % (t, etc, qs))
        index.append((ci, "history"))
    return exprs, index


# ---------------------------------------------------------------------------------------------
# oracle: the property re-stated in plain Python on the generator's term (independent of the model)

SAFE = set("abcdefghijklmnopqrstuvwxyzABCDEFGHIJKLMNOPQRSTUVWXYZ0123456789_=+{}/.,~@-")


def safe(p):
    return all(ch in SAFE for ch in p) and not any(part.startswith("~") for part in p.split("/"))


class FS(object):
    """The generator's tree as a path -> node table; symbolic links are followed the way POSIX path
    resolution does (independent restatement: string paths, an explicit work stack)."""

    def __init__(self, case, root):
        self.raw, self.kids, self.root = {}, {}, root
        for a in spine_of(root):
            self.raw[a] = ("d", case.get("spine_dev", 1), None)
        p = root
        while p != "/":
            self.kids.setdefault(os.path.dirname(p), []).append(os.path.basename(p))
            p = os.path.dirname(p)
        self._add(case["tree"], root)

    def _add(self, node, path):
        if "link" in node:
            self.raw[path] = ("l", node["link"].replace("{ROOT}", self.root), None)
        elif "dir" in node:
            self.raw[path] = ("d", node["dev"], None)
            self.kids[path] = sorted(node["dir"])
            for n, ch in node["dir"].items():
                self._add(ch, posixpath.join(path, n))
        else:
            self.raw[path] = ("f", node["dev"], node["file"])

    def resolve(self, path, strict):
        """Real path of `path` (None: missing component when strict, or too many links)."""
        cur, todo, hops = "/", list(reversed(path.split("/"))), 0
        while todo:
            n = todo.pop()
            if n in ("", "."):
                continue
            if n == "..":
                cur = posixpath.dirname(cur)
                continue
            nxt = posixpath.join(cur, n)
            node = self.raw.get(nxt)
            if node is not None and node[0] == "l":
                hops += 1
                if hops >= 40:
                    return None
                if node[1].startswith("/"):
                    cur = "/"
                todo.extend(reversed(node[1].split("/")))
                continue
            if node is None and strict:
                return None
            cur = nxt
        return cur

    def stat(self, p):
        r = self.resolve(p, True)
        return None if r is None else self.raw.get(r)

    def isdir(self, p):
        st = self.stat(p)
        return st is not None and st[0] == "d"

    def isfile(self, p):
        st = self.stat(p)
        return st is not None and st[0] == "f"

    def dev(self, p):
        st = self.stat(p)
        return None if st is None else st[1]

    def spec(self, p):
        return self.stat(p)[2]

    def walk(self, p, out):
        for n in self.kids.get(self.resolve(p, True), []):
            f = posixpath.join(p, n)
            if not safe(f) or n.startswith(".") or n == "__pycache__":
                continue
            if self.isfile(f):                       # a link to a file counts as a file ...
                if n.endswith(".py"):
                    out.append(f)
            elif self.isdir(f):                      # ... a link to a directory is searched
                self.walk(f, out)


def ancestors(p):
    out = [p]
    while out[-1] != "/":
        out.append(posixpath.dirname(out[-1]))
    return out


def oracle_target_dir(fs, lk):
    tp = fs.resolve(posixpath.join(lk["cwd"], lk["target"]), False)      # Path.resolve()
    cands = ([tp] if fs.isdir(tp) else []) + ancestors(tp)[1:]
    d = [c for c in cands if safe(c)][0]
    if lk["target"].startswith("/dev") and safe(lk["cwd"]):
        d = lk["cwd"]
    while not fs.isdir(d):
        d = posixpath.dirname(d)
    real = fs.resolve(d, False)
    return real if safe(real) else d


def oracle_files(fs, lk, etc):
    """('ok', files) or ('err',): the search-path sentence of the property."""
    default = list(etc) + [".../.pyflyby", "~/.pyflyby"]
    parts = [p for p in (lk["env"][0] or "").split(":") if p]
    if not parts:
        parts = default
    elif "-" in parts:
        k = parts.index("-")
        parts = parts[:k] + default + parts[k + 1:]
    if parts == ["EMPTY"]:
        return ("ok", [])
    if any(not p.startswith(("/", "./", ".../", "~/")) for p in parts):
        return ("err",)
    d = oracle_target_dir(fs, lk)
    roots = []
    for p in parts:
        if p.startswith("~/"):
            p = lk["home"].rstrip("/") + p[1:]
        if p.startswith(".../"):
            dev, same = None, []
            for a in ancestors(d):
                if fs.dev(a) is None:
                    continue
                if dev is None:
                    dev = fs.dev(a)
                if fs.dev(a) != dev:
                    break
                same.append(a)
            for a in reversed(same):                       # nearest last
                f = posixpath.normpath(posixpath.join(a, p[4:]))
                if safe(f):
                    roots.append(f)
        else:
            f = posixpath.normpath(posixpath.join(lk["cwd"], p))
            if not safe(f):
                return ("err",)
            roots.append(f)
    seen, files = set(), []
    for f in roots:
        if f in seen:
            continue
        seen.add(f)
        if fs.isfile(f):
            files.append(f)
        elif fs.isdir(f):
            fs.walk(f, files)
    return ("ok", files)


def star_removed(i, forget):
    f, a = i
    if a == f or "." not in f.lstrip("."):
        return False
    mod = f.rpartition(".")[0]
    mods = {g.rpartition(".")[0] for g, b in forget if b == "*" and g.endswith(".*")}
    parts = mod.split(".")
    return any(".".join(parts[:k]) in mods for k in range(1, len(parts) + 1))


def oracle_db(contents):
    """Set algebra on the intended contents of the loaded files (in load order)."""
    known = {tuple(i) for c in contents for i in c["known"]}
    mand = {tuple(i) for c in contents for i in c["mand"]}
    forget = {tuple(i) for c in contents for i in c["forget"]}
    canon = {}
    for c in contents:
        for k, v in c["canon"]:
            canon[k] = v
    def as_imp(s):
        return (s, s.split(".")[-1])
    known = {i for i in known if i not in forget and not star_removed(i, forget)}
    mand = {i for i in mand if i not in forget and not star_removed(i, forget)}
    canon = {k: v for k, v in canon.items() if as_imp(k) not in forget and as_imp(v) not in forget}
    idx = {}
    for f, a in known:
        idx.setdefault(a, set()).add((f, a))
        parts = f.split(".")
        for k in range(1, len(parts)):
            p = ".".join(parts[:k])
            idx.setdefault(p, set()).add((p, p))
    idx = {k: sorted(v - forget) for k, v in idx.items() if v - forget}
    return {"known": sorted(map(list, known)), "mand": sorted(map(list, mand)), "canon": sorted([k, v] for k, v in canon.items()),
            "forget": sorted(map(list, forget)), "index": sorted([k, [list(i) for i in v]] for k, v in idx.items())}


DBKEYS = ("known", "mand", "canon", "forget", "index")


def content(r):
    """The answer of a lookup without the hit/loaded distinction."""
    if r["kind"] == "err":
        return {"err": r["err"]}
    return {k: r[k] for k in DBKEYS}


def oracle_history(ctx, c, im):
    root = im["root"]
    fs = FS(c, root)
    lookups = resolve_lookups(c, root)
    etc = [posixpath.join(root, e) for e in c["etc"]]
    # parse oracle (environment-side hypothesis): the real parser extracts what the generator wrote
    for rel, p in im["parsed"].items():
        spec = get(c["tree"], rel)["file"]
        if "raw" in spec:
            if "err" not in p:
                ctx.disagreement("parse oracle: a malformed database file was accepted", c, p, spec)
            continue
        want = intended(spec)
        if "err" in p or p["known"] != want["known"] or any(
                set(map(tuple, p[k])) != set(map(tuple, want[k])) for k in ("mand", "forget")) or \
                dict(map(tuple, p["canon"])) != dict(map(tuple, want["canon"])):
            ctx.disagreement("parse oracle: file content differs from the generator's term", c, p, want)
    for j, lk in enumerate(lookups):
        cz, fr = im["cached"][j], im["fresh"][j]
        # (a) cache coherence: identical to a fresh load
        if content(cz) != content(fr):
            if not classify_known(ctx, c, "cache_coherent", j):
                ctx.violation("cache_coherent", c, {"lookup": j, "cached": content(cz), "fresh": content(fr),
                                                    "what": "the answer served in a process with history differs from a fresh load"})
        # (b) search-path semantics on the fresh load
        want = oracle_files(fs, lk, etc)
        if want[0] == "err":
            if fr["kind"] != "err":
                ctx.violation("path_semantics", c, {"lookup": j, "what": "a malformed PYFLYBY_PATH was accepted", "fresh": fr})
            continue
        specs = [fs.spec(f) for f in want[1]]
        if fr["kind"] == "err":
            if not any("raw" in s for s in specs):
                ctx.violation("path_semantics", c, {"lookup": j, "what": "unexpected error", "fresh": fr, "files": want[1]})
            continue
        if any("raw" in s for s in specs):
            ctx.violation("path_semantics", c, {"lookup": j, "what": "a malformed file on the path was not reported", "files": want[1]})
            continue
        if fr.get("files") != want[1]:
            ctx.violation("path_semantics", c, {"lookup": j, "loaded": fr.get("files"), "expected": want[1]})
            continue
        # (c) composition / forgetting / index
        exp = oracle_db([intended(s) for s in specs])
        for k, clause in (("known", "db_is_union_minus_forget"), ("mand", "db_is_union_minus_forget"),
                          ("canon", "db_is_union_minus_forget"), ("forget", "db_is_union_minus_forget")):
            if fr[k] != exp[k]:
                ctx.violation(clause, c, {"lookup": j, "collection": k, "got": fr[k], "expected": exp[k]})
        if fr["index"] != exp["index"]:
            empties = [k for k, v in fr["index"] if not v]
            clause = "index_values_nonempty" if empties else "index_respects_forget"
            if not classify_known(ctx, c, clause, j):
                ctx.violation(clause, c, {"lookup": j, "got": fr["index"], "expected": exp["index"], "empty_keys": empties})


def classify_known(ctx, case, clause, j):
    """Known findings of C12 (none open on the agreed tree: F21 and F26 are repaired by fixes/)."""
    for e in ctx.open_findings():
        pred = globals().get(e.get("classifier", ""))
        if pred and pred(case, clause, j):
            ctx.known_hit(e["id"], e["what"])
            return True
    return False


# ---------------------------------------------------------------------------------------------

def norm_step(r):
    """Canonical form of one step of either side."""
    out = dict(r)
    out.pop("msg", None)
    for k in ("known", "mand", "forget", "canon"):
        if k in out:
            out[k] = sorted(out[k])
    if "index" in out:
        out["index"] = sorted(out["index"])
    ks = {json.dumps(k) for k in out.get("keys", [])}
    out["keys"] = sorted(ks)
    return out


ERRMAP = {"ValueError:nosafe": "ValueError"}


def compare(ctx, cases, impl, index, model):
    got = {}
    for (ci, tag), mv in zip(index, model):
        got[(ci, tag)] = mv
    for ci, (c, im) in enumerate(zip(cases, impl)):
        if "__exc__" in im or "__timeout__" in im:
            ctx.bump("harness_exception")
            ctx.count(c, False)
            ctx.disagreement("implementation-side harness failed", c, im, None)
            continue
        if c["kind"] == "compose":
            for tag in ("all", "or"):
                mv = got[(ci, tag)]
                iv = im[tag]
                if iv == "AssertionError":
                    ctx.bump("or_key_conflict")
                    continue
                if norm_step(dict(iv, kind="x")) != norm_step(dict(mv, kind="x")):
                    ctx.disagreement("ImportDB._from_code" if tag == "all" else "ImportDB.__or__", c, iv, mv)
            exp = oracle_db([intended(f) for f in c["files"]])
            for k in DBKEYS:
                if im["all"][k] != exp[k]:
                    clause = "db_is_union_minus_forget" if k != "index" else (
                        "index_values_nonempty" if any(not v for _, v in im["all"]["index"]) else "index_respects_forget")
                    if not classify_known(ctx, c, clause, 0):
                        ctx.violation(clause, c, {"collection": k, "got": im["all"][k], "expected": exp[k]})
            ctx.bump("compose")
            ctx.count(c, bool(exp["forget"]))
            continue
        if c["kind"] == "etc":
            mv = got[(ci, "etc")]
            want = [p for p in mv if not (p == "/etc/pyflyby")] + (["/etc/pyflyby"] if im["global_etc"] else [])
            if im["etc"] != want:
                ctx.disagreement("_find_etc_dirs", c, im["etc"], want)
            ctx.bump("etc")
            ctx.count(c, bool(mv))
            continue
        mv = got[(ci, "history")]
        steps_i = [norm_step(s) for s in im["cached"]]
        steps_m = [norm_step(dict(s, err=ERRMAP.get(s.get("err"), s.get("err"))) if s["kind"] == "err" else s) for s in mv]
        if steps_i != steps_m:
            j = next((k for k, (a, b) in enumerate(zip(steps_i, steps_m)) if a != b), None)
            ctx.disagreement("ImportDB.get_default history (first differing lookup %s)" % j, c,
                             steps_i[j] if j is not None else steps_i, steps_m[j] if j is not None else steps_m)
        oracle_history(ctx, c, im)
        kinds = [s["kind"] for s in im["cached"]]
        for k in kinds:
            ctx.bump("lookup_" + k)
        for lk, st in zip(resolve_lookups(c, im["root"]), im["cached"]):
            if st["kind"] == "err":
                ctx.bump("err_" + st["err"])
            elif st["kind"] == "hit":
                tail = list(lk["env"]) + [lk["cwd"], lk["home"]]
                k1 = any(k[0] == "1" and k[2:] == tail for k in st["keys"])
                ctx.bump("hit_via_dir_key" if k1 else "hit_via_file_list_key")
        ctx.bump("history_len_%d" % len(kinds))
        fs = FS(c, im["root"])
        lk_env = {id(st): lk["env"][0] for lk, st in zip(c["lookups"], im["cached"])}
        if any(v[0] == "l" for v in fs.raw.values()):
            ctx.bump("tree_with_symlinks")
        for s in im["cached"]:
            if s["kind"] == "loaded":
                ctx.bump("files_loaded_%s" % min(len(s["files"]), 5))
                if any(fs.resolve(f, False) != f for f in s["files"]):
                    ctx.bump("loaded_through_symlink")
                mx = max([len(f) for f in s["files"]] or [0])
                env0 = lk_env.get(id(s))
                if env0 and ("{ROOTREL}" in env0) and s["files"]:
                    ctx.bump("loaded_via_tripledots_against_fs_root")
                if mx > 255:
                    ctx.bump("loaded_path_longer_than_1024" if mx > 1024 else "loaded_path_longer_than_255")
            if s["kind"] != "err" and s["forget"]:
                ctx.bump("db_with_forget")
        nontriv = "hit" in kinds and any(s["kind"] != "err" and s["known"] for s in im["cached"])
        ctx.count(c, nontriv)
        if nontriv:
            ctx.sample({"lookups": c["lookups"], "kinds": kinds}, limit=3)


def run(ctx):
    cm.check_anchors(ctx, ANCHORS)
    n = int(os.environ.get("VERIF_C12_N", (400 if ctx.quick else 4000) * getattr(ctx, "scale", 1)))
    ctx.coverage["rule"] = ("cases from one seeded PRNG: 5% same-known-imports/different-forget-of-derived-entries histories + 5% deep trees with absolute paths of 300-1500 characters + 5% `.../x` entries with multi-component suffixes that exist under exactly one ancestor ('/' itself, a real ancestor of the scratch root, the scratch root, a middle directory, the nearest, the target directory) + 50% lookup histories (55% of the trees with symbolic links: to directories and files, relative/absolute, dangling, looping) + 5% cwd/HOME-exchange histories + 10% device-boundary chains (1-4 lookups; cwd, HOME, target and the three "
                            "environment variables change between lookups) in generated trees with .pyflyby files/dirs at several "
                            "levels, hidden/__pycache__/unsafe entries, device boundaries; 15% in-memory compositions (+ __or__); "
                            "5% _find_etc_dirs trees; thorough adds all sequences up to length 4 over 5 queries on 2 trees; "
                            "non-trivial = a history with a cache hit and a non-empty database (compositions: with a forget list); "
                            "distinct by hash of the case")
    ctx.assumptions += [
        "the text of a database file enters the model as the four lists the real _from_code extracted from it on this run "
        "(oracle argument; checked against the generator's term on every file)",
        "symbolic links: no link points to an ancestor of its own location (the real walk would recurse until ELOOP) and "
        "no looping link lies on a target / cwd path (Path.resolve raises); cwd is a real path; $HOME is set; "
        "PYFLYBY_PATH entries do not start with '//'",
        "the ancestors of the scratch root contain no .pyflyby / %s entry (checked on every case)" % EXTRA,
        "_find_etc_dirs() is injected per case (memoized process constant); the real function is tied separately on generated trees",
        "st_dev is injected by wrapping os.stat (device boundaries cannot be created in the sandbox)",
        "cache_coherent: file contents, directory structure and st_dev are fixed during a history (explicit hypothesis = the Section variable t)",
    ]
    ctx.notes["trusted_base"] = ["posixpath.normpath/join (used by the oracle and by the real code) agree with Sys/DBPath.abspath on the generated strings (tied by the correspondence)"]
    cases = cm.load_corpus("C12") + gen_cases(ctx, n)
    if not ctx.quick:
        cases += gen_exhaustive(ctx, 2)
    impl = cm.run_impl("c12", "impl_case", cases, timeout_case=120)
    exprs, index = model_exprs(cases, impl)
    model = cm.coq_eval_json(REQ, exprs, shard=40)
    compare(ctx, cases, impl, index, model)
    ctx.notes["model_evaluations_in_kernel"] = len(exprs)


def replay(payload):
    case = payload.get("case") or payload["disagreements"][0]["case"]
    ctx = cm.Ctx("C12", "replay", 0)
    impl = cm.run_impl("c12", "impl_case", [case], jobs=1, timeout_case=120)
    exprs, index = model_exprs([case], impl)
    model = cm.coq_eval_json(REQ, exprs)
    compare(ctx, [case], impl, index, model)
    print(json.dumps({"case": case, "impl": impl[0], "model": model,
                      "oracle_violations": ctx.violations, "disagreements": ctx.disagreements,
                      "known": ctx.known_hits}, indent=1, default=str))
    return 1 if (ctx.violations or ctx.disagreements) else 0

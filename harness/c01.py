"""C01 - source rewriters touch only top-level import statements.

Correspondence (open mode, DESIGN 3.6): reformat_import_statements, fix_unused_and_missing_imports
(all 8 flag combinations, small DBs), replace_star_imports, remove_broken_imports,
transform_imports({}), canonicalize_imports (no canonical map) against S2S/Blocks.v + S2S/Insert.v
on top of Text/Split.v: for every SourceToSourceFileImportsTransformation the tool creates, the
block decomposition after preprocess, the block list at print time and the complete output text
are compared.  The renderings of the import blocks (R), the number of insert_new_import_block calls
and the import-set edits are captured from the implementation by wrapping it; CPython's node list
is computed independently here.
Oracle: independent frame check with stdlib ast (delete the top-level import statement extents
from input and output, compare the remainders, allowing only blank lines inserted right after the
comment/docstring prologue)."""
import ast
import io
import json
import warnings

from . import common as cm
from . import c10_gen as G

REQ = ["Text.FilePos", "Text.FileText", "Text.Split", "Text.Wire", "S2S.Blocks", "S2S.Insert", "S2S.Wire"]
REQ_CLOSED = REQ + ["Imports.Import", "Imports.ImportSet", "Imports.Format", "Imports.Wire", "S2S.Closed"]

warnings.simplefilter("ignore", SyntaxWarning)

ANCHORS = ["pyflyby._imports2s:SourceToSourceFileImportsTransformation.add_import",
           "pyflyby._cmdline:action_print", "pyflyby._cmdline:parse_args", "pyflyby._log:_PyflybyHandler.emit",
           "pyflyby._imports2s:SourceToSourceFileImportsTransformation.preprocess",
           "pyflyby._imports2s:SourceToSourceFileImportsTransformation.pretty_print",
           "pyflyby._imports2s:SourceToSourceFileImportsTransformation.insert_new_blocks_after_comments",
           "pyflyby._imports2s:SourceToSourceFileImportsTransformation.insert_new_import_block",
           "pyflyby._imports2s:SourceToSourceTransformationBase._from_source_code",
           "pyflyby._parse:PythonStatement.is_comment_or_blank_or_string_literal", "pyflyby._parse:_ast_str_literal_value",
           "pyflyby._parse:PythonBlock.concatenate", "pyflyby._parse:PythonBlock.groupby",
           "pyflyby._parse:PythonBlock.statements", "pyflyby._parse:_split_code_lines",
           "pyflyby._file:FileText.concatenate",
           "pyflyby._imports2s:transform_imports", "pyflyby._imports2s:canonicalize_imports",
           "pyflyby._imports2s:reformat_import_statements"]

TOOLS = ["reformat", "reformat_str", "reformat_ft", "tidy", "star", "broken", "transform", "canonicalize", "transform_map", "canonicalize_map", "cli_reformat", "cli_tidy", "cli_multi", "cli_pyproject", "cli_streams"]

# internal errors that belong to C03 (block selection / import-set algebra; F23, F24): counted, not judged here
C03_EXCEPTIONS = {"LineNumberAmbiguousError", "ConflictingImportsError", "OutputUnparsable"}

DBS = ["",
       "import os\nimport numpy as np\nfrom pkg import foo, bar\nimport x\n",
       "from m import a\nfrom n import a\nimport c\n__mandatory_imports__=['from __future__ import division']\n",
       "import d, y\nfrom collections import b\n__mandatory_imports__=['import os']\n"]

PARAMS = [{}, {"align_imports": False}, {"align_imports": 32, "from_spaces": 3}, {"max_line_length": 40},
          {"separate_from_imports": False}, {"hanging_indent": "always", "max_line_length": 50}]

WITNESSES = [
    ("F12", "reformat_str", "x=1"),
    ("F12b", "reformat_str", "import os\nx=1  # c"),
    ("F1", "reformat", 'x = "日本語"; import os, sys\ny = 2\n'),
    ("semi", "reformat", "a = 1; import os; b = 2\nimport sys; c = 3  # t\n"),
    ("cont", "reformat", "import a \\\n\nx = 1\n"),
    ("nofinal", "reformat", "x = 1\nimport os"),
    ("doc", "tidy", '"""doc"""\n# c\n\nx = os.path\ny = np.zeros\n'),
    ("doc2", "tidy", '"""doc"""\n"second"\nx = 1\n'),
    ("top", "tidy", "x = os\n"),
    ("comment_only_first", "tidy", "# just a comment\n"),
    ("F38", "reformat", "import os  # \\\n\n# kept?\nx = 1\n"),
    ("F37", "reformat", "x = 1\nimport a\n    # \\\n# c\n    # \\\n\x0c"),
    ("F39", "tidy", "# just a comment"),
    ("F39b", "tidy", '"""doc"""'),
    ("deco", "tidy", '"""doc"""\n@\\\ndec\ndef f(): pass\n'),
    ("F28", "tidy", "foo = 1 + \\\n    2;from os.path import a;'x'\n"),
    ("F28b", "tidy", "x = 1; import a\nimport b\n# c\nimport os\nprint(os)\n"),
    ("F9", "tidy", 'r"""raw"""\n"""# not a comment\n"""\nx = 1\n'),
    ("F39c", "tidy", '"""doc"""; x = 1'),
    ("F39d", "tidy", '# c\n"""doc"""; import sys\nprint(sys)\n'),
    ("bytes1", "tidy", '#; import os\nb"it\'s"\n'),
    ("bytes2", "tidy", '"""doc"""\nb"x"\ny = 1\n'),
    ("bytes3", "tidy", 'b"x"\n"""doc"""\ny = 1\n'),
    ("bytes4", "tidy", "# c\nb'x' b'y'"),
    ("fstr1", "tidy", "# c\nf'{x}'\n'doc'\n"),
    ("concat1", "tidy", "'a' \"b\"\n'second'\ny = 1\n"),
    ("usebefore1", "tidy", '"""doc"""\nx = os.getcwd()\nimport os\nprint(os)\n'),
    ("usebefore2", "tidy", "x = d.attr\nimport d\n"),
    ("emptydoc1", "tidy", '""\nx = os.getcwd()\n'),
    ("emptydoc2", "tidy", "#!/usr/bin/python\n# c\n\nx = 1\n"),
    ("emptydoc3", "tidy", '""\nprint(np.zeros)\nimport sys\nprint(sys)\n'),
    ("emptydoc4", "tidy", "# c\n\n"" ""\ny = 2\n"),
    ("nested", "reformat", "if x:\n    import b, a\nimport d, c  # gone\n# kept\nimport e\n"),
]


MAX_MODEL_CHARS = 6000


# rename keys that never apply: their first component is used by no generated import and the key
# never occurs as a whole word; look-alikes with another character in place of the dot do occur
RENAME_KEYS = ["zq.w", "k9.vv", "qq.r.s", "hold.mod", "bad.ge", "w5.z"]


def lookalikes(r, key):
    """lines in which `key` never occurs as a whole word, but (a) with another character in place of a
    dot, (b) embedded in a longer word / dotted name: prefix-, suffix- and infix-embedded; in code,
    strings and comments"""
    alts = [key.replace(".", c) for c in ("_", "/", "-", "X", " ", "$", "..")]
    emb = ["x" + key, key + "x", "a_%s_b" % key, "thr" + key + "9", "q" + key, key + "_"]
    ident = key.replace(".", "_")
    lines = ["%s = 1" % ident,
             "s = '%s %s %s'" % (r.choice(alts), r.choice(emb), r.choice(emb)),
             "# %s %s %s %s" % (r.choice(alts), r.choice(emb), r.choice(emb), key.replace(".", "Z")),
             'print(%s, "%s")  # %s' % (ident, r.choice(emb), r.choice(emb)),
             "def f_%s():\n    return %s + x%s + %sx" % (ident, ident, key, key),
             "v = (a_%s_b, q%s)  # %s" % (key, key, "x" + key),
             "t = \"\"\"%s\n# %s\n\"\"\"" % (key + "x", "x" + key)]
    r.shuffle(lines)
    return lines[:r.randint(3, 6)]


def with_rename_map(r, src):
    """(src', map): src with near-match lines added (one comment at the top, the rest at the end),
    and a rename map with 2-4 entries (sometimes 1) none of whose keys occurs as a whole word in src'
    or matches an import."""
    import re
    keys = r.sample(RENAME_KEYS, r.choice([1, 2, 2, 3, 4]))
    m = {k: r.choice(["n.y", "renamed", "pp.%s" % k.replace(".", "_"), "NEW"]) for k in keys}
    body = src if src.endswith("\n") else src + "\n"
    extra = []
    for k in keys:
        extra += lookalikes(r, k)
    new = "# %s x%s\n" % (keys[0].replace(".", "_"), keys[-1]) + body + "\n".join(extra) + ("\n" if r.random() < .8 else "")
    if not G.compiles(new) or any(re.search(r"\b%s\b" % re.escape(k), new) for k in keys):
        return None, None
    return new, m


def gen_cases(ctx, n, ncorpus=0):
    cases = []
    if ncorpus != 0:
        from . import c10
        files = c10.corpus_files()
        if ncorpus is not None and ncorpus < len(files):
            files = sorted(cm.rng(ctx.seed, "c01-corpus").sample(files, ncorpus))
        for path in files:
            src = c10.read_source(path)
            if src is not None and "\r" not in src:
                cases.append({"kind": "corpus", "path": path, "tool": "reformat", "src": src, "sp": [1, 1], "params": {}, "db": 0,
                              "flags": [True, True, True]})
    for tag, tool, src in WITNESSES:
        cases.append({"kind": "witness", "tag": tag, "tool": tool, "src": src, "sp": [1, 1], "params": {}, "db": 2 if tag in ("bytes1", "bytes2", "bytes3", "fstr1", "emptydoc2", "emptydoc4") else 1 if tag == "emptydoc3" else 3 if tag.startswith("doc") or tag in ("top", "comment_only_first", "F39", "F39b", "F39c", "F39d", "F9", "deco", "bytes4", "concat1", "usebefore1", "usebefore2", "emptydoc1") else 0,
                      "flags": [True, True, True]})
    for tag, tool, src, m in [
            ("map1", "transform_map", "import os\nm_x = 1\ns = 'm/x'  # m-x mXx\nprint(m_x)\n", {"m.x": "n.y"}),
            ("map2", "canonicalize_map", "# a_b\nimport os, sys\na_b = 'a/b a-b'\n", {"a.b": "c.d", "zq.w": "renamed"}),
            ("map4", "canonicalize_map", "import os\nx = threshold.mod  # threshold.mod\ns = 'bad.baadge xbad.ba'\n", {"hold.mod": "new.mod", "bad.ba": "good.goo"}),
            ("map5", "transform_map", "import os\nx = (xzq.w, zq.wx, a_zq.w_b, k9.vvv, ak9.vv)  # xzq.w zq.wx ak9.vv\n", {"zq.w": "n.y", "k9.vv": "m", "qq.r.s": "t"}),
            ("map3", "transform_map", "x = 1\nzq_w = 2  # zq$w zq..w\n", {"zq.w": "n.y"})]:
        cases.append({"kind": "witness", "tag": tag, "tool": tool, "src": src, "sp": [1, 1], "params": {}, "db": 0,
                      "flags": [True, True, True], "map": m})
    cases.append({"kind": "witness", "tag": "multi1", "tool": "cli_multi", "src": "x = 1", "srcs": ["x = 1", "", "import b, a\ny = 2", "z = 3\n"],
                  "use_dir": False, "script": "reformat-imports", "sp": [1, 1], "params": {}, "db": 0, "flags": [True, True, True]})
    cases.append({"kind": "witness", "tag": "multi2", "tool": "cli_multi", "src": "import os", "srcs": ["import os", "y = 2"],
                  "use_dir": True, "script": "tidy-imports", "sp": [1, 1], "params": {}, "db": 0, "flags": [True, True, True]})
    cases.append({"kind": "witness", "tag": "streams_emptydoc", "tool": "cli_streams", "level": "INFO",
                  "src": '""\nprint(os.sep, np)\n', "sp": [1, 1], "params": {}, "db": 0, "flags": [True, True, True]})
    cases.append({"kind": "witness", "tag": "streams1", "tool": "cli_streams", "level": "INFO",
                  "src": "import os, sys\nprint(sys, np)\n", "sp": [1, 1], "params": {}, "db": 0, "flags": [True, True, True]})
    cases.append({"kind": "witness", "tag": "streams2", "tool": "cli_streams", "level": "DEBUG",
                  "src": "import json\nx = undefined_q\n", "sp": [1, 1], "params": {}, "db": 0, "flags": [True, True, True]})
    cases.append({"kind": "witness", "tag": "pyproj1", "tool": "cli_pyproject",
                  "src": "import sys, oldmod.x\nimport json\nv = os.sep  # oldmod.x\ns = 'oldmod.x'\nprint(oldmod.x, sys)\n",
                  "cli_flags": {"add_missing": False, "remove_unused": False, "add_mandatory": False, "canonicalize": False},
                  "pyproject": {"add_missing": True, "remove_unused": True, "add_mandatory": True, "canonicalize": True},
                  "sp": [1, 1], "params": {}, "db": 0, "flags": [True, True, True]})
    i = 0
    ntotal = len(cases) + n
    while len(cases) < ntotal:
        r = cm.rng(ctx.seed, "c01", i)
        i += 1
        src = G.gen_compilable(r, import_bias=.18, final_newline_p=.85)
        k = r.random()
        tool = ("reformat" if k < .2 else "reformat_ft" if k < .25 else "tidy" if k < .62 else "reformat_str" if k < .7 else "star" if k < .77
                else "broken" if k < .84 else "transform" if k < .91 else "canonicalize" if k < .95 else "cli_reformat" if k < .975 else "cli_tidy")
        rmap = None
        if tool == "tidy" and r.random() < .08:
            # a name used BEFORE the top-level statement that imports it, no import block ahead of the first use
            nm, imp_ = r.choice([("os", "import os"), ("np", "import numpy as np"), ("foo", "from pkg import foo"), ("x", "import x")])
            pro = r.choice(["", '"""doc"""\n', "# c\n\n", '#!/usr/bin/python\n"""doc"""\n# c\n', '""\n', "#!/usr/bin/python\n# c\n''''''\n"])
            src = pro + "%s = %s.attr\n" % (r.choice(["v", "w"]), nm) + r.choice(["", "y = 2\n", "# mid\n"]) + imp_ + "\n" + \
                r.choice(["", "print(%s)\n" % nm, "z = bar\n"])
            cases.append({"kind": "gen", "i": i, "tool": "tidy", "src": src, "sp": [1, 1], "params": r.choice(PARAMS), "db": 1,
                          "flags": [True, r.random() < .5, r.random() < .3]})
            continue
        if r.random() < .03:
            srcs = [r.choice(["", "x = 1", "import os\nprint(os)", G.gen_compilable(r, max_elems=3, final_newline_p=.5)]) for _ in range(r.randint(2, 4))]
            cases.append({"kind": "gen", "i": i, "tool": "cli_multi", "src": srcs[0], "srcs": srcs, "use_dir": r.random() < .35,
                          "script": r.choice(["reformat-imports", "tidy-imports"]), "sp": [1, 1], "params": {}, "db": 0, "flags": [True, True, True]})
            continue
        if r.random() < .02:
            body = G.gen_compilable(r, max_elems=3, import_bias=.2)
            head = "import json, sys\n"
            if r.random() < .4:
                head, body = r.choice(['""\n', "# c\n\n", '#!/usr/bin/python\n""\n']), "sys = 1\n"
            cases.append({"kind": "gen", "i": i, "tool": "cli_streams", "level": r.choice(["INFO", "INFO", "DEBUG", "WARNING"]),
                          "src": head + body + ("" if body.endswith("\n") else "\n") + "print(sys, os.sep, np, undefined_name_q)\n",
                          "sp": [1, 1], "params": {}, "db": 0, "flags": [True, True, True]})
            continue
        if r.random() < .025:
            flags = {k: r.random() < .5 for k in ("add_missing", "remove_unused", "add_mandatory", "canonicalize")}
            body = "import sys, oldmod.x\n%s\nv = os.sep  # oldmod.x\ns = 'oldmod.x'\nprint(oldmod.x, sys)\n" % r.choice(["import json", "from m import unused1", "# nothing"])
            cases.append({"kind": "gen", "i": i, "tool": "cli_pyproject", "src": body, "cli_flags": flags,
                          "pyproject": {k: (not v) if r.random() < .8 else v for k, v in flags.items()},
                          "sp": [1, 1], "params": {}, "db": 0, "flags": [True, True, True]})
            continue
        if r.random() < .12:
            src2, rmap = with_rename_map(r, src)
            if rmap is not None:
                src, tool = src2, r.choice(["transform_map", "canonicalize_map"])
        sp = [1, 1]
        if tool in ("reformat", "transform") and r.random() < .15:
            sp = [r.randint(2, 30), r.choice([1, 1, 4])]
        cases.append({"kind": "gen", "i": i, "tool": tool, "src": src, "sp": sp, "params": r.choice(PARAMS),
                      "db": r.randrange(len(DBS)), "flags": [r.random() < .5, r.random() < .5, r.random() < .5]})
        if tool in ("transform_map", "canonicalize_map"):
            cases[-1]["map"] = rmap
    return cases


# ---------------------------------------------------------------------------------------------
# implementation side

def impl_case(c):
    import contextlib
    import logging
    import pyflyby._imports2s as S
    from pyflyby._parse import PythonBlock
    from pyflyby._importdb import ImportDB
    F = S.SourceToSourceFileImportsTransformation
    IB = S.SourceToSourceImportBlockTransformation
    o_pre, o_ins, o_pp, o_ibpp = F.preprocess, F.insert_new_import_block, F.pretty_print, IB.pretty_print
    passes = []
    rendered = {}

    def info(b):
        t = b.input.text
        return {"imports": isinstance(b, IB), "text": t.joined, "sp": [t.startpos.lineno, t.startpos.colno],
                "ep": [t.endpos.lineno, t.endpos.colno]}

    def pre(self):
        o_pre(self)
        t = self.input.text
        self._verif_rec = {"input": t.joined, "sp": [t.startpos.lineno, t.startpos.colno],
                           "blocks": [info(b) for b in self.blocks], "inserts": 0,
                           "sets": [[[i.fullname, i.import_as] for i in b.importset.imports]
                                    for b in self.blocks if isinstance(b, IB)]}
        passes.append(self._verif_rec)

    def ins(self):
        self._verif_rec["inserts"] += 1
        return o_ins(self)

    def ibpp(self, params=None):
        r = o_ibpp(self, params=params)
        rendered[id(self)] = str(r)
        return r

    def pp(self, params=None):
        res = o_pp(self, params=params)
        rec = self._verif_rec
        rec["final"] = [info(b) for b in self.blocks]
        rec["renders"] = [rendered[id(b)] for b in self.blocks if isinstance(b, IB)]
        rec["out"] = res if isinstance(res, str) else res.joined
        rec["sets_final"] = [[[i.fullname, i.import_as] for i in b.importset.imports]
                             for b in self.blocks if isinstance(b, IB)]
        try:
            from pyflyby._importstmt import ImportFormatParams
            P = ImportFormatParams(params)
            al = P.align_imports
            rec["P"] = {"width": P.max_line_length, "indent": P.indent, "hanging": P.hanging_indent,
                        "align": ({"bool": al} if isinstance(al, bool) else {"col": al} if isinstance(al, int)
                                  else {"cols": sorted(al)} if isinstance(al, (tuple, list, set)) else {"other": repr(al)}),
                        "from_spaces": P.from_spaces, "separate": P.separate_from_imports,
                        "align_future": P.align_future, "black": bool(getattr(P, "use_black", False))}
        except Exception as e:
            rec["P"] = {"error": type(e).__name__}
        return res

    out = {}
    logging.disable(logging.CRITICAL)
    try:
        with contextlib.redirect_stdout(io.StringIO()), contextlib.redirect_stderr(io.StringIO()), warnings.catch_warnings():
            warnings.simplefilter("ignore")
            F.preprocess, F.insert_new_import_block, F.pretty_print, IB.pretty_print = pre, ins, pp, ibpp
            try:
                from pyflyby._importstmt import ImportFormatParams
                src, tool = c["src"], c["tool"]
                params = ImportFormatParams(**c["params"]) if c["params"] else None
                if tool == "reformat_str":
                    res = S.reformat_import_statements(src, params=params)
                elif tool == "reformat_ft":
                    from pyflyby._file import FileText
                    res = S.reformat_import_statements(FileText(src), params=params)
                elif tool in ("cli_reformat", "cli_tidy"):
                    res = None
                    out["out"] = run_cli(tool, src)
                elif tool == "cli_multi":
                    res = None
                    out.update(run_cli_multi(c))
                elif tool == "cli_pyproject":
                    res = None
                    out.update(run_cli_pyproject(c))
                elif tool == "cli_streams":
                    res = None
                    out.update(run_cli_streams(c))
                else:
                    block = PythonBlock(src, startpos=tuple(c["sp"]))
                    if tool == "reformat":
                        res = S.reformat_import_statements(block, params=params)
                    elif tool == "tidy":
                        am, ru, ad = c["flags"]
                        res = S.fix_unused_and_missing_imports(block, add_missing=am, remove_unused=ru, add_mandatory=ad,
                                                               db=ImportDB(DBS[c["db"]]), params=params)
                    elif tool == "star":
                        res = S.replace_star_imports(block, params=params)
                    elif tool == "broken":
                        res = S.remove_broken_imports(block, params=params)
                    elif tool == "transform":
                        res = S.transform_imports(block, {}, params=params)
                    elif tool == "transform_map":
                        res = S.transform_imports(block, dict(c["map"]), params=params)
                    elif tool == "canonicalize_map":
                        res = S.canonicalize_imports(block, params=params,
                                                     db=ImportDB("import os\n__canonical_imports__ = %r\n" % (dict(c["map"]),)))
                    elif tool == "canonicalize":
                        res = S.canonicalize_imports(block, params=params, db=ImportDB(DBS[c["db"]]))
                    else:
                        raise ValueError(tool)
                if res is not None:
                    out["out"] = res.text.joined
                    if tool in ("reformat", "reformat_ft", "reformat_str"):
                        n0 = len(passes)
                        try:
                            again = S.reformat_import_statements(PythonBlock(out["out"]), params=params)
                            out["again"] = {"out": again.text.joined}
                        except BaseException as e:
                            out["again"] = {"exc": type(e).__name__}
                        del passes[n0:]
            except BaseException as e:
                out["exc"] = type(e).__name__
                out["msg"] = str(e)[:200]
            finally:
                F.preprocess, F.insert_new_import_block, F.pretty_print, IB.pretty_print = o_pre, o_ins, o_pp, o_ibpp
    finally:
        logging.disable(logging.NOTSET)
    out["passes"] = passes
    return out


def run_cli(tool, src):
    """bin/reformat-imports --print / bin/tidy-imports --print on a scratch file (default action set
    replaced by --print; PYFLYBY_PATH=EMPTY from the harness environment: empty database)"""
    import os
    import shutil
    import subprocess
    import sys
    import tempfile
    d = tempfile.mkdtemp(prefix="verif-c01-")
    try:
        path = os.path.join(d, "m.py")
        with open(path, "w", encoding="utf-8", newline="") as f:
            f.write(src)
        script = os.path.join(os.environ["VERIF_REPO"], "bin", "reformat-imports" if tool == "cli_reformat" else "tidy-imports")
        p = subprocess.run([sys.executable, script, "--print", path], stdout=subprocess.PIPE, stderr=subprocess.PIPE,
                           timeout=50, env=dict(os.environ), cwd=d)
        if p.returncode != 0:
            err = p.stderr.decode("utf-8", "replace")
            if "SyntaxError" in err or "IndentationError" in err:
                # the tool re-parsed its own output (F28 / F39 class: C03's compiles clause)
                raise type("OutputUnparsable", (Exception,), {})(err[-200:])
            for name in sorted(C03_EXCEPTIONS):
                if ("." + name) in err or (name + ":") in err:
                    raise type(name, (Exception,), {})(err[-200:])
            raise RuntimeError("CLI exit status %d: %s" % (p.returncode, p.stderr.decode("utf-8", "replace")[-300:]))
        with open(path, encoding="utf-8", newline="") as f:
            if f.read() != src:
                raise RuntimeError("--print modified the file")
        return p.stdout.decode("utf-8")
    finally:
        shutil.rmtree(d, ignore_errors=True)


def _cli(script, args, cwd, extra_env=None):
    import os
    import subprocess
    import sys
    env = dict(os.environ)
    env.update(extra_env or {})
    p = subprocess.run([sys.executable, os.path.join(os.environ["VERIF_REPO"], "bin", script)] + args,
                       stdout=subprocess.PIPE, stderr=subprocess.PIPE, timeout=50, env=env, cwd=cwd)
    if p.returncode != 0:
        err = p.stderr.decode("utf-8", "replace")
        if "SyntaxError" in err or "IndentationError" in err:
            raise type("OutputUnparsable", (Exception,), {})(err[-200:])
        for name in sorted(C03_EXCEPTIONS):
            if ("." + name) in err or (name + ":") in err:
                raise type(name, (Exception,), {})(err[-200:])
        raise RuntimeError("CLI exit status %d: %s" % (p.returncode, err[-300:]))
    return p.stdout.decode("utf-8")


def run_cli_multi(c):
    """several files (or their directory) in ONE --print invocation vs one invocation per file"""
    import os
    import shutil
    import tempfile
    d = tempfile.mkdtemp(prefix="verif-c01-")
    try:
        sub = os.path.join(d, "pk")
        os.mkdir(sub)
        paths = []
        for k, src in enumerate(c["srcs"]):
            path = os.path.join(sub, "m%d.py" % k)
            with open(path, "w", encoding="utf-8", newline="") as f:
                f.write(src)
            paths.append(path)
        singles = [_cli(c["script"], ["--print", pth], d) for pth in paths]
        multi = _cli(c["script"], ["--print"] + ([sub] if c["use_dir"] else paths), d)
        return {"out": singles[0], "singles": singles, "multi": multi}
    finally:
        shutil.rmtree(d, ignore_errors=True)


def run_cli_streams(c):
    """tidy-imports --print with messages being logged (INFO level: removed unused / added / warnings),
    under different set-ups of the standard streams; stdout must always be exactly the rewritten program"""
    import os
    import shutil
    import subprocess
    import sys
    import tempfile
    d = tempfile.mkdtemp(prefix="verif-c01-")
    try:
        db = os.path.join(d, "db.py")
        with open(db, "w") as f:
            f.write("import os\nimport numpy as np\nfrom pkg import foo, bar\n")
        path = os.path.join(d, "m.py")
        with open(path, "w", encoding="utf-8", newline="") as f:
            f.write(c["src"])
        script = os.path.join(os.environ["VERIF_REPO"], "bin", "tidy-imports")
        env = dict(os.environ, PYFLYBY_PATH=db, PYFLYBY_LOG_LEVEL=c.get("level", "INFO"))
        outs, errs = {}, {}
        for variant in ["baseline", "stderr_closed", "stderr_devfull", "stdin_closed", "stdout_file", "all_closed_but_stdout"]:
            kw = {"stdin": subprocess.DEVNULL, "stdout": subprocess.PIPE, "stderr": subprocess.PIPE}
            pre = None
            fh = None
            if variant == "stderr_closed":
                kw["stderr"] = None
                pre = lambda: os.close(2)
            elif variant == "stderr_devfull":
                fh = open("/dev/full", "w")
                kw["stderr"] = fh
            elif variant == "stdin_closed":
                kw["stdin"] = None
                pre = lambda: os.close(0)
            elif variant == "stdout_file":
                fh = open(os.path.join(d, "out.txt"), "wb")
                kw["stdout"] = fh
            elif variant == "all_closed_but_stdout":
                kw["stdin"] = None
                kw["stderr"] = None
                pre = lambda: (os.close(0), os.close(2))
            p = subprocess.run([sys.executable, script, "--print", path], timeout=50, env=env, cwd=d, preexec_fn=pre, **kw)
            if fh is not None:
                fh.close()
            if variant == "stdout_file":
                with open(os.path.join(d, "out.txt"), "rb") as f:
                    outs[variant] = f.read().decode("utf-8", "replace")
            else:
                outs[variant] = p.stdout.decode("utf-8", "replace")
            errs[variant] = [p.returncode, (p.stderr or b"").decode("utf-8", "replace")[-300:] if kw["stderr"] == subprocess.PIPE else ""]
        return {"out": outs["baseline"], "variants": outs, "status": errs}
    finally:
        shutil.rmtree(d, ignore_errors=True)


def run_cli_pyproject(c):
    """tidy-imports with every relevant flag given explicitly, (A) in a directory whose pyproject.toml
    [tool.pyflyby] says otherwise, (B) in a directory without pyproject.toml: the command line wins"""
    import os
    import shutil
    import tempfile
    d = tempfile.mkdtemp(prefix="verif-c01-")
    try:
        outs = {}
        db = os.path.join(d, "db.py")
        with open(db, "w") as f:
            f.write("import os\nimport json\n__canonical_imports__ = {'oldmod.x': 'newmod.y'}\n__mandatory_imports__ = ['import mandatory1']\n")
        args = ["--print"] + ["--%s%s" % ("" if v else "no-", k.replace("_", "-")) for k, v in sorted(c["cli_flags"].items())]
        for tag in ("A", "B"):
            wd = os.path.join(d, tag)
            os.mkdir(wd)
            if tag == "A":
                with open(os.path.join(wd, "pyproject.toml"), "w") as f:
                    f.write("[tool.pyflyby]\n" + "".join("%s = %s\n" % (k, "true" if v else "false") for k, v in sorted(c["pyproject"].items())))
            path = os.path.join(wd, "m.py")
            with open(path, "w", encoding="utf-8", newline="") as f:
                f.write(c["src"])
            outs[tag] = _cli("tidy-imports", args + [path], wd, {"PYFLYBY_PATH": db})
        return {"out": outs["A"], "with_pyproject": outs["A"], "without_pyproject": outs["B"]}
    finally:
        shutil.rmtree(d, ignore_errors=True)


# ---------------------------------------------------------------------------------------------
# model side

KCODE = {"Import": 0, "StrExpr": 1, "Other": 2, "BytesExpr": 3}


def pass_expr(p):
    try:
        tree, nodes = G.nodes_of(p["input"], tuple(p["sp"]))
    except (SyntaxError, ValueError):
        return None
    ns = cm.clist(["(%s, %s, %s, %s)" % (cm.cnat(n["start"][0]), cm.cnat(n["start"][1]), cm.cnat(n["last"]), cm.cnat(KCODE[n["kind"]]))
                   for n in nodes])
    return "run_tool %s %s %s %s %s %s" % (cm.cstr(p["input"]), cm.cnat(p["sp"][0]), cm.cnat(p["sp"][1]), ns,
                                           cm.cnat(p["inserts"]), cm.clist([cm.cstr(x) for x in p.get("renders", [])]))


def ast_imports(node):
    """the (fullname, import_as) pairs of a top-level import statement, from stdlib ast alone"""
    out = []
    if isinstance(node, ast.Import):
        for a in node.names:
            out.append([a.name, a.asname or a.name])
    elif isinstance(node, ast.ImportFrom):
        mod = "." * node.level + (node.module or "")
        for a in node.names:
            full = mod + ("" if mod.endswith(".") else ".") + a.name
            out.append([full, a.asname or a.name])
    return out


def closed_ok(p):
    """can this pass be predicted from text + nodes + params alone?  (a pure reformat pass: no
    inserted block, import sets untouched; formatter model covers everything but black mode)"""
    P = p.get("P") or {}
    if "error" in P or P.get("black") or "other" in P.get("align", {}) or p["inserts"]:
        return False
    if p.get("sets") != p.get("sets_final"):
        return False
    if P["indent"] >= 4000 or P["from_spaces"] >= 4000 or (P["width"] or 0) >= 4000:
        return False
    return True


def cnodes_expr(text, sp):
    """CPython's node list for `text`, with the imports of each import statement, as a Gallina list"""
    tree, nodes = G.nodes_of(text, tuple(sp))
    items = []
    for n, node in zip(nodes, tree.body):
        imps = ast_imports(node) if n["kind"] == "Import" else []
        items.append("(%s, %s, %s, %s, %s)" % (cm.cnat(n["start"][0]), cm.cnat(n["start"][1]), cm.cnat(n["last"]), cm.cnat(KCODE[n["kind"]]),
                                               cm.clist([cm.cpair(cm.cstr(f), cm.cstr(a)) for f, a in imps])))
    return cm.clist(items)


def closed_expr(p):
    from . import c11
    try:
        return "run_reformat_closed %s %s %s %s %s" % (cm.cstr(p["input"]), cm.cnat(p["sp"][0]), cm.cnat(p["sp"][1]),
                                                       cnodes_expr(p["input"], p["sp"]), c11.c_params(p["P"]))
    except (SyntaxError, ValueError, AssertionError):
        return None


def idem_expr(p):
    """first pass + second pass over the implementation's real output of this pass (node list of the
    output from CPython): evaluates sets_okb, oracle_compositionalb and both outputs"""
    from . import c11
    try:
        return "run_idem_closed %s %s %s %s %s %s" % (cm.cstr(p["input"]), cm.cnat(p["sp"][0]), cm.cnat(p["sp"][1]),
                                                      cnodes_expr(p["input"], p["sp"]), cnodes_expr(p["out"], [1, 1]),
                                                      c11.c_params(p["P"]))
    except (SyntaxError, ValueError, AssertionError):
        return None


# ---------------------------------------------------------------------------------------------
# oracle: independent frame check

def char_offsets(text):
    """offset of the start of each (1-based) line"""
    offs, o = [0], 0
    for l in text.split("\n"):
        o += len(l) + 1
        offs.append(o)
    return offs


def import_extents(text):
    """[(start, end)] character ranges of the top-level import statements of `text`, each extended
    over what belongs to the statement only: blanks, backslash-newlines, one `;`, a same-line
    comment and the line end."""
    tree = ast.parse(text)
    lines = text.split("\n")
    offs = char_offsets(text)
    out = []
    n = len(text)
    for node in tree.body:
        if not isinstance(node, (ast.Import, ast.ImportFrom)):
            continue
        a = offs[node.lineno - 1] + G.char_col(lines[node.lineno - 1], node.col_offset)
        b = offs[node.end_lineno - 1] + G.char_col(lines[node.end_lineno - 1], node.end_col_offset)

        def skip_blank(b):
            while b < n:
                if text[b] in " \t\x0c":
                    b += 1
                elif text.startswith("\\\n", b):
                    b += 2
                else:
                    break
            return b
        b = skip_blank(b)
        if b < n and text[b] == ";":
            b = skip_blank(b + 1)
        if b < n and text[b] == "#":
            while b < n and text[b] != "\n":
                b += 1
        if b < n and text[b] == "\n":
            b += 1
        out.append((a, b))
    return tree, out


def remainder(text, extents):
    res, o = [], 0
    for a, b in extents:
        res.append(text[o:a])
        o = b
    res.append(text[o:])
    return "".join(res)


def prologue_end(text, extents):
    """offset, in remainder coordinates, of the end of the prologue: leading comments, blank lines
    and at most one str literal statement (the docstring; a bytes literal or an f-string is not
    one) - i.e. the start of the first top-level statement that is not the first leading str
    literal statement; the end of the text if
    there is none.  Statement starts come from the independent node oracle ("@" of a decorated
    definition)."""
    offs = char_offsets(text)
    _, nodes = G.nodes_of(text)
    pos = len(text)
    seen_str = False
    for n in nodes:
        if n["kind"] == "StrExpr" and not seen_str:
            seen_str = True
            continue
        pos = offs[n["start"][0] - 1] + n["start"][1] - 1
        break
    return pos - sum(min(b, pos) - min(a, pos) for a, b in extents)


def match_with_options(rin, rout, opts, forbidden):
    """Is rout = rin with, at each position p of `opts` (sorted [(p, [alternative insertions], guarded)]),
    one of the alternatives inserted?  A guarded non-empty insertion may not sit where an import
    statement was deleted from the output (offsets `forbidden`, in rout coordinates)."""
    def go(k, i, j):
        if k == len(opts):
            return rin[i:] == rout[j:]
        p, alts, guarded = opts[k]
        seg = rin[i:p]
        if rout[j:j + len(seg)] != seg:
            return False
        j2 = j + len(seg)
        for alt, tlen in alts:
            if rout.startswith(alt, j2):
                # a line break in place of an import: only where the output has NO import statement
                if alt and guarded == "emptied" and (j2 in forbidden or j2 + len(alt) in forbidden):
                    continue
                # blank line(s) after the prologue: only together with a new import block, i.e. an import
                # statement of the output was deleted exactly there (after the optional line terminator)
                if alt and guarded == "prologue" and (j2 + tlen) not in forbidden:
                    continue
                if go(k + 1, p, j2 + len(alt)):
                    return True
        return False
    return go(0, 0, 0)


def frame_oracle(src, out, inserts=None):
    """None if the frame holds, else (kind, description).  `inserts` = number of new import blocks the
    tool created (observed by the wrapper; None = unknown, e.g. for the CLI: one or two).
    Permitted differences between input and output, besides the top-level import statements
    themselves: (1) right after the prologue, the blank line that follows a new import block (one per
    new block, at most two), preceded by a line terminator if the prologue's last line had none;
    (2) a single line break in place of an import statement that shared its line with preceding code
    and was rewritten to nothing (F28)."""
    try:
        tin, ein = import_extents(src)
    except (SyntaxError, ValueError) as e:
        return ("skip", "input does not parse: %s" % e)
    try:
        tout, eout = import_extents(out)
    except (SyntaxError, ValueError) as e:
        return ("unparsable", "output does not parse: %s" % str(e)[:80])
    rin, rout = remainder(src, ein), remainder(out, eout)
    if rin == rout:
        return None
    # offsets in rout where import statements were deleted from the output
    forbidden, gone = set(), 0
    for a, b in eout:
        forbidden.add(a - gone)
        gone += b - a
    opts = {}
    gone = 0
    for a, b in ein:
        ls = src.rfind("\n", 0, a) + 1
        if src[ls:a].strip():                       # the statement shares its line with preceding code
            opts.setdefault(a - gone, []).append(([("\n", 0), ("", 0)], "emptied"))
        gone += b - a
    if eout:
        k = prologue_end(src, ein)
        pro = rin[:k]
        terms = ["\n", ""] if (pro and not pro.endswith("\n")) else [""]
        ms = (2, 1) if inserts is None else ((inserts,) if inserts else ())
        alts = [(t + "\n" * m, len(t)) for t in terms for m in ms] + [("", 0)]
        opts.setdefault(k, []).insert(0, (alts, "prologue"))
    flat = [(p, alts, g) for p in sorted(opts) for alts, g in opts[p]]
    if match_with_options(rin, rout, flat, forbidden):
        return None
    d = next((i for i, (x, y) in enumerate(zip(rin, rout)) if x != y), min(len(rin), len(rout)))
    return ("frame", "text outside the top-level import statements differs at remainder offset %d: input %r / output %r"
            % (d, rin[max(0, d - 15):d + 25], rout[max(0, d - 15):d + 25]))


def f38_import_comment_ends_with_backslash(c, src, out):
    """classifier of known finding F38: a top-level import statement whose same-line comment ends
    with a backslash, followed by blank/comment lines: _split_code_lines takes the backslash for
    a line continuation, keeps those lines in the import statement's piece, and they vanish."""
    try:
        tree = ast.parse(src)
    except (SyntaxError, ValueError):
        return False
    lines = src.split("\n")
    for node in tree.body:
        if isinstance(node, (ast.Import, ast.ImportFrom)):
            line = lines[node.end_lineno - 1]
            tail = line[G.char_col(line, node.end_col_offset):]
            if "#" in tail and tail.endswith("\\") and node.end_lineno < len(lines):
                nxt = lines[node.end_lineno].strip()
                if nxt == "" or nxt.startswith("#"):
                    return True
    return False


def frame_violation(ctx, c, name, src, out, detail):
    """report a frame failure of a CLI stream: the same known-finding classifier as the API path (F38 depends
    on the input text only), anything else is a violation"""
    if f38_import_comment_ends_with_backslash(c, src, out):
        ctx.known_hit("F38", "blank/comment lines after an import statement whose same-line comment ends with a backslash are dropped with the import, e.g. %r" % detail[-110:])
        ctx.bump("F38")
    else:
        ctx.violation(name, short(c), detail)


def f39_insert_after_unterminated_prologue(c, src, out):
    """classifier of known finding F39 (C03 no_gluing): the module is nothing but prologue
    (comments, blanks, string literal statements) and does not end with a newline; the new import
    block is appended right after it, i.e. onto the last line."""
    if src.endswith("\n") or not out.startswith(src) or out == src:
        return False
    try:
        tree = ast.parse(src)
    except (SyntaxError, ValueError):
        return False
    return all(G.node_kind(n) == "StrExpr" for n in tree.body)


def f12_str_input_gains_newline(c, src, out):
    """classifier of known finding F12: a str argument without final newline gets one"""
    if c["tool"] != "reformat_str" or src.endswith("\n"):
        return False
    return frame_oracle(src + "\n", out) is None


# ---------------------------------------------------------------------------------------------

def short(c):
    if c.get("kind") == "corpus":
        return {k: v for k, v in c.items() if k != "src"}
    return c


def run(ctx):
    cm.check_anchors(ctx, ANCHORS)
    scale = getattr(ctx, "scale", 1)
    n = (700 if ctx.quick else 12000) * scale
    ncorpus = 60 * scale if ctx.quick else None
    ctx.coverage["rule"] = ("generated statement soups with 0-4 import runs and docstring/comment prologues x tool in {reformat (PythonBlock / str), "
                            "tidy with random flags and one of 4 small DBs, replace_star, remove_broken, transform({}), canonicalize, transform / canonicalize with a "
                            "non-empty rename map whose dotted keys apply to no import and occur nowhere as a whole word while look-alikes with another "
                            "character in place of the dot occur in identifiers, strings and comments} x 6 formatting "
                            "parameter sets; every SourceToSourceFileImportsTransformation created by the tool is one model evaluation (open mode); "
                            "non-trivial = the module has a top-level import statement or a block was inserted; distinct by hash of the case")
    ctx.assumptions += [
        "open mode: the rendering of each import block (R), the number of insert_new_import_block calls and the import-set edits are captured from the implementation run; the structural model (split, group, insert, print) is evaluated on them",
        "C03 closed fixed point (C01_C03_reformat_idempotent_closed / Properties/C03closed.v): on every closed pass the model re-runs the closed reformat on the pass's real output with CPython's node list for that output; sets_okb (C11's domain, decided in the kernel) and oracle_compositionalb are evaluated, a false oracle_compositionalb inside the domain is a disagreement; for the reformat tools the implementation's own second pass is compared with the model's",
        "closed mode (every pure reformat pass: reformat_*, transform, canonicalize, and the first pass of tidy): the import sets are built by the C11 model (from_imports true) from the imports the harness reads off stdlib ast, the blocks are rendered by the C11 formatter model (print_set_r) with the pass's ImportFormatParams, and the complete output text is predicted from input text + CPython's node list + parameters; counts in passes_closed / passes_open_only",
        "CPython's top-level node list (character columns, kinds Import/StrExpr/Other, last lines) is computed by the harness from ast + tokenize",
        "block selection (find_import_block_by_lineno, select_import_block_by_closest_prefix_match) and the import-set algebra belong to C03/C04 (S2S/Tidy.v); a tool that raises is counted, not compared",
    ]
    cases = cm.load_corpus("C01") + gen_cases(ctx, n, ncorpus)
    # observables must not depend on the log level (20% DEBUG, 10% WARNING at import, the rest ERROR)
    impl = [None] * len(cases)
    groups = {"ERROR": [], "DEBUG": [], "WARNING": []}
    for i in range(len(cases)):
        k = cm.derive_seed(ctx.seed, "c01-loglevel", i) % 20
        groups["DEBUG" if k < 4 else "WARNING" if k < 6 else "ERROR"].append(i)
    for level, idxs in groups.items():
        res = cm.run_impl("c01", "impl_case", [cases[i] for i in idxs], timeout_case=120, env_extra={"PYFLYBY_LOG_LEVEL": level})
        for i, rr in zip(idxs, res):
            impl[i] = rr
            ctx.bump("loglevel:" + level)
    exprs, where = [], []
    for ci, (c, im) in enumerate(zip(cases, impl)):
        if "__exc__" in im or "__timeout__" in im:
            continue
        for pi, p in enumerate(im["passes"]):
            if "out" not in p or len(p["input"]) > MAX_MODEL_CHARS:
                continue
            e = pass_expr(p)
            if e is not None:
                exprs.append(e)
                where.append((ci, pi))
        if c["tool"] == "reformat_str":
            exprs.append("run_from_source_str %s" % cm.cstr(c["src"]))
            where.append((ci, "str"))
    model = cm.coq_eval_json(REQ, exprs, shard=40)
    mv = dict(zip(where, model))
    # closed mode: pure reformat passes are predicted from text + node list + parameters alone
    cexprs, cwhere = [], []
    for ci, (c, im) in enumerate(zip(cases, impl)):
        if "__exc__" in im or "__timeout__" in im:
            continue
        for pi, p in enumerate(im["passes"]):
            if "out" in p and len(p["input"]) <= MAX_MODEL_CHARS and closed_ok(p):
                e = closed_expr(p)
                if e is not None:
                    cexprs.append(e)
                    cwhere.append((ci, ("closed", pi)))
                    e2 = idem_expr(p) if len(p["out"]) <= MAX_MODEL_CHARS else None
                    if e2 is not None:
                        cexprs.append(e2)
                        cwhere.append((ci, ("idem", pi)))
    cmodel = cm.coq_eval_json(REQ_CLOSED, cexprs, shard=40)
    for (ci, key), m in zip(cwhere, cmodel):
        mv[(ci, key)] = m
    for ci, (c, im) in enumerate(zip(cases, impl)):
        compare_one(ctx, c, im, {k[1]: v for k, v in mv.items() if k[0] == ci})
    ctx.notes["model_evaluations_in_kernel"] = len(exprs) + len(cexprs)
    d = ctx.coverage.get("distribution", {})
    ctx.notes["passes_closed"] = d.get("pass_closed", 0)
    ctx.notes["idempotence_hypotheses_evaluated_true"] = d.get("idem_hypotheses_hold", 0)
    ctx.notes["idempotence_outside_C11_domain"] = d.get("idem_outside_C11_domain", 0)
    ctx.notes["passes_open_only"] = d.get("passes", 0) - d.get("pass_closed", 0)


def compare_one(ctx, c, im, mvs):
    ctx.bump("tool:" + c["tool"])
    if "__exc__" in im or "__timeout__" in im:
        ctx.violation("harness", short(c), im)
        return
    src = c["src"]
    nontriv = False
    ctx.bump("kind:" + c["kind"])
    if "exc" in im:
        ctx.bump("tool_raised:" + im["exc"])
        ctx.count(short(c), False)
        # block selection / import-set algebra errors (C03) can only come from the editing tools; a
        # pure reformat pass builds its sets with ignore_shadowed=True and never conflicts
        if im["exc"] not in C03_EXCEPTIONS or c["tool"] not in ("tidy", "cli_tidy", "star", "broken"):
            # the structural functions modelled here raise nothing on a compilable module
            # (C10_statements_total; preprocess / insert / print are total)
            ctx.violation("no_internal_error", short(c), "%s: %s" % (im["exc"], im.get("msg", "")[:160]))
        return
    # ---- correspondence, pass by pass
    expected_input = src
    if c["tool"] == "reformat_str":
        expected_input = mvs.get("str")
    for pi, p in enumerate(im["passes"]):
        if p["input"] != expected_input:
            ctx.disagreement("input text of pass %d" % pi, short(c), p["input"][-80:], (expected_input or "")[-80:])
        m = mvs.get(pi)
        if m is None and len(p["input"]) > MAX_MODEL_CHARS:
            expected_input = p.get("out")
            ctx.bump("pass_oracle_only")
            continue
        if m is None:
            ctx.disagreement("model returned no result for pass %d" % pi, short(c), {"input": p["input"][:200]}, None)
            break
        if m["blocks"] != p["blocks"]:
            ctx.disagreement("block decomposition (preprocess)", short(c), p["blocks"], m["blocks"])
        elif m.get("final") != p["final"]:
            ctx.disagreement("block list at print time (insert_new_import_block)", short(c), p["final"], m.get("final"))
        elif m["out"] != p["out"]:
            ctx.disagreement("output text (pretty_print)", short(c), p["out"], m["out"])
        mc = mvs.get(("closed", pi))
        if mc is not None:
            if mc is None or mc.get("out") is None:
                ctx.bump("pass_closed_model_error")
            else:
                ctx.bump("pass_closed")
                if mc["sets"] != p["sets"]:
                    ctx.disagreement("closed mode: import sets of the blocks (ImportSet(block, ignore_shadowed=True))", short(c), p["sets"], mc["sets"])
                elif mc["out"] != p["out"]:
                    ctx.disagreement("closed mode: output text predicted from text + nodes + params", short(c), p["out"], mc["out"])
        mi = mvs.get(("idem", pi))
        if mi is not None and mi.get("out1") == p["out"]:
            # hypotheses and conclusion of C03_reformat_idempotent_closed on this pass
            if not mi["sets_ok"]:
                ctx.bump("idem_outside_C11_domain")          # non-ASCII / keyword names: theorem does not apply
            elif mi["compositional"] is not True:
                ctx.disagreement("oracle_compositional is false on CPython's node list of the first pass's output", short(c),
                                 {"out": p["out"][:300]}, mi)
            else:
                ctx.bump("idem_hypotheses_hold")
            if mi["out2"] != mi["out1"] and (mi["sets_ok"] or mi["out2"] is not None):
                ctx.disagreement("closed second pass differs from the first pass's output", short(c), mi["out1"][:400], (mi["out2"] or "null")[:400])
            if "again" in im and pi == len(im["passes"]) - 1 and "exc" not in im["again"]:
                if im["again"]["out"] != mi["out2"]:
                    ctx.disagreement("second pass: implementation vs closed model", short(c), im["again"]["out"][:400], (mi["out2"] or "null")[:400])
        expected_input = p["out"]
        ctx.bump("passes")
        if p["inserts"]:
            ctx.bump("inserts:%d" % p["inserts"])
            nontriv = True
        if any(b["imports"] for b in p["blocks"]):
            nontriv = True
        ctx.bump("import_blocks:%d" % min(4, sum(1 for b in p["blocks"] if b["imports"])))
    if c["tool"] in ("reformat_ft",) and not im["passes"]:
        ctx.disagreement("no transformer pass recorded", short(c), None, None)
    if im["passes"] and im["out"] != im["passes"][-1]["out"]:
        ctx.disagreement("tool result is not the output of its last pass", short(c), im["out"][-80:], im["passes"][-1]["out"][-80:])
    if c["tool"] == "cli_multi":
        if im["multi"] != "".join(im["singles"]):
            ctx.violation("reformat_frame", short(c), "--print of several files in one invocation is not the concatenation of the single-file outputs: %r vs %r"
                          % (im["multi"][:200], "".join(im["singles"])[:200]))
        for s1, o1 in zip(c["srcs"], im["singles"]):
            r1 = frame_oracle(s1, o1, None)
            if r1 is not None and r1[0] == "frame":
                frame_violation(ctx, c, "reformat_frame", s1, o1, r1[1])
        ctx.count(short(c), True)
        return
    if c["tool"] == "cli_streams":
        base = im["variants"]["baseline"]
        if im["status"]["baseline"][0] != 0:
            ctx.bump("cli_streams_baseline_failed(C03)")
            ctx.count(short(c), False)
            return
        if "[PYFLYBY]" not in im["status"]["baseline"][1]:
            ctx.bump("cli_streams_no_message_logged")
        r1 = frame_oracle(src, base, None)
        if r1 is not None and r1[0] in ("frame", "unparsable"):
            frame_violation(ctx, c, "edit_frame/insert_frame", src, base, "--print output (baseline streams): %s" % r1[1])
        for variant, text in sorted(im["variants"].items()):
            if text != base:
                ctx.violation("edit_frame/insert_frame", short(c), "tidy-imports --print with %s: stdout is not the rewritten program: %r (expected %r)"
                              % (variant, text[:240], base[:240]))
        ctx.count(short(c), True)
        return
    if c["tool"] == "cli_pyproject":
        if im["with_pyproject"] != im["without_pyproject"]:
            ctx.violation("edit_frame/insert_frame", short(c), "flags given on the command line are overridden by pyproject.toml: with %r / without %r"
                          % (im["with_pyproject"][:300], im["without_pyproject"][:300]))
        if not c["cli_flags"]["canonicalize"]:
            r1 = frame_oracle(src, im["with_pyproject"], None)
            if r1 is not None and r1[0] == "frame":
                frame_violation(ctx, c, "edit_frame/insert_frame", src, im["with_pyproject"], r1[1])
        ctx.count(short(c), True)
        return
    # ---- oracle
    inserts = sum(p["inserts"] for p in im["passes"]) if im["passes"] else None
    try:
        d_in, d_out = ast.get_docstring(ast.parse(src), clean=False), ast.get_docstring(ast.parse(im["out"]), clean=False)
        if d_in is not None and d_in != d_out:
            ctx.violation("edit_frame/insert_frame", short(c), "the module docstring changed: %r -> %r (a new import block must go after the docstring, also an empty one)" % (d_in, d_out))
    except (SyntaxError, ValueError):
        pass
    r = frame_oracle(src, im["out"], inserts)
    if r is not None:
        kind, detail = r
        if False:
            pass
        elif kind == "unparsable":
            ctx.bump("output_unparsable(C03)")
        elif kind == "skip":
            ctx.bump("oracle_skip")
        elif f38_import_comment_ends_with_backslash(c, src, im["out"]):
            ctx.known_hit("F38", "blank/comment lines after an import statement whose same-line comment ends with a backslash are dropped with the import, e.g. %r" % detail[-110:])
            ctx.bump("F38")
        elif f12_str_input_gains_newline(c, src, im["out"]):
            ctx.known_hit("F12", "reformat_import_statements(str without final newline) returns the text with a newline added, e.g. %r -> %r" % (src[-20:], im["out"][-20:]))
            ctx.bump("F12")
        else:
            ctx.violation("reformat_frame" if "reformat" in c["tool"] else "edit_frame/insert_frame", short(c), detail)
    if not src.endswith("\n"):
        ctx.bump("no_final_newline")
    ctx.count(short(c), nontriv)
    if nontriv and c["kind"] == "gen":
        ctx.sample({"case": c, "out": im["out"]}, limit=3)


def replay(payload):
    case = payload.get("case") or payload["disagreements"][0]["case"]
    if "src" not in case and "path" in case:
        from . import c10
        case = dict(case, src=c10.read_source(case["path"]))
    impl = cm.run_impl("c01", "impl_case", [case], jobs=1)
    im = impl[0]
    exprs = [pass_expr(p) for p in im.get("passes", []) if "out" in p]
    model = cm.coq_eval_json(REQ, [e for e in exprs if e])
    print(json.dumps({"case": case, "impl": im, "model": model,
                      "oracle": frame_oracle(case["src"], im["out"]) if "out" in im else None}, indent=1, ensure_ascii=False))
    return 0
